#!/usr/bin/env python3
"""
Confirm a seeded change and run the checks against it.
  harness/seedtest.py <property> <mutant dir> [more checks...]
The mutant dir holds patch.diff, demo.py, meta.json (written by an independent sub-agent in its own scratch
worktree /tmp/m/<property>/repo, importable as `cpppo` via PYTHONPATH=/tmp/m/<property>).
Steps: demo passes on the unchanged worktree; patch applies; demo fails with it; each check named is run with
CPPPO_SRC pointing at the patched worktree (never /repo); worktree restored.  Result -> seeded/<property>-<name>/.
"""
import json
import os
import shutil
import subprocess
import sys

VERIF = os.path.dirname(os.path.dirname(os.path.abspath(__file__)))


def sh(cmd, cwd=None, env=None, timeout=3000):
    p = subprocess.run(cmd, shell=True, cwd=cwd, env=env, stdout=subprocess.PIPE, stderr=subprocess.STDOUT, text=True,
                       timeout=timeout)
    return p.returncode, p.stdout


def main():
    pid, mdir = sys.argv[1], os.path.abspath(sys.argv[2])
    checks = sys.argv[3:] or [pid]
    base = os.environ.get("SEED_BASE") or f"/tmp/m/{pid}"
    wt = f"{base}/repo"
    env = dict(os.environ, PYTHONPATH=base)
    name = os.path.basename(mdir.rstrip("/"))
    if name.startswith(pid + "-"):
        name = name[len(pid) + 1:]
    res = {"property": pid, "mutant": name, "checks": {}}
    sh("git checkout -q -- .", cwd=wt)
    rc0, out0 = sh(f"/venv/bin/python {mdir}/demo.py", cwd=base, env=env, timeout=300)
    res["demo_unchanged_rc"] = rc0
    rc, out = sh(f"git apply {mdir}/patch.diff", cwd=wt)
    res["patch_applies"] = rc == 0
    if rc != 0:
        res["error"] = out[-500:]
    else:
        rc1, out1 = sh(f"/venv/bin/python {mdir}/demo.py", cwd=base, env=env, timeout=300)
        res["demo_mutated_rc"] = rc1
        res["demo_mutated_tail"] = out1[-400:]
        for c in checks:
            e2 = dict(os.environ, CPPPO_SRC=base)
            rcc, outc = sh(f"./check {c}", cwd=VERIF, env=e2)
            line = [l for l in outc.split("\n") if l.startswith("VIOLATION") or l.startswith("OK ")]
            res["checks"][c] = {"rc": rcc, "line": line[-1] if line else outc[-300:]}
            if rcc == 1 and line:
                rp = line[-1].split("replay=")[1].split()[0]
                try:
                    rj = json.load(open(rp))
                    res["checks"][c]["why"] = rj.get("why", "")[:300]
                    res["checks"][c]["kind"] = rj.get("kind")
                except Exception:
                    pass
    sh("git checkout -q -- .", cwd=wt)
    confirmed = res.get("demo_unchanged_rc") == 0 and res.get("patch_applies") and res.get("demo_mutated_rc") not in (0, None)
    res["confirmed"] = bool(confirmed)
    res["detected_by"] = [c for c, v in res["checks"].items() if v["rc"] == 1]
    if confirmed:
        dst = os.path.join(VERIF, "seeded", f"{pid}-{name}")
        os.makedirs(dst, exist_ok=True)
        for f in ("patch.diff", "demo.py"):
            if os.path.abspath(os.path.join(mdir, f)) != os.path.abspath(os.path.join(dst, f)):
                shutil.copy(os.path.join(mdir, f), dst)
        meta = json.load(open(os.path.join(mdir, "meta.json")))
        meta["verification"] = {k: res[k] for k in ("demo_unchanged_rc", "demo_mutated_rc", "checks", "detected_by")}
        meta["ran"] = (f"demo on unchanged + patched scratch worktree ({wt}); checks {checks} with CPPPO_SRC={base}; "
                       "worktree restored afterwards")
        json.dump(meta, open(os.path.join(dst, "meta.json"), "w"), indent=1)
    print(json.dumps(res, indent=1))


if __name__ == "__main__":
    main()
