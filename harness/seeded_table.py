#!/usr/bin/env python3
"""print the markdown table of seeded changes (seeded/*/meta.json) for DESIGN.md §9.4"""
import glob
import json
import os

VERIF = os.path.dirname(os.path.dirname(os.path.abspath(__file__)))
rows = []
for d in sorted(glob.glob(os.path.join(VERIF, "seeded", "*"))):
    try:
        m = json.load(open(os.path.join(d, "meta.json")))
    except Exception:
        continue
    v = m.get("verification", {})
    det = ", ".join(v.get("detected_by", [])) or "**none**"
    how = "; ".join(f"{c}: {x.get('kind') or ''} {x.get('why', '')[:70]}".strip() for c, x in v.get("checks", {}).items() if x.get("rc") == 1)
    rows.append(f"| {os.path.basename(d)} | {m.get('summary', '')[:110]} | {m.get('needs', '')[:110]} | {det} | {how[:150]} |")
print("| seeded change | what it does | needs | detected by | failing input / reason reported |")
print("|---|---|---|---|---|")
print("\n".join(rows))
