"""C05: invalid requests are refused without side effects; accepted writes stay readable."""
from corr import logix_common as lc
from corr import logix_gen as lg
from corr.c03 import C03, rand_history


def boundary_vals(reqty):
    if reqty == "BOOL":
        return [True, False]
    if reqty == "REAL":
        return [{"f32": b} for b in (0x3f800000, 0x7f7fffff, 0xff800000, 0x00000001)]
    if reqty == "LREAL":
        return [{"f64": b} for b in (0x3ff0000000000000, 0x7fefffffffffffff, 1)]
    if reqty in ("SSTRING", "STRING"):
        return ["", "a", "abc"]
    lo, hi = lc.RANGES[reqty]
    return [lo, hi, 0, 1, (hi + 1) // 2, (hi + 1) // 2 - 1, 127, 128, 255, 256, 32767, 32768, 65535, 65536,
            2 ** 31 - 1, 2 ** 31, 2 ** 32 - 1, 2 ** 32, 2 ** 63 - 1, 2 ** 63, -1, -128, -129, -32768, -32769]


class C05(C03):
    id = "C05"
    props_module = "Cpppo.Props.C05"
    check_errors = True
    rule = ("(a) every (tag type x request type) pair of the 13 element types, scalar and array tags, with each "
            "request type's boundary values (widest values into narrower tags) followed by read-back through Read "
            "Tag, Read Tag Fragmented and Get Attribute Single; (b) for every tag length 1..6: every index in "
            "{0,len-1,len,len+1} x count in {0,1,len-idx,len-idx+1,len+1} for the four tag services (and data "
            "lengths count-1..count+1 for writes); (c) unknown tags/objects/attributes for every service; (d) random "
            "histories with 40% invalid requests. non-trivial = history with at least one refused request; distinct by case")

    def cases(self, tier, rng):
        # (a) type pairs
        for tagty in lg.ALL_TYPES:
            for reqty in lg.ALL_TYPES:
                for ln in (1, 3):
                    vals = [v for v in boundary_vals(reqty)
                            if not isinstance(v, int) or isinstance(v, bool)
                            or lc.RANGES[reqty][0] <= v <= lc.RANGES[reqty][1]]
                    reqs = []
                    for v in vals:
                        reqs.append({"op": "wt", "path": [["s", "T"]], "ty": lc.TYPES[reqty], "n": 1, "vals": [v]})
                        reqs.append({"op": "rt", "path": [["s", "T"]], "n": ln})
                    reqs.append({"op": "rf", "path": [["s", "T"]], "n": ln, "off": 0})
                    reqs.append({"op": "gs", "path": [["c", 0x93], ["i", 1], ["a", 2]]})
                    yield {"budget": 488, "tags": [{"name": "T", "type": tagty, "len": ln, "addr": [0x93, 1, 2]}],
                           "reqs": reqs}
        # (b) index / count boundaries
        for ty in ("INT", "SINT", "LREAL", "DINT") if tier == "quick" else lc.FIXED:
            siz = lc.SIZES[ty]
            for ln in ((1, 2, 4) if tier == "quick" else range(1, 7)):
                reqs = []
                for idx in sorted({0, ln - 1, ln, ln + 1}):
                    for n in sorted({0, 1, max(ln - idx, 0), max(ln - idx, 0) + 1, ln + 1}):
                        p = [["s", "T"], ["e", idx]]
                        reqs.append({"op": "rt", "path": p, "n": n})
                        for off in (0, siz, siz * max(n - 1, 0), siz * n, siz * ln, 1):
                            reqs.append({"op": "rf", "path": p, "n": n, "off": off})
                        for nd in sorted({max(n - 1, 1), max(n, 1), n + 1}):
                            v = [lg.ArraySpec.zero(ty) if ty in ("REAL", "LREAL", "BOOL") else 7] * nd
                            reqs.append({"op": "wt", "path": p, "ty": lc.TYPES[ty], "n": n, "vals": v})
                            for off in (0, siz, siz * ln):
                                reqs.append({"op": "wf", "path": p, "ty": lc.TYPES[ty], "n": n, "off": off, "vals": v})
                yield {"budget": 488, "tags": [{"name": "T", "type": ty, "len": ln, "addr": None}], "reqs": reqs}
        # (c) unknown destinations
        tags = [{"name": "A", "type": "INT", "len": 4, "addr": None},
                {"name": "B", "type": "DINT", "len": 2, "addr": [0x93, 2, 3]}]
        unknown = [[["s", "nosuch"]], [["s", "A"], ["s", "x"]], [["c", 0x99], ["i", 1], ["a", 1]],
                   [["c", 0x93], ["i", 9], ["a", 3]], [["c", 0x93], ["i", 2], ["a", 9]], [["c", 2], ["i", 1], ["a", 77]],
                   [["c", 0x93], ["i", 2]], [["c", 2], ["i", 1]],
                   # the Message Router's own class, but an instance that does not exist
                   [["c", 2], ["i", 7], ["a", 1]], [["c", 2], ["i", 7]], [["c", 0x93], ["i", 1], ["a", 3]]]
        reqs = []
        for p in unknown:
            reqs += [{"op": "rt", "path": p, "n": 1}, {"op": "rf", "path": p, "n": 1, "off": 0},
                     {"op": "wt", "path": p, "ty": 0xc3, "n": 1, "vals": [5]},
                     {"op": "wf", "path": p, "ty": 0xc3, "n": 1, "off": 0, "vals": [5]}]
            if p[0][0] == "c" and p[-1][0] == "a":
                reqs += [{"op": "gs", "path": p}, {"op": "ss", "path": p, "data": [1, 0, 2, 0, 3, 0, 4, 0]}]
            reqs.append({"op": "mu", "path": [["c", 2], ["i", 1]],
                         "reqs": [{"op": "rt", "path": p, "n": 1}, {"op": "rt", "path": [["s", "A"]], "n": 4}]})
        yield {"budget": 488, "tags": tags, "reqs": reqs}
        # (d) random, mostly hostile
        for _ in range(120 if tier == "quick" else 3000):
            tags = lg.rand_tags(rng)
            yield {"budget": rng.choice([488, 24, 100]), "tags": tags,
                   "reqs": rand_history(rng, tags, rng.randint(1, 30), invalid=0.4, class_level=True)}

    def nontrivial(self, c, out):
        steps = out.split(";") if out not in ("-", "") else []
        for s in steps:
            rep = s.split("@")[0]
            if len(rep) >= 6 and rep[4:6] not in ("00", "06"):
                return self.known_key(c)
        return None

    def classify(self, c, out):
        steps = out.split(";") if out not in ("-", "") else []
        st = sorted({s.split("@")[0][4:6] for s in steps if len(s) > 6})
        return "status:" + "+".join(st)
