"""
C13: server/enip/client.py receive side (client.__next__, await_response, connector.collect / harvest / pipeline /
synchronous, connector.__init__) and get_attribute.proxy / poll.run gateway handling   vs   Cpppo.ClientRx (Lean).

Case kinds
  script  a real `connector` on a socket that already holds the first k bytes of a scripted reply stream (Register
          reply + reply frames built here, byte by byte, for the operations; optionally mutated: frames swapped,
          duplicated, dropped, foreign context / service / encapsulation status / command, empty payload, trailing
          garbage), then EOF or silence; `pipeline(depth)` or `synchronous`; single requests or Multiple Service Packets
  relay   the real `connector` through a fault-injecting TCP relay to the real simulator: server->client or
          client->server stream cut at byte offset k (EOF or silence), whole reply frames dropped, deliveries chopped
  proxy   `get_attribute.proxy` through the relay: a sequence of `with via: list( via.read( tags ))` uses with a fault
          policy per connection; which connection each use runs on, how many values it yields, how it ends
  poll    `poll.run` through the relay across fault / recovery cycles (thorough tier)
"""
import json
import os
import struct
import threading
import time

from framework import Suite
from corr import c13_net as net

SESSION = 0x11223344


# ------------------------------------------------------------------------------------------------
# scripted operations and their replies (bytes assembled here, not by cpppo)
# ------------------------------------------------------------------------------------------------
# kind -> (request service, reply bytes builder)
def _dints(vals):
    return b"\xc4\x00" + b"".join(struct.pack("<i", v) for v in vals)


def op_tag(kind, j):
    """the operation text for scripted operation number j of a kind"""
    if kind in ("r", "rf"):
        return f"T{j}[0-1]" if j % 2 else f"T{j}"
    if kind in ("w", "wf"):
        return f"T{j}[1-1]=(INT){j + 3}"
    if kind == "ga":
        return f"@0x93/{j + 1}/10"
    if kind == "sa":
        return f"@0x93/{j + 1}/10=(INT){j + 1}"
    if kind in ("re", "r6"):
        return f"T{j}[0-1]"
    raise ValueError(kind)


def op_reply(kind, j, fragment):
    """(request service code, reply bytes) for scripted operation number j: values are distinct per operation"""
    rd, wr = (0x52, 0x53) if fragment else (0x4c, 0x4d)
    vals = [1000 * (j + 1) + e for e in range(2 if j % 2 else 1)]
    if kind in ("r", "rf"):
        return rd, bytes([rd | 0x80, 0, 0, 0]) + _dints(vals)
    if kind == "r6":      # partial data (status 6) is success with data
        return rd, bytes([rd | 0x80, 0, 6, 0]) + _dints([1000 * (j + 1), 1000 * (j + 1) + 1])
    if kind == "re":      # failure with extended status: no value
        return rd, bytes([rd | 0x80, 0, 0xff, 1, 0x05, 0x21])
    if kind in ("w", "wf"):
        return wr, bytes([wr | 0x80, 0, 0, 0])
    if kind == "ga":
        return 0x0e, bytes([0x8e, 0, 0, 0]) + struct.pack("<i", 70000 + j)
    if kind == "sa":
        return 0x10, bytes([0x90, 0, 0, 0])
    raise ValueError(kind)


def header(cmd, ln, status, ctx, session=SESSION, options=0):
    return struct.pack("<HHII", cmd, ln, session, status) + ctx.ljust(8, b"\0")[:8] + struct.pack("<I", options)


def register_frame(cmd=0x65, status=0):
    return header(cmd, 4, status, b"") + struct.pack("<HH", 1, 0)


def send_rr(cip):
    return struct.pack("<IHH", 0, 8, 2) + struct.pack("<HH", 0, 0) + struct.pack("<HH", 0xb2, len(cip)) + cip


def multiple_reply(replies):
    n = len(replies)
    off, offs = 2 + 2 * n, []
    for r in replies:
        offs.append(off)
        off += len(r)
    return bytes([0x8a, 0, 0, 0]) + struct.pack("<H", n) + b"".join(struct.pack("<H", o) for o in offs) + b"".join(replies)


def frame_bytes(fr):
    """a frame spec {cmd, status, ctx (hex), cip: [reply hex...] | None, multi} -> wire bytes"""
    if fr.get("raw") is not None:
        return bytes.fromhex(fr["raw"])
    if fr["cip"] is None:
        payload = b""
    else:
        replies = [bytes.fromhex(h) for h in fr["cip"]]
        payload = send_rr(multiple_reply(replies) if fr["multi"] else replies[0])
    if fr["cmd"] == 0x65:
        payload = struct.pack("<HH", 1, 0)
    return header(fr["cmd"], len(payload), fr["status"], bytes.fromhex(fr["ctx"])) + payload


# ------------------------------------------------------------------------------------------------
# canonical outcome of an exchange on the real client
# ------------------------------------------------------------------------------------------------
def in_client_next(exc):
    tb = exc.__traceback__
    while tb is not None:
        code = tb.tb_frame.f_code
        if code.co_name == "__next__" and code.co_filename.endswith("client.py"):
            return True
        tb = tb.tb_next
    return False


def in_function(exc, name):
    tb = exc.__traceback__
    while tb is not None:
        if tb.tb_frame.f_code.co_name == name:
            return True
        tb = tb.tb_next
    return False


def open_failure(exc):
    """'connect:<cls>' / 'identify:<cls>' for an exception out of proxy.open_gateway"""
    if in_function(exc, "list_identity_details"):
        if in_client_next(exc):
            return "identify:rxerror"
        if isinstance(exc, AssertionError) and str(exc).startswith("No response to List Identity"):
            return "identify:noidentity"
        return "identify:other:" + type(exc).__name__
    return "connect:" + exc_class(exc, connecting=True)


CONNECT_MSG = [("Failed to receive any response", "noresponse"),
               ("Failed to receive EtherNet/IP response", "noenip"),
               ("Partial response parsed", "partial-held"),
               ("EtherNet/IP response indicates failure", "status"),
               ("Failed to receive Register response", "notregister")]
RUN_MSG = [("Communication ceased before harvesting all", "incomplete"),
           ("Partial response parsed", "partial-held"),
           ("Response Unrecognized", "unrecognized")]


def exc_class(exc, connecting=False):
    name, msg = type(exc).__name__, str(exc)
    if in_client_next(exc):
        return "rxerror"
    if isinstance(exc, OSError) and in_function(exc, "send"):
        return "senderror"
    if isinstance(exc, AssertionError):
        for prefix, cls in (CONNECT_MSG if connecting else RUN_MSG):
            if msg.startswith(prefix):
                return cls
        if msg.startswith("Request:") and "Mismatched" in msg:
            return "mismatch"
    if name == "ENIPStatusError":
        return "enip-status"
    if name == "MSVCStatusError":
        return "msvc-status"
    return "other:" + name


def show_results(results):
    return ",".join(f"{idx}/{raw}{'+' if ok else '-'}" for idx, raw, ok in results) if results else "-"


def parse_out(out):
    """'<results>;<end>' -> ([(idx, rawhex, ok)], end)   |   'connect:<cls>' -> (None, cls)"""
    out = out.split("#")[0]
    if out.startswith("connect:"):
        return None, out[8:]
    body, end = out.rsplit(";", 1)
    res = []
    if body != "-":
        for tok in body.split(","):
            idx, rest = tok.split("/")
            res.append((int(idx), rest[:-1], rest[-1] == "+"))
    return res, end


class Exchange:
    """runs operations on a connector and records what it yields and how it ends"""

    def __init__(self):
        self.results, self.vals, self.end = [], [], None

    def run(self, conn, api, operations, depth, multiple, fragment, timeout, index=0):
        try:
            with conn:
                if api == "pipe":
                    gen = conn.pipeline(operations=operations, index=index, depth=depth, multiple=multiple,
                                        fragment=fragment, timeout=timeout)
                elif api == "sync":
                    gen = conn.synchronous(operations=operations, index=index, multiple=multiple,
                                           fragment=fragment, timeout=timeout)
                else:
                    gen = conn.operate(operations, depth=depth, multiple=multiple, fragment=fragment,
                                       timeout=timeout)
                for idx, dsc, req, rpy, sts, val in gen:
                    self.results.append((idx, bytes(bytearray(rpy.input)).hex(), val is not None))
                    self.vals.append(val if val is None or val is True else list(val))
            self.end = "ok"
        except Exception as exc:
            self.end = exc_class(exc)
        return self

    def line(self):
        return show_results(self.results) + ";" + self.end


# ------------------------------------------------------------------------------------------------
_worker_suite = None


def _worker_init():
    global _worker_suite
    net._listener = None            # the listening socket must not be shared between processes
    net.quiet_logging()
    _worker_suite = C13()


def _worker_run(case):
    try:
        return _worker_suite.run_script(case)
    except Exception:
        return None                 # the parent runs it again and reports


# ------------------------------------------------------------------------------------------------
class C13(Suite):
    id = "C13"
    props_module = "Cpppo.Props.C13"
    extra_modules = ["Cpppo.Proofs.ClientRx"]
    rule = ("script: every cut offset x {EOF, silence} of one 3-operation exchange (pipeline and synchronous), then "
            "seeded random exchanges of 1-10 operations (reads, writes, attribute services, failing replies; single or "
            "Multiple Service Packets; depth 0-5) cut at offsets biased to frame boundaries +-1 / header / length field, "
            "plus mutated streams (swap, duplicate, drop, foreign context/service/status/command, empty payload, garbage "
            "tail); relay: the same cuts of both directions against the real simulator, dropped frames, chopped "
            "deliveries; proxy/poll: fault policies per connection and recovery.  non-trivial = the fault changes the "
            "outcome's shape (a cut inside the stream or a mutated frame); distinct by (kind, api, depth, multiple, "
            "operations, cut offset relative to frame boundaries, mode, mutation)")
    assumptions = [
        "'silence' means no further byte within the client's timeout; wall-clock behaviour of select/timeouts, half-open "
        "sockets and thread scheduling are sampled through the relay, not proved",
        "the reply parser is a parameter of the theorems; payloads are limited to the shapes the simulator produces "
        "(SendRRData / unconnected data item / single or Multiple Service Packet reply)",
        "cut_yields_prefix assumes the peer answers in request order with echoed sender context (C06); "
        "never_mispaired / never_short_silently hold for arbitrary byte streams",
    ]
    trusted_extra = ["harness-side fault-injecting TCP relay and scripted sockets (harness/corr/c13_net.py)",
                     "OS socket layer: a pre-buffered prefix followed by FIN reads as data then EOF"]

    SCRIPT_TIMEOUT_QUIET = 0.03
    RELAY_TIMEOUT = 6.0             # never waited for unless the machine stalls: EOF or data arrives first
    RELAY_TIMEOUT_QUIET = 1.5       # what a scripted silence costs
    ATTEMPTS = 4                    # a run is repeated when the relay saw the client wait > timeout/3 for a block

    def __init__(self):
        self.sim = None
        self.relay = None
        self.issue_cache = {}

    # ---------------------------------------------------------------------------------------- fixtures
    def setup(self, tier, rng):
        net.quiet_logging()

    def teardown(self):
        if self.relay:
            self.relay.stop()
        if self.sim:
            self.sim.stop()

    def need_sim(self):
        if self.sim is None:
            self.sim = net.Simulator()
            self.relay = net.Relay(self.sim.addr)
        return self.sim

    # ---------------------------------------------------------------------------------------- operations
    @staticmethod
    def operations(ops, fragment):
        """ops: [[kind, text]...] -> operation dicts, through the library's own parsers"""
        from cpppo.server.enip import client
        from cpppo.server.enip.get_attribute import attribute_operations
        out = []
        for kind, text in ops:
            if kind in ("ga", "sa"):
                out.extend(attribute_operations([text]))
            else:
                out.extend(client.parse_operations([text], fragment=fragment))
        return out

    def scripted_connector(self, data, eof, timeout):
        from cpppo.server.enip import client
        c, s = net.pair()
        try:
            if data:
                s.sendall(data)
            if eof:
                s.shutdown(net.socket.SHUT_WR)
            with net.patched_connection(c):
                conn = client.connector(host="127.0.0.1", port=1, timeout=timeout)
        except BaseException:
            c.close()
            s.close()
            raise
        return conn, s

    def issued_for(self, ops, fragment, multiple, index=0):
        """what the real `issue` yields for these operations: [(index, context hex, request service)] (cached)"""
        key = json.dumps([ops, fragment, multiple, index])
        if key not in self.issue_cache:
            conn, s = self.scripted_connector(register_frame(), False, 1.0)
            try:
                with conn:
                    iss = [(idx, bytes(ctx).hex(), int(req.service))
                           for idx, ctx, dsc, op, req in conn.issue(self.operations(ops, fragment), index=index,
                                                                    fragment=fragment, multiple=multiple,
                                                                    timeout=1.0)]
            finally:
                conn.close()
                s.close()
            self.issue_cache[key] = iss
        return self.issue_cache[key]

    # ---------------------------------------------------------------------------------------- script cases
    def script_frames(self, kinds, fragment, multiple, index=0):
        """the reply frames a well-behaved peer sends for scripted operations of these kinds (it echoes the 8 bytes
        of sender context that are on the wire)"""
        ops = [[k, op_tag(k, j)] for j, k in enumerate(kinds)]
        issued = self.issued_for(ops, fragment, multiple, index)
        frames, j = [], 0
        while j < len(issued):
            idx, ctx, _ = issued[j]
            members = [m for m in range(j, len(issued)) if issued[m][0] == idx]
            frames.append({"cmd": 0x6f, "status": 0, "ctx": ctx,
                           "cip": [op_reply(kinds[m], m, fragment)[1].hex() for m in members],
                           "multi": bool(multiple), "for": members})
            j = members[-1] + 1
        return ops, frames

    def script_case(self, rng, kinds, fragment, multiple, api, depth, mutation=None, index=0):
        ops, frames = self.script_frames(kinds, fragment, multiple, index)
        reg = {"cmd": 0x65, "status": 0, "ctx": "", "cip": None, "multi": False, "for": []}
        if mutation:
            frames, reg = self.mutate(rng, mutation, frames, reg)
        return {"kind": "script", "api": api, "depth": depth, "multiple": multiple, "fragment": fragment,
                "ops": ops, "reg": reg, "frames": frames, "mut": mutation or "none", "k": None, "mode": "eof",
                "index": index}

    MUTATIONS = ["swap", "dup", "drop", "ctx", "svc", "status", "cmd", "empty", "garbage", "extra", "regstatus",
                 "regcmd", "count"]

    @staticmethod
    def mutate(rng, how, frames, reg):
        frames = [dict(f) for f in frames]
        i = rng.randrange(len(frames))
        if how == "swap" and len(frames) > 1:
            i = rng.randrange(len(frames) - 1)
            frames[i], frames[i + 1] = frames[i + 1], frames[i]
        elif how == "dup":
            frames.insert(i + 1, dict(frames[i], **{"for": []}))
        elif how == "drop":
            del frames[i]
        elif how == "ctx":
            frames[i]["ctx"] = rng.choice(["3939", frames[i]["ctx"] + "00" * 2 + "41", "", "20" + frames[i]["ctx"]])
        elif how == "svc":
            cip = list(frames[i]["cip"])
            m = rng.randrange(len(cip))
            old = int(cip[m][:2], 16)
            new = rng.choice([x for x in (0xcc, 0xcd, 0xd2, 0xd3, 0x8e, 0x90) if x != old])
            # a well-formed successful reply of another service (data only where that service carries data)
            body = {0xcc: _dints([7]), 0xd2: _dints([7]), 0x8e: b"\x07\x00"}.get(new, b"")
            cip[m] = (bytes([new, 0, 0, 0]) + body).hex()
            frames[i]["cip"] = cip
        elif how == "status":
            frames[i]["status"] = rng.choice([1, 3, 8, 0x64, 0x65])
            if rng.random() < 0.5:
                frames[i]["cip"] = None
        elif how == "cmd":
            frames[i] = {"cmd": rng.choice([0x65, 0x00]), "status": 0, "ctx": frames[i]["ctx"], "cip": None,
                         "multi": False, "for": []}
        elif how == "empty":
            frames[i] = dict(frames[i], cip=None, **{"for": []})
        elif how == "garbage":
            tail = bytes(rng.randrange(256) for _ in range(rng.choice([1, 2, 3, 4, 23, 24])))
            tail = tail[:2] + bytes([0xff, 0x7f]) + tail[4:] if len(tail) >= 4 else tail   # a huge announced length
            frames.append({"raw": tail.hex(), "for": [], "cmd": None, "status": 0, "ctx": "", "cip": None, "multi": False})
        elif how == "extra":
            frames.append(dict(frames[-1], ctx="3939", **{"for": []}))
        elif how == "regstatus":
            reg = dict(reg, status=rng.choice([1, 2, 0x69]))
        elif how == "regcmd":
            reg = dict(frames[0], **{"for": []})
        elif how == "count" and frames[i]["multi"]:
            # a Multiple Service Packet reply answering one request fewer than were bundled
            if len(frames[i]["cip"]) > 1:
                frames[i]["cip"] = frames[i]["cip"][:-1]
                frames[i]["for"] = frames[i]["for"][:-1]
        return frames, reg

    @staticmethod
    def script_stream(case):
        reg = frame_bytes(case["reg"])
        return reg, [frame_bytes(f) for f in case["frames"]]

    def interesting_offsets(self, rng, reg, frames, n):
        """cut offsets biased to frame boundaries +-1, header fields, the length field, payload start"""
        bounds = [0, len(reg)]
        for f in frames:
            bounds.append(bounds[-1] + len(f))
        total = bounds[-1]
        cand = set()
        for b in bounds:
            for d in (-2, -1, 0, 1, 2, 3, 4, 5, 12, 20, 23, 24, 25, 30, 40):
                if 0 <= b + d <= total:
                    cand.add(b + d)
        cand = sorted(cand)
        picks = set(rng.sample(cand, min(len(cand), max(1, n * 2 // 3))))
        while len(picks) < min(n, total + 1):
            picks.add(rng.randrange(total + 1))
        return sorted(picks)

    KIND_POOL = ["r", "r", "r", "w", "ga", "sa", "re", "r6"]

    def cases(self, tier, rng):
        script = list(self.script_cases(tier, rng)) + list(self.index_cases(tier, rng))
        self.precompute(script)             # scripted exchanges are independent: run them on a few processes
        yield from script
        # 4. the real simulator behind the relay
        yield from self.relay_cases(tier, rng)
        # 5. proxy and poll
        yield from self.proxy_cases(tier, rng)

    def index_cases(self, tier, rng):
        """transaction indices around 10**8 (`pipeline( ..., index=N )`, a long-running client's running count): the
        sender context on the wire holds only 8 bytes, so nine-digit indices collide there; with a reply lost,
        duplicated or overtaken the client must still not hand a reply to another request"""
        quick = tier == "quick"
        for rep in range(2 if quick else 20):
            for index in (99999996, 99999999, 100000000, 100000003, 123456789):
                for how in (None, "drop", "drop", "dup", "swap"):
                    n = rng.choice([4, 5, 6, 8])
                    kinds = ["r"] * n if rng.random() < 0.7 else [rng.choice(["r", "w", "r6"]) for _ in range(n)]
                    api = rng.choice(["pipe", "pipe", "sync"])
                    case = self.script_case(rng, kinds, False, 0, api, 0 if api == "sync" else rng.choice([1, 2, 4]),
                                            how, index=index)
                    yield dict(case, k=None, mode=rng.choice(["eof", "quiet"]) if how else "eof")

    def search_cases(self, tier, rng):
        """failing-input search: a fresh quick-sized draw (run in-process, the time limit applies between cases)"""
        self.precomputed = {}
        yield from self.script_cases("quick", rng)
        yield from self.index_cases("quick", rng)
        yield from self.relay_cases("quick", rng)
        yield from self.proxy_cases("quick", rng)

    def precompute(self, cases):
        jobs = int(os.environ.get("C13_JOBS", "0") or 0) or max(1, min(6, (os.cpu_count() or 2) // 2))
        self.precomputed = {}
        if jobs <= 1 or len(cases) < 50:
            return
        import multiprocessing
        ctx = multiprocessing.get_context("fork")
        try:
            with ctx.Pool(jobs, initializer=_worker_init) as pool:
                outs = pool.map(_worker_run, cases, chunksize=16)
        except Exception:
            return
        for c, o in zip(cases, outs):
            if o is not None:
                self.precomputed[json.dumps(c, sort_keys=True)] = o

    def script_cases(self, tier, rng):
        quick = tier == "quick"
        # 1. exhaustive small scope: one 3-read exchange, every cut offset, EOF and silence, pipeline and synchronous
        base = self.script_case(rng, ["r", "r", "r"], False, 0, "pipe", 2)
        reg, frames = self.script_stream(base)
        total = len(reg) + sum(map(len, frames))
        for k in range(total + 1):
            yield dict(base, k=k, mode="eof")
            if not quick or k % 3 == 0 or k in (28, 78, 128, 178):
                yield dict(base, k=k, mode="quiet")
            if not quick or k % 2 == 0:
                yield dict(base, api="sync", depth=0, k=k, mode="eof")
        for k in (0, 27, 28, 29, 78, 100, 128, 178):
            yield dict(base, api="sync", depth=0, k=k, mode="quiet")
        # 2. seeded random exchanges, cut at boundary-biased offsets
        nex = 150 if quick else 1100
        for _ in range(nex):
            n = rng.choice([1, 2, 3, 3, 4, 6, 8, 10])
            kinds = [rng.choice(self.KIND_POOL) for _ in range(n)]
            fragment = rng.random() < 0.25
            multiple = rng.choice([0, 0, 0, 120, 200, 500])
            if multiple:
                kinds = [k for k in kinds if k != "ga"] or ["r"]      # an untyped Get Attribute Single is never bundled
            api = rng.choice(["pipe", "pipe", "pipe", "sync", "operate"])
            depth = 0 if api == "sync" else rng.choice([0, 1, 1, 2, 3, 5]) if api == "pipe" else rng.choice([0, 1, 2, 4])
            case = self.script_case(rng, kinds, fragment, multiple, api, depth)
            reg, frames = self.script_stream(case)
            for k in self.interesting_offsets(rng, reg, frames, 10 if quick else 14):
                yield dict(case, k=k, mode="quiet" if rng.random() < 0.2 else "eof")
        # 3. mutated streams (whole, and cut)
        nmut = 400 if quick else 3500
        for _ in range(nmut):
            n = rng.choice([2, 3, 4, 6])
            kinds = [rng.choice(self.KIND_POOL) for _ in range(n)]
            fragment = rng.random() < 0.2
            multiple = rng.choice([0, 0, 0, 200, 500])
            if multiple:
                kinds = [k for k in kinds if k != "ga"] or ["r"]
            api = rng.choice(["pipe", "pipe", "sync"])
            depth = 0 if api == "sync" else rng.choice([0, 1, 2, 4])
            how = rng.choice(self.MUTATIONS)
            case = self.script_case(rng, kinds, fragment, multiple, api, depth, how)
            yield dict(case, k=None, mode=rng.choice(["eof", "eof", "quiet"]))
            if rng.random() < 0.5:
                reg, frames = self.script_stream(case)
                k = rng.choice(self.interesting_offsets(rng, reg, frames, 6))
                yield dict(case, k=k, mode="eof")

        # 4. bundled exchanges of several EQUALLY SHAPED Multiple Service Packets (uniform operations, a small bundle
        #    limit) with a whole reply frame lost, duplicated or overtaken while the connection stays up: only the
        #    sender context tells the reply of one packet from the reply of the next
        for _ in range(60 if quick else 500):
            n = rng.choice([4, 6, 8, 9, 12, 16])
            kinds = [rng.choice(["r", "r", "r", "w"])] * n if rng.random() < 0.8 else [rng.choice(["r", "w"]) for _ in range(n)]
            multiple = rng.choice([80, 100, 120, 150, 200])
            api = rng.choice(["pipe", "pipe", "sync", "operate"])
            depth = 0 if api == "sync" else rng.choice([1, 2, 2, 3, 5])
            how = rng.choice(["drop", "drop", "drop", "dup", "swap"])
            case = self.script_case(rng, kinds, False, multiple, api, depth, how)
            yield dict(case, k=None, mode=rng.choice(["eof", "quiet"]))

    # ---------------------------------------------------------------------------------------- relay cases
    # (operation text, expected value: list / True (write) / None (refused))
    RELAY_OPS = [("A[0]", [1000]), ("B[0-7]", [20, 21, 22, 23, 24, 25, 26, 27]), ("C[1]", [2.5]), ("D[1-2]", [41, 42]),
                 ("A[2-3]", [1002, 1003]), ("A[9]", None), ("B[3-3]=(INT)23", True), ("E", [77777]), ("B[3]", [23]),
                 ("C[0-3]", [1.5, 2.5, 3.5, 4.5]), ("D[7]", [47]), ("A[4-7]", [1004, 1005, 1006, 1007]),
                 ("A[7-7]=(DINT)1007", True), ("B[8]", None)]

    def relay_exchanges(self, rng, count):
        ex = []
        for _ in range(count):
            n = rng.randint(6, 10)
            picks = rng.sample(range(len(self.RELAY_OPS)), n)
            ex.append({"ops": [["t", self.RELAY_OPS[i][0]] for i in picks],
                       "api": "pipe", "depth": rng.choice([1, 2, 3]), "multiple": rng.choice([0, 0, 250]),
                       "fragment": rng.random() < 0.3})
        return ex

    def relay_reference(self, ex):
        """a fault-free run through the relay: the byte streams of both directions (lengths and frame boundaries)"""
        case = dict(ex, kind="relay", dir="none", k=None, mode="eof", chop=None)
        for _attempt in range(5):
            out = self.impl(case)
            results, end = parse_out(out)
            if results is not None and end == "ok" and len(results) == len(ex["ops"]):
                break
        else:
            raise RuntimeError("no fault-free reference run through the relay: " + out)
        obs = case["_obs"]
        return bytes.fromhex("".join(obs["s2c"])), bytes.fromhex(obs["c2s"])

    def relay_cases(self, tier, rng):
        quick = tier == "quick"
        self.need_sim()
        for exi, ex in enumerate(self.relay_exchanges(rng, 1 if quick else 3)):
            s2c, c2s = self.relay_reference(ex)
            base = dict(ex, kind="relay", chop=None)
            yield dict(base, dir="none", k=None, mode="eof")
            yield dict(base, dir="none", k=None, mode="eof", chop=7)
            for direction, stream in (("s2c", s2c), ("c2s", c2s)):
                ends = net.frame_ends(stream)
                total = len(stream)
                if quick:
                    offs = set()
                    for e in [0] + ends:
                        offs.update(x for x in (e - 1, e, e + 1, e + 3, e + 24) if 0 <= x <= total)
                    offs = sorted(offs)
                    want = 60 if direction == "s2c" else 24
                    if len(offs) > want:
                        offs = sorted(rng.sample(offs, want))
                    extra = [rng.randrange(total + 1) for _ in range(6)]
                    offs = sorted(set(offs) | set(extra))
                elif direction == "s2c" or exi == 0:
                    offs = range(total + 1)                       # EVERY cut offset
                else:
                    offs = sorted(set(rng.sample(range(total + 1), min(200, total + 1))) | set(ends))
                for k in offs:
                    yield dict(base, dir=direction, k=k, mode="eof", chop=rng.choice([None, None, 5]))
                qn = 5 if quick else 12
                for k in sorted(rng.sample(range(total + 1), min(qn, total + 1))):
                    yield dict(base, dir=direction, k=k, mode="quiet")
            nframes = len(net.frame_ends(s2c))
            for j in range(1, nframes):
                if quick and j > 4:
                    break
                yield dict(base, dir="drop", frames=[j], k=None, mode="quiet")
            if nframes > 3:
                yield dict(base, dir="drop", frames=[1, 3], k=None, mode="quiet")

    # ---------------------------------------------------------------------------------------- proxy / poll cases
    def proxy_cases(self, tier, rng):
        quick = tier == "quick"
        self.need_sim()
        tagsets = [[0, 1, 2, 3], [4, 7, 8], [9, 10, 11, 0, 3, 7]]
        n = 10 if quick else 70
        for _ in range(n):
            uses = [rng.choice(tagsets) for _ in range(rng.choice([3, 4, 5]))]
            depth = rng.choice([1, 2, 3])
            multiple = rng.choice([0, 0, 250])
            faults = []
            for _c in range(3):
                r = rng.random()
                if r < 0.55:
                    faults.append({"dir": "s2c", "k": rng.choice([0, 5, 27, 28, 29, 40, 52, 77, 78, 79, 90, 128, 150, 200,
                                                                  rng.randrange(400), rng.randrange(900)]),
                                   "mode": "eof" if rng.random() < 0.88 else "quiet"})
                elif r < 0.72:
                    faults.append({"dir": "c2s", "k": rng.randrange(20, 500), "mode": "eof"})
                elif r < 0.78:
                    faults.append({"dir": "drop", "frames": [rng.randrange(1, 6)]})
                else:
                    faults.append(None)
            faults.append(None)
            yield {"kind": "proxy", "depth": depth, "multiple": multiple, "uses": uses, "faults": faults,
                   "ident": rng.random() < 0.5}
        yield from self.open_phase_cases(tier, rng, tagsets)
        yield from self.idle_and_identity_cases(tier, rng, tagsets)
        if True:
            for _ in range(1 if quick else 6):
                yield {"kind": "poll", "depth": rng.choice([1, 2]), "multiple": 0, "tags": rng.choice(tagsets),
                       "events": 6 if quick else 9,
                       "faults": [{"dir": "s2c", "k": rng.randrange(60, 700), "mode": "eof"}, None][:1]
                                 + [{"dir": "s2c", "k": rng.randrange(0, 500), "mode": "eof"},
                                    {"dir": "s2c", "k": rng.randrange(100, 900), "mode": "eof" if quick else rng.choice(["eof", "quiet"])},
                                    None],
                       "ident": rng.random() < 0.5}

    def idle_and_identity_cases(self, tier, rng, tagsets):
        """(a) the device aborts (TCP RST) the idle connection between two uses: the next use's first send fails with
        nothing outstanding; (b) `via.list_identity()` on an established gateway with its reply cut / lost; each
        followed by a use against the healthy device"""
        quick = tier == "quick"
        for i in range(3 if quick else 12):
            ts = tagsets[i % len(tagsets)]
            yield {"kind": "proxy", "depth": rng.choice([1, 2, 3]), "multiple": rng.choice([0, 0, 250]),
                   "uses": [ts, ts, tagsets[(i + 1) % len(tagsets)]], "faults": [None, None], "ident": i % 2 == 1,
                   "abort_after": [0], "phase": "idle-abort"}
        for ident in (False, True):
            ts = tagsets[0]
            uses = [ts, "I", ts]
            for _attempt in range(5):
                ref = {"kind": "proxy", "depth": 2, "multiple": 0, "uses": uses, "faults": [None], "ident": ident}
                out = self.impl(ref)
                ends = net.frame_ends(b"".join(self.relay.conns[0]["s2c"])) if self.relay.conns else []
                if all(t.endswith(";ok") for t in out.split("#")[0].split("|")) and len(ends) >= 2 + len(ts):
                    break
            else:
                raise RuntimeError("no fault-free reference run with list_identity: " + out)
            idx = 1 + (1 if ident else 0) + len(ts)           # the frame answering via.list_identity()
            lo, hi = ends[idx - 1], ends[idx]
            ks = sorted({lo, lo + 1, lo + 3, lo + 24, (lo + hi) // 2, hi - 1}) if quick else range(lo, hi)
            if quick and ident:
                ks = ks[:3]
            for k in ks:
                yield {"kind": "proxy", "depth": 2, "multiple": 0, "uses": uses, "ident": ident,
                       "faults": [{"dir": "s2c", "k": k, "mode": "eof"}, None], "phase": "identity"}
            if not (quick and ident):
                yield {"kind": "proxy", "depth": 2, "multiple": 0, "uses": uses, "ident": ident,
                       "faults": [{"dir": "drop", "frames": [idx]}, None], "phase": "identity"}

    def open_reference(self, tagset):
        """a fault-free first use of an identifying proxy: where the open phase (Register + List Identity) ends in
        either direction"""
        for _attempt in range(5):
            case = {"kind": "proxy", "depth": 2, "multiple": 0, "uses": [tagset], "faults": [None], "ident": True}
            out = self.impl(case)
            if out.endswith(";ok") and self.relay.conns:
                s2c = net.frame_ends(b"".join(self.relay.conns[0]["s2c"]))
                c2s = net.frame_ends(bytes(self.relay.conns[0]["c2s"]))
                if len(s2c) >= 3 and len(c2s) >= 3:
                    return s2c, c2s
        raise RuntimeError("no fault-free reference run of the proxy through the relay: " + out)

    def open_phase_cases(self, tier, rng, tagsets):
        """the gateway-opening phase of the proxy (connect, Register, and - without an identity_default - List
        Identity): a fault at every byte offset of that part of the reply stream (and of the request stream), then a
        second use against the healthy device, which must reconnect and return correct data"""
        quick = tier == "quick"
        tagset = tagsets[0]
        s2c, c2s = self.open_reference(tagset)
        reg_end, open_end, first_data_end = s2c[0], s2c[1], s2c[2]

        def case(ident, direction, k, mode, uses=2):
            return {"kind": "proxy", "depth": 2, "multiple": 0, "uses": [tagset] * uses, "ident": ident,
                    "faults": [{"dir": direction, "k": k, "mode": mode}, None], "phase": "open"}
        span = range(0, first_data_end + 2)                 # Register, List Identity, and into the first data reply
        if quick:
            marks = {0, 1, 2, 4, reg_end - 1, reg_end, reg_end + 1, reg_end + 2, reg_end + 4, reg_end + 23,
                     reg_end + 24, reg_end + 25, open_end - 1, open_end, open_end + 1, open_end + 24, first_data_end}
            ks = sorted(marks | set(rng.sample(list(span), 5)))
        else:
            ks = list(span)
        for k in ks:
            yield case(True, "s2c", k, "eof")
        for k in (ks if not quick else sorted(rng.sample(ks, 8))):
            if k <= reg_end + 30:
                yield case(False, "s2c", k, "eof")
        qs = [0, reg_end, (reg_end + open_end) // 2, open_end] if quick else \
            sorted({0, 3, reg_end, reg_end + 1, reg_end + 24, (reg_end + open_end) // 2, open_end - 1, open_end,
                    open_end + 10})
        for k in qs:
            yield case(True, "s2c", k, "quiet")
        creq = range(0, c2s[2] + 1)                         # Register request, List Identity request, first data request
        for k in (sorted(rng.sample(list(creq), 8)) if quick else creq):
            yield case(True, "c2s", k, "eof")
        # the List Identity reply lost entirely, or replaced by silence on the request side
        yield {"kind": "proxy", "depth": 2, "multiple": 0, "uses": [tagset] * 2, "ident": True,
               "faults": [{"dir": "drop", "frames": [1]}, None], "phase": "open"}
        yield case(True, "c2s", c2s[0] + 5, "quiet")

    # ---------------------------------------------------------------------------------------- model line
    @staticmethod
    def issued_token(issued):
        return ",".join(f"{i}:{c or '-'}:{s}" for i, c, s in issued) if issued else "-"

    def model_line(self, c):
        kind = c["kind"]
        if kind == "script":
            reg, frames = self.script_stream(c)
            data = reg + b"".join(frames)
            if c["k"] is not None:
                data = data[:c["k"]]
            issued = self.issued_for(c["ops"], c["fragment"], c["multiple"], c.get("index", 0))
            api, depth = self.api_depth(c)
            evs = ([data.hex()] if data else []) + ["E" if c["mode"] == "eof" else "Q"]
            spec = f" {len(data)}:{(reg + b''.join(frames)).hex()}" if self.spec_applies(c) else ""
            return f"crx {api} {depth} {c.get('index', 0)} {self.issued_token(issued)} {','.join(evs)}{spec}"
        obs = c.get("_obs")
        if not obs:
            return "crx unobserved"
        if kind == "relay":
            issued = self.issued_for(c["ops"], c["fragment"], c["multiple"])
            api, depth = self.api_depth(c)
            evs = [b for b in obs["s2c"] if b] + [obs["term"]]
            whole = "".join(obs["s2c"]) if c["dir"] == "drop" else obs["server"]     # the stream as (to be) delivered
            spec = f" {sum(len(b) for b in obs['s2c']) // 2}:{whole}" if self.spec_applies(c) else ""
            return f"crx {api} {depth} 0 {self.issued_token(issued)} {','.join(evs)}{spec}"
        # proxy / poll
        uses = "|".join("I" if ops == "I" else self.issued_token(self.issued_for(ops, False, c["multiple"]))
                        for ops in obs["uses"])
        conns = "|".join(",".join([b for b in blocks if b] + [term]) for blocks, term in obs["conns"])
        fmt = "e" if kind == "poll" else "n"
        return f"prx {fmt} {1 if c.get('ident') else 0} {c['depth']} {uses or '-'} {conns or 'Q'}"

    @staticmethod
    def api_depth(c):
        """`operate` chooses `synchronous` for depth 0 and `pipeline` otherwise"""
        if c["api"] == "operate":
            return ("sync", 0) if c["depth"] == 0 else ("pipe", c["depth"])
        return c["api"], c["depth"]

    # ---------------------------------------------------------------------------------------- impl
    def impl(self, c):
        if c["kind"] == "script":
            out = self.impl_script(c)
        else:
            # wall-clock scenarios: valid only if no block was delayed towards the client's timeout (machine load);
            # decided from the relay's own clock, never from the outcome
            for _attempt in range(self.ATTEMPTS):
                out = getattr(self, "impl_" + c["kind"])(c)
                if self.relay.max_stall() <= self.last_timeout / 3.0:
                    break
                self.stalled_runs = getattr(self, "stalled_runs", 0) + 1
        return out + "#spec-ok" if self.spec_applies(c) else out

    # mutations that leave every frame well-formed with at least one reply (the hypotheses of exchange_zip_segmented)
    SERVED_MUTATIONS = ("none", "swap", "dup", "drop", "ctx", "svc", "extra", "count")

    @staticmethod
    def spec_applies(c):
        """exchanges whose frames all parse: the hypotheses of `exchange_zip_segmented` (and, unmutated, of
        `exchange_cut_segmented`) must hold on the real streams; the driver decides them and compares the theorems'
        right-hand sides with the model run"""
        if c["kind"] == "relay":       # ... as far as the server answered at all (a request stream cut inside Register)
            return bool(c.get("_obs")) and len(c["_obs"]["server"]) >= 2 * 28
        return c["kind"] == "script" and c["mut"] in C13.SERVED_MUTATIONS and not c.get("index")

    def impl_script(self, c):
        pre = getattr(self, "precomputed", None)
        if pre:
            out = pre.get(json.dumps(c, sort_keys=True))
            if out is not None:
                return out
        return self.run_script(c)

    def run_script(self, c):
        reg, frames = self.script_stream(c)
        data = reg + b"".join(frames)
        if c["k"] is not None:
            data = data[:c["k"]]
        eof = c["mode"] == "eof"
        timeout = 1.0 if eof else self.SCRIPT_TIMEOUT_QUIET
        try:
            conn, s = self.scripted_connector(data, eof, timeout)
        except Exception as exc:
            return "connect:" + exc_class(exc, connecting=True)
        try:
            ex = Exchange().run(conn, c["api"], self.operations(c["ops"], c["fragment"]), c["depth"], c["multiple"],
                                c["fragment"], timeout, index=c.get("index", 0))
        finally:
            conn.close()
            s.close()
        return ex.line()

    def impl_relay(self, c):
        from cpppo.server.enip import client
        self.need_sim()
        pol = None
        if c["dir"] in ("s2c", "c2s"):
            pol = {"dir": c["dir"], "k": c["k"], "mode": c["mode"], "chop": c.get("chop")}
        elif c["dir"] == "drop":
            pol = {"dir": "drop", "frames": c["frames"], "chop": c.get("chop")}
        elif c.get("chop"):
            pol = {"chop": c["chop"]}
        self.relay.reset([pol])
        quiet = (c["mode"] == "quiet" and c["dir"] != "none") or c["dir"] == "drop"
        timeout = self.last_timeout = self.RELAY_TIMEOUT_QUIET if quiet else self.RELAY_TIMEOUT
        ops = [[k, t] for k, t in c["ops"]]
        c["_obs"] = None
        line, vals = None, []
        try:
            conn = client.connector(host=self.relay.addr[0], port=self.relay.addr[1], timeout=timeout)
        except Exception as exc:
            line = "connect:" + exc_class(exc, connecting=True)
        else:
            try:
                ex = Exchange().run(conn, c["api"], self.operations(ops, c["fragment"]), c["depth"], c["multiple"],
                                    c["fragment"], timeout)
                line, vals = ex.line(), ex.vals
            finally:
                conn.close()
        time.sleep(0.002)
        rec = self.relay.conns[0] if self.relay.conns else {"s2c": [], "c2s": b""}
        # how the delivered prefix ended, as the client saw it: an s2c cut in 'quiet' mode, or a silent server
        # behind a client->server cut in 'quiet' mode, is silence; everything else ends with EOF
        term = "Q" if quiet else "E"
        if c["dir"] in ("none", "drop"):
            term = "Q"      # the connection stays open: whatever the client misses, it misses by timeout
        c["_obs"] = {"s2c": [b.hex() for b in rec["s2c"]], "c2s": bytes(rec["c2s"]).hex(), "term": term,
                     "vals": vals, "server": bytes(rec.get("server", b"")).hex()}
        self.relay.close_all()
        return line

    def impl_proxy(self, c):
        from cpppo.server.enip.get_attribute import proxy
        self.need_sim()
        self.relay.reset(c["faults"])
        quiet = any(f and f.get("mode") == "quiet" for f in c["faults"]) or any(
            f and f.get("dir") == "drop" for f in c["faults"])
        timeout = self.last_timeout = self.RELAY_TIMEOUT_QUIET if quiet else self.RELAY_TIMEOUT
        via = proxy(host=self.relay.addr[0], port=self.relay.addr[1], timeout=timeout, depth=c["depth"],
                    multiple=c["multiple"], identity_default=None if c.get("ident") else "C13")
        outs, uses, allvals = [], [], []
        c["_obs"] = None
        try:
            for u, tagset in enumerate(c["uses"]):
                identity = tagset == "I"
                tags = [] if identity else [self.RELAY_OPS[i][0] for i in tagset]
                uses.append("I" if identity else [["t", t] for t in tags])
                before = self.relay.count
                vals, n = [], None
                try:
                    if identity:
                        try:
                            via.list_identity()          # @maintain_gateway: runs inside `with via:`
                        finally:
                            n = self.relay.count - 1 if self.relay.count else None
                        outs.append(f"c{n}:id;ok")
                    else:
                        with via:
                            n = self.relay.count - 1
                            for v in via.read(tags):
                                vals.append(v if v is None or v is True else list(v))
                        outs.append(f"c{n}:{len(vals)};ok")
                except Exception as exc:
                    if in_function(exc, "open_gateway") or n is None:
                        n = self.relay.count - 1
                        outs.append(f"c{n}:{open_failure(exc)}" if self.relay.count > before else "refused")
                    elif identity:
                        outs.append(f"c{n}:id;{open_failure(exc).split(':', 1)[1]}")
                    else:
                        outs.append(f"c{n}:{len(vals)};{exc_class(exc)}")
                if u in c.get("abort_after", ()) and self.relay.count:
                    self.relay.abort(self.relay.count - 1)      # the device aborts the idle connection
                    time.sleep(0.03)
                allvals.append({"vals": vals, "gateway_after": via.gateway is not None})
        finally:
            via.close_gateway()
        time.sleep(0.002)
        c["_obs"] = {"uses": uses, "conns": self.relay_conn_events(c["faults"]), "vals": allvals}
        self.relay.close_all()
        return "|".join(outs)

    def relay_conn_events(self, faults):
        conns = []
        for i, rec in enumerate(list(self.relay.conns)):
            f = faults[i] if i < len(faults) else None
            term = "R" if rec.get("aborted") else "E" if f and f.get("mode") == "eof" else "Q"
            conns.append(([b.hex() for b in rec["s2c"]], term))
        return conns

    def impl_poll(self, c):
        from cpppo.server.enip.get_attribute import proxy
        from cpppo.server.enip import poll
        self.need_sim()
        self.relay.reset(c["faults"])
        quiet = any(f and f.get("mode") == "quiet" for f in c["faults"])
        timeout = self.last_timeout = self.RELAY_TIMEOUT_QUIET if quiet else self.RELAY_TIMEOUT
        via = proxy(host=self.relay.addr[0], port=self.relay.addr[1], timeout=timeout, depth=c["depth"],
                    multiple=c["multiple"], identity_default=None if c.get("ident") else "C13")
        tags = [self.RELAY_OPS[i][0] for i in c["tags"]]
        events, current = [], []
        relay = self.relay

        class Process:
            done = False

            def __call__(self, p, v):
                current.append((p, v if v is None or v is True else list(v)))
                if len(current) == len(tags):
                    events.append(("ok", relay.count - 1, list(current)))
                    del current[:]
                    self.check()

            def check(self):
                if len(events) >= c["events"]:
                    self.done = True

        process = Process()

        def failure(exc):
            del current[:]
            opening = in_function(exc, "open_gateway")
            events.append(("fail", relay.count - 1, open_failure(exc) if opening else exc_class(exc),
                           via.gateway is not None))
            process.check()

        th = threading.Thread(target=poll.run, daemon=True, kwargs=dict(
            via=via, process=process, failure=failure, backoff_min=0.01, backoff_max=0.02, latency=0.005,
            cycle=0.02, params=tags, pass_thru=True))
        th.start()
        th.join(timeout=30)
        process.done = True
        via.close_gateway()
        time.sleep(0.002)
        outs, allvals = [], []
        for ev in events[:c["events"]]:
            if ev[0] == "ok":
                outs.append(f"c{ev[1]}:{len(ev[2])};ok")
                allvals.append({"vals": [v for _, v in ev[2]], "params": [p for p, _ in ev[2]], "gateway_after": True})
            else:
                outs.append(f"c{ev[1]}:{ev[2]}" if ev[2].startswith(("connect:", "identify:")) else f"c{ev[1]}:?;{ev[2]}")
                allvals.append({"vals": [], "gateway_after": ev[3], "failed": True})
        c["_obs"] = {"uses": [[["t", t] for t in tags]] * len(outs), "conns": self.relay_conn_events(c["faults"]),
                     "vals": allvals, "alive": th.is_alive()}
        self.relay.close_all()
        return "|".join(outs)

    # ---------------------------------------------------------------------------------------- oracle
    def oracle(self, c, out):
        if out.startswith("harness-exception"):
            return out
        return getattr(self, "oracle_" + c["kind"])(c, out)

    @staticmethod
    def request_service(kind, text, fragment):
        if kind == "ga":
            return 0x0e
        if kind == "sa":
            return 0x10
        write = "=" in text
        if fragment or "+" in text:
            return 0x53 if write else 0x52
        return 0x4d if write else 0x4c

    def oracle_script(self, c, out):
        """from the property statement: every yielded record is the reply meant for ITS OWN operation and was wholly
        received; success is not reported beyond the cut; fewer records than operations only with an error"""
        results, end = parse_out(out)
        if results is None:
            return None                      # no connector, no results: an error ended the attempt
        reg, frames = self.script_stream(c)
        data = reg + b"".join(frames)
        delivered = len(data) if c["k"] is None else min(c["k"], len(data))
        # which operation's reply is wholly inside the delivered prefix, and what it is
        meant, pos = {}, len(reg)
        for spec, fb in zip(c["frames"], frames):
            pos += len(fb)
            if pos <= delivered and spec.get("cip"):
                for opi, rhex in zip(spec["for"], spec["cip"]):
                    meant.setdefault(opi, rhex)
        nops = len(c["ops"])
        if len(results) > nops:
            return f"{len(results)} records for {nops} operations"
        for j, (idx, raw, ok) in enumerate(results):
            kind, text = c["ops"][j]
            if j not in meant:
                return f"record {j} yielded although the reply for operation {j} was not (completely) received"
            if raw != meant[j]:
                return f"record {j} carries {raw}, the reply meant for operation {j} is {meant[j]}"
            want = self.request_service(kind, text, c["fragment"]) | 0x80
            if int(raw[:2], 16) != want:
                return f"record {j} is a reply of service {raw[:2]} to a request of service {want - 0x80:#x}"
        if len(results) < nops and end == "ok":
            return f"{len(results)} records for {nops} operations and no error"
        return None

    def expected_value(self, text):
        for t, v in self.RELAY_OPS:
            if t == text:
                return v
        raise KeyError(text)

    def oracle_relay(self, c, out):
        results, end = parse_out(out)
        if results is None:
            return None
        obs = c.get("_obs") or {}
        vals = obs.get("vals", [])
        delivered = bytes.fromhex("".join(obs.get("s2c", [])))
        whole = max(0, len(net.frame_ends(delivered)) - 1)          # reply frames wholly delivered (Register excluded)
        nops = len(c["ops"])
        if len(results) > nops:
            return f"{len(results)} records for {nops} operations"
        packets = []                                                 # packet index of each record, in order
        for j, (idx, raw, ok) in enumerate(results):
            want = self.expected_value(c["ops"][j][1])
            got = vals[j] if j < len(vals) else "?"
            if got != want:
                return f"record {j} ({c['ops'][j][1]}) has value {got!r}, its own tag holds {want!r}"
            if idx not in packets:
                packets.append(idx)
        if c["dir"] != "drop" and len(packets) > whole:
            return f"records from {len(packets)} reply frames, only {whole} were wholly delivered"
        if len(results) < nops and end == "ok":
            return f"{len(results)} records for {nops} operations and no error"
        return None

    def oracle_proxy(self, c, out):
        obs = c.get("_obs") or {}
        outs = out.split("|") if out else []
        failed_before, last_conn, used_failed = False, None, set()
        for u, (tok, info) in enumerate(zip(outs, obs.get("vals", []))):
            tags = [] if obs["uses"][u] == "I" else [t for _, t in obs["uses"][u]]
            if tok == "refused":
                return f"use {u}: no connection attempted"
            conn = int(tok[1:tok.index(":")])
            body = tok[tok.index(":") + 1:]
            vals = info["vals"]
            for j, v in enumerate(vals):
                if v != self.expected_value(tags[j]):
                    return f"use {u}: value {j} ({tags[j]}) is {v!r}, the tag holds {self.expected_value(tags[j])!r}"
            ok = body.endswith(";ok")
            if ok and len(vals) != len(tags):
                return f"use {u}: {len(vals)} values for {len(tags)} attributes and no error"
            if conn in used_failed:
                return f"use {u} ran on connection {conn}, which had failed before"
            if failed_before and last_conn is not None and conn <= last_conn:
                return f"use {u} after a failure did not reconnect (connection {conn})"
            faults = c.get("faults", [])
            healthy = conn < len(faults) and faults[conn] is None
            if not ok:
                if info.get("gateway_after"):
                    return f"use {u} failed but the proxy kept its gateway"
                if failed_before and healthy:
                    return (f"use {u} after a failure found a healthy device (connection {conn} carries no fault) "
                            f"and did not return its data: {body}")
                used_failed.add(conn)
            failed_before, last_conn = (not ok), conn
        return None

    oracle_poll = oracle_proxy

    # ---------------------------------------------------------------------------------------- reporting
    def cut_position(self, c):
        if c["kind"] == "script":
            if c["k"] is None:
                return "whole"
            reg, frames = self.script_stream(c)
            bounds = [0, len(reg)]
            for f in frames:
                bounds.append(bounds[-1] + len(f))
        else:
            return "-"
        k = c["k"]
        if k >= bounds[-1]:
            return "whole"
        if k in bounds:
            return "boundary"
        start = max(b for b in bounds if b <= k)
        where = "register" if start == 0 else "reply"
        off = k - start
        return where + (":command" if off < 2 else ":length" if off < 4 else ":header" if off < 24 else ":payload")

    def classify(self, c, out):
        out = out.split("#")[0]
        end = out.split(";")[-1] if ";" in out and "|" not in out else ("connect" if out.startswith("connect") else "multi")
        if c["kind"] == "script":
            big = ":index>=1e8" if c.get("index", 0) + len(c["ops"]) > 10 ** 8 else ":index" if c.get("index") else ""
            return f"script{big}:{c['api']}:{c['mode']}:{c['mut']}:{self.cut_position(c)}:{end}"
        if c["kind"] == "relay":
            return f"relay:{c['dir']}:{c['mode']}:{'multi' if c['multiple'] else 'single'}:{end}"
        toks = out.split("|")
        bad = sum(1 for t in toks if not t.endswith(";ok"))
        if c.get("phase") in ("idle-abort", "identity"):
            return f"proxy-{c['phase']}:{'ident' if c.get('ident') else 'noident'}:" + "/".join(
                t.split(":", 1)[1].split(";")[-1] if ":" in t else t for t in toks)
        if c.get("phase") == "open":
            first = toks[0].split(":", 1)[1] if ":" in toks[0] else toks[0]
            first = first.split(";")[-1] if ";" in first else first
            return (f"proxy-open:{'ident' if c.get('ident') else 'noident'}:{c['faults'][0]['dir']}:"
                    f"{c['faults'][0].get('mode', '-')}:{first}:{'recovered' if toks[-1].endswith(';ok') else 'NOT'}")
        return (f"{c['kind']}:{'ident' if c.get('ident') else 'noident'}:{bad}-failed-of-{len(toks)}:"
                f"{'recovered' if bad and toks[-1].endswith(';ok') else 'end'}")

    def nontrivial(self, c, out):
        key = json.dumps({k: v for k, v in c.items() if k != "_obs"}, sort_keys=True)
        if c["kind"] == "script":
            if c["mut"] != "none" or self.cut_position(c) != "whole":
                return key
            return None
        if c["kind"] == "relay":
            return key if c["dir"] != "none" else None
        return key if any(not t.endswith(";ok") for t in out.split("|")) else None

    def shrink(self, c):
        if c["kind"] != "script":
            return
        if c["mut"] == "none" and len(c["ops"]) > 1:
            kinds = [k for k, _ in c["ops"]][:-1]
            import random
            small = self.script_case(random.Random(0), kinds, c["fragment"], c["multiple"], c["api"], c["depth"],
                                     index=c.get("index", 0))
            reg, frames = self.script_stream(small)
            total = len(reg) + sum(map(len, frames))
            if c["k"] is None or c["k"] <= total:
                yield dict(small, k=c["k"], mode=c["mode"])
        if c["multiple"]:
            pass
        if c["depth"] > 1:
            yield dict(c, depth=1)

    def known_key(self, c):
        return json.dumps({k: v for k, v in c.items() if k != "_obs"}, sort_keys=True)
