"""
Network fixtures for the C13 suite (all harness-side, 127.0.0.1, ephemeral ports):

  pair()            a connected TCP socket pair, made synchronously (no thread)
  scripted client   `connect_scripted(data, eof)`: a real `client.connector` whose socket already holds `data`
                    (then EOF, or nothing more)
  Simulator         the real `cpppo.server.enip.main` in a thread with a few tags of known, distinct contents
  Relay             a fault-injecting TCP relay between a client and the simulator: per connection (numbered in
                    accept order) a policy: cut the server->client or client->server stream at a byte offset
                    (then EOF or silence), drop whole reply frames, chop deliveries into small pieces; records what
                    was delivered to the client, block by block
"""
import logging
import socket
import struct
import sys
import threading
import time

_listener = None


def pair():
    """(client side, server side) of a fresh loopback TCP connection"""
    global _listener
    if _listener is None:
        _listener = socket.socket()
        _listener.bind(("127.0.0.1", 0))
        _listener.listen(64)
    c = socket.socket()
    c.connect(_listener.getsockname())
    s, _ = _listener.accept()
    return c, s


def quiet_logging():
    """the library logs every injected fault at WARNING/ERROR; the harness reports outcomes itself"""
    logging.disable(logging.CRITICAL)
    prev = sys.unraisablehook

    def hook(unraisable):
        # a framing generator closed by the garbage collector with a partial field raises struct.error in
        # `terminate`; CPython reports it as "Exception ignored in"; it is not an outcome of the exchange
        if isinstance(unraisable.exc_value, (struct.error, GeneratorExit, AssertionError)):
            return
        prev(unraisable)
    sys.unraisablehook = hook


class patched_connection:
    """make the next `socket.create_connection` (inside `client.client.__init__`) return `sock`"""

    def __init__(self, sock):
        self.sock = sock

    def __enter__(self):
        self.orig = socket.create_connection
        socket.create_connection = lambda *a, **kw: self.sock
        return self

    def __exit__(self, *a):
        socket.create_connection = self.orig


def frame_ends(data):
    """end offsets of the complete encapsulation frames at the front of `data` (header walk, no cpppo)"""
    ends, o = [], 0
    while o + 24 <= len(data):
        ln = data[o + 2] | (data[o + 3] << 8)
        if o + 24 + ln > len(data):
            break
        o += 24 + ln
        ends.append(o)
    return ends


# ------------------------------------------------------------------------------------------------
class Simulator:
    TAGS = ["A=DINT[8]", "B=INT[8]", "C=REAL[4]", "D=SINT[8]", "E=DINT"]
    INIT = ["A[0-7]=(DINT)1000,1001,1002,1003,1004,1005,1006,1007",
            "B[0-7]=(INT)20,21,22,23,24,25,26,27",
            "C[0-3]=(REAL)1.5,2.5,3.5,4.5",
            "D[0-7]=(SINT)40,41,42,43,44,45,46,47",
            "E=(DINT)77777"]
    CONTENT = {"A": [1000 + i for i in range(8)], "B": [20 + i for i in range(8)],
               "C": [1.5, 2.5, 3.5, 4.5], "D": [40 + i for i in range(8)], "E": [77777]}

    def __init__(self):
        from cpppo.dotdict import dotdict, apidict
        from cpppo.server.enip.main import main as enip_main
        from cpppo.server.enip import client
        self.control = apidict(timeout=1.0)
        self.control["done"] = False
        self.thread = threading.Thread(
            target=enip_main, daemon=True,
            kwargs=dict(argv=["--address", "127.0.0.1:0"] + self.TAGS, server=dotdict(control=self.control),
                        udp=False))
        self.thread.start()
        for _ in range(400):
            if self.control.get("address"):
                break
            time.sleep(0.025)
        self.addr = self.control["address"]
        with client.connector(host=self.addr[0], port=self.addr[1], timeout=5.0) as conn:
            failed, _ = conn.process(client.parse_operations(self.INIT), depth=2, timeout=5.0)
        assert failed == 0, "could not initialise the simulator's tags"

    def stop(self):
        self.control["done"] = True


# ------------------------------------------------------------------------------------------------
class Relay:
    """policy per accepted connection (by index):  None | dict(dir='s2c'|'c2s', k=<offset>, mode='eof'|'quiet')
    | dict(dir='drop', frames=[reply frame indices, 0 = Register reply]) ; optional chop=<n>"""

    def __init__(self, target):
        self.target = target
        self.ls = socket.socket()
        self.ls.bind(("127.0.0.1", 0))
        self.ls.listen(64)
        self.addr = self.ls.getsockname()
        self.policies = []
        self.conns = []          # per connection: dict(s2c=[delivered blocks], c2s=bytearray(all from client), socks)
        self.lock = threading.Lock()
        self.done = False
        self.thread = threading.Thread(target=self.accept_loop, daemon=True)
        self.thread.start()

    def reset(self, policies):
        self.close_all()
        with self.lock:
            self.policies = list(policies)
            self.conns = []

    def close_all(self):
        with self.lock:
            conns = list(self.conns)
        for c in conns:
            for s in c["socks"]:
                try:
                    s.close()
                except OSError:
                    pass

    def stop(self):
        self.done = True
        self.close_all()
        self.ls.close()

    def abort(self, idx):
        """the peer aborts connection `idx`: TCP RST to the client (SO_LINGER 0 + close)"""
        with self.lock:
            rec = self.conns[idx]
        rec["aborted"] = True
        cs = rec["socks"][0]
        try:
            cs.setsockopt(socket.SOL_SOCKET, socket.SO_LINGER, struct.pack("ii", 1, 0))
            cs.shutdown(socket.SHUT_RD)      # wake the pump blocked in recv() (nothing goes on the wire); while a
            for _ in range(200):             # thread sits in recv() the kernel would keep the socket alive past close()
                if rec.get("c2s_done"):
                    break
                time.sleep(0.002)
            cs.close()                       # last reference, linger 0: RST
        except OSError:
            pass

    def max_stall(self):
        """the longest the relay + simulator let a client wait for a block (seconds): a scenario is only valid when
        this stays well below the client's timeout, else 'silence' happened where none was scripted"""
        with self.lock:
            return max([c["stall"] for c in self.conns] or [0.0])

    @property
    def count(self):
        with self.lock:
            return len(self.conns)

    def accept_loop(self):
        while not self.done:
            try:
                cs, _ = self.ls.accept()
            except OSError:
                return
            try:
                ss = socket.create_connection(self.target)
            except OSError:
                cs.close()
                continue
            for s in (cs, ss):
                s.setsockopt(socket.IPPROTO_TCP, socket.TCP_NODELAY, 1)
            with self.lock:
                idx = len(self.conns)
                pol = self.policies[idx] if idx < len(self.policies) else None
                rec = {"s2c": [], "c2s": bytearray(), "server": bytearray(), "socks": (cs, ss), "policy": pol,
                       "last": time.monotonic(), "stall": 0.0}
                self.conns.append(rec)
            pol = pol or {}
            threading.Thread(target=self.pump_s2c, args=(ss, cs, rec, pol), daemon=True).start()
            threading.Thread(target=self.pump_c2s, args=(cs, ss, rec, pol), daemon=True).start()

    @staticmethod
    def _shut(sock):
        try:
            sock.shutdown(socket.SHUT_WR)
        except OSError:
            pass

    def _deliver(self, dst, rec, data, chop):
        step = chop or len(data)
        for o in range(0, len(data), step):
            piece = data[o:o + step]
            now = time.monotonic()               # how long the client had to wait for this block since the last
            rec["stall"] = max(rec["stall"], now - rec["last"])     # activity in either direction
            rec["last"] = now
            rec["s2c"].append(bytes(piece))      # recorded before it can be seen by the client
            try:
                dst.sendall(piece)
            except OSError:
                return

    def pump_s2c(self, src, dst, rec, pol):
        cut = pol.get("k") if pol.get("dir") == "s2c" else None
        drop = set(pol.get("frames", ())) if pol.get("dir") == "drop" else None
        chop = pol.get("chop")
        fwd, stopped, acc, fidx = 0, False, bytearray(), 0
        while True:
            try:
                d = src.recv(4096)
            except OSError:
                d = b""
            if not d:
                if not stopped:
                    self._shut(dst)
                return
            rec["server"] += d
            if stopped:
                continue
            if drop is not None:
                acc += d
                while len(acc) >= 24 and len(acc) >= 24 + (acc[2] | acc[3] << 8):
                    n = 24 + (acc[2] | acc[3] << 8)
                    frame, acc = bytes(acc[:n]), acc[n:]
                    if fidx not in drop:
                        self._deliver(dst, rec, frame, chop)
                    fidx += 1
                continue
            if cut is not None and fwd + len(d) >= cut:
                d = d[:cut - fwd]
                if d:
                    self._deliver(dst, rec, d, chop)
                fwd += len(d)
                stopped = True
                if pol.get("mode") == "eof":
                    self._shut(dst)
                continue
            self._deliver(dst, rec, d, chop)
            fwd += len(d)

    def pump_c2s(self, src, dst, rec, pol):
        cut = pol.get("k") if pol.get("dir") == "c2s" else None
        fwd, stopped = 0, False
        while True:
            try:
                d = src.recv(4096)
            except OSError:
                d = b""
            if not d:
                rec["c2s_done"] = True
                if not stopped:
                    self._shut(dst)
                return
            rec["c2s"] += d
            rec["last"] = time.monotonic()
            if stopped:
                continue
            if cut is not None and fwd + len(d) >= cut:
                d = d[:cut - fwd]
                stopped = True
                try:
                    if d:
                        dst.sendall(d)
                except OSError:
                    pass
                fwd += len(d)
                if pol.get("mode") == "eof":
                    self._shut(dst)
                continue
            try:
                dst.sendall(d)
            except OSError:
                pass
            fwd += len(d)
