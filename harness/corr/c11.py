"""C11: automata.py regex / regex_bytes / string / string_bytes (state.from_regex + dfa run)
vs Cpppo.Regex / Cpppo.Rx (Lean).

Expressions are generated as trees and printed to the concrete syntax the real code parses (greenery);
the tree goes to the Lean side (`rx.lang`, `rx.spec`), the greenery fsm the real code builds its machine
from goes to the Lean model of `state.from_regex` (`rx.run`).  The oracle is a position-set (NFA)
simulation written from the property statement; it shares nothing with the Lean model (which uses
derivatives and the fsm table) and cross-checks its own verdicts with Python's `re`.
"""
import itertools
import json
import os
import zlib
import re as pyre

from framework import Suite

A, B, C = ord("a"), ord("b"), ord("c")
E_ACUTE, E_CIRC, EURO, KIP, ARROW = 0xE9, 0xEA, 0x20AC, 0x20AD, 0x2192


# ------------------------------------------------------------------------------------------------
# expression trees:  ["eps"] ["lit",c] ["dot"] ["cls",[..]] ["ncls",[..]] ["alt",r,s] ["cat",r,s]
#                    ["star",r] ["plus",r] ["opt",r] ["rep",m,n,r]
# ------------------------------------------------------------------------------------------------
def esc(c, special):
    ch = chr(c)
    return "\\" + ch if ch in special else ch


def rx_str(t):
    """concrete syntax (the same string is valid for greenery and for Python's re)"""
    k = t[0]
    if k == "eps":
        return "()"
    if k == "lit":
        return esc(t[1], "\\[]|()*+?{}.^$")
    if k == "dot":
        return "."
    if k == "cls":
        return "[" + "".join(esc(c, "\\[]^-") for c in t[1]) + "]"
    if k == "ncls":
        return "[^" + "".join(esc(c, "\\[]^-") for c in t[1]) + "]"
    if k == "alt":
        return rx_str(t[1]) + "|" + rx_str(t[2])
    if k == "cat":
        return "".join("(" + rx_str(x) + ")" if x[0] == "alt" else rx_str(x) for x in t[1:3])
    sub = t[-1]
    s = rx_str(sub)
    if sub[0] not in ("lit", "dot", "cls", "ncls", "eps"):
        s = "(" + s + ")"
    if k == "star":
        return s + "*"
    if k == "plus":
        return s + "+"
    if k == "opt":
        return s + "?"
    if k == "rep":
        return s + "{%d,%d}" % (t[1], t[2])
    raise ValueError(k)


def rx_tokens(t):
    """prefix tokens for the Lean driver"""
    k = t[0]
    if k in ("eps", "dot"):
        return [k]
    if k == "lit":
        return ["lit:%d" % t[1]]
    if k in ("cls", "ncls"):
        return [k + ":" + ".".join(map(str, t[1]))]
    if k in ("alt", "cat"):
        return [k] + rx_tokens(t[1]) + rx_tokens(t[2])
    if k == "rep":
        return ["rep:%d:%d" % (t[1], t[2])] + rx_tokens(t[3])
    return [k] + rx_tokens(t[1])


def rx_syms(t):
    k = t[0]
    if k == "lit":
        return {t[1]}
    if k in ("cls", "ncls"):
        return set(t[1])
    out = set()
    for x in t[1:]:
        if isinstance(x, list):
            out |= rx_syms(x)
    return out


def rx_size(t):
    return 1 + sum(rx_size(x) for x in t[1:] if isinstance(x, list) and x and isinstance(x[0], str))


def rx_expanded(t):
    """size after unfolding bounded repetitions (what greenery and the derivative matcher really handle)"""
    k = t[0]
    if k == "rep":
        return 1 + max(1, t[2]) * rx_expanded(t[3])
    return 1 + sum(rx_expanded(x) for x in t[1:] if isinstance(x, list) and x and isinstance(x[0], str))


def rx_nullable(t):
    k = t[0]
    if k in ("eps", "star", "opt"):
        return True
    if k in ("lit", "dot", "cls", "ncls"):
        return False
    if k == "alt":
        return rx_nullable(t[1]) or rx_nullable(t[2])
    if k == "cat":
        return rx_nullable(t[1]) and rx_nullable(t[2])
    if k == "plus":
        return rx_nullable(t[1])
    return t[1] == 0 or rx_nullable(t[3])


def has_unbounded(t):
    return t[0] in ("plus", "star") or any(has_unbounded(x) for x in t[1:] if isinstance(x, list) and x and isinstance(x[0], str))


def may_collapse(t):
    """necessary for greenery's unsound multiplier merge: an unbounded repetition below a construct that
    may match the empty string (a cheap over-approximation; the precise test follows)"""
    k = t[0]
    subs = [x for x in t[1:] if isinstance(x, list) and x and isinstance(x[0], str)]
    if (k in ("opt", "star") or (k == "rep" and t[1] == 0) or (k == "alt" and rx_nullable(t))) and has_unbounded(t[-1] if k != "alt" else t):
        return True
    return any(may_collapse(x) for x in subs)


def rx_fanout(t):
    """largest product of repetition factors along a path (bounded repetition: its upper bound; + and *: 2):
    greenery's simplification and fsm construction blow up with nested repetitions"""
    k = t[0]
    f = max(1, t[2]) if k == "rep" else 2 if k in ("plus", "star") else 1
    return f * max([rx_fanout(x) for x in t[1:] if isinstance(x, list) and x and isinstance(x[0], str)] or [1])


def rx_expanded_len(t):
    """length of the shortest sentence"""
    k = t[0]
    if k in ("eps", "star", "opt"):
        return 0
    if k in ("lit", "dot", "cls", "ncls"):
        return 1
    if k == "alt":
        return min(rx_expanded_len(t[1]), rx_expanded_len(t[2]))
    if k == "cat":
        return rx_expanded_len(t[1]) + rx_expanded_len(t[2])
    if k == "plus":
        return rx_expanded_len(t[1])
    return t[1] * rx_expanded_len(t[3])


def utf8(cp):
    return list(chr(cp).encode("utf-8", "surrogatepass"))


# ------------------------------------------------------------------------------------------------
# the oracle's matcher: epsilon-NFA over symbol predicates, simulated by state sets
# ------------------------------------------------------------------------------------------------
class Nfa:
    """Thompson construction.  `viable(S)`: some state of S can still reach the accepting state."""

    def __init__(self, tree):
        self.eps = []       # state -> list of states
        self.edge = []      # state -> list of (predicate, state)
        self.start, self.accept = self.build(tree)
        n = len(self.eps)
        # co-reachability (every predicate used here is satisfiable: the alphabet is unbounded)
        back = [[] for _ in range(n)]
        for s in range(n):
            for d in self.eps[s]:
                back[d].append(s)
            for (p, d) in self.edge[s]:
                if p[0] != "cls" or p[1]:
                    back[d].append(s)
        live, todo = {self.accept}, [self.accept]
        while todo:
            for s in back[todo.pop()]:
                if s not in live:
                    live.add(s)
                    todo.append(s)
        self.live = live
        self.memo = {}
        self.init = self.close({self.start})

    def new(self):
        self.eps.append([])
        self.edge.append([])
        return len(self.eps) - 1

    def build(self, t):
        k = t[0]
        s, f = self.new(), self.new()
        if k == "eps":
            self.eps[s].append(f)
        elif k == "lit":
            self.edge[s].append((("lit", t[1]), f))
        elif k == "dot":
            self.edge[s].append((("dot",), f))
        elif k in ("cls", "ncls"):
            self.edge[s].append(((k, frozenset(t[1])), f))
        elif k == "alt":
            for x in t[1:3]:
                a, b = self.build(x)
                self.eps[s].append(a)
                self.eps[b].append(f)
        elif k == "cat":
            a, b = self.build(t[1])
            c, d = self.build(t[2])
            self.eps[s].append(a)
            self.eps[b].append(c)
            self.eps[d].append(f)
        elif k in ("star", "plus", "opt"):
            a, b = self.build(t[1])
            self.eps[s].append(a)
            self.eps[b].append(f)
            if k in ("star", "opt"):
                self.eps[s].append(f)
            if k in ("star", "plus"):
                self.eps[b].append(a)
        elif k == "rep":
            m, n, sub = t[1], t[2], t[3]
            cur = s
            for i in range(n):
                a, b = self.build(sub)
                self.eps[cur].append(a)
                if i >= m:
                    self.eps[cur].append(f)
                cur = b
            self.eps[cur].append(f)
            if n < m:           # unsatisfiable: disconnect
                self.eps[cur].remove(f)
        else:
            raise ValueError(k)
        return s, f

    def close(self, S):
        S = set(S)
        todo = list(S)
        while todo:
            for d in self.eps[todo.pop()]:
                if d not in S:
                    S.add(d)
                    todo.append(d)
        return frozenset(S)

    @staticmethod
    def holds(p, c):
        if p[0] == "lit":
            return p[1] == c
        if p[0] == "dot":
            return True
        if p[0] == "cls":
            return c in p[1]
        return c not in p[1]

    def step(self, S, c):
        key = (S, c)
        r = self.memo.get(key)
        if r is None:
            r = self.close({d for s in S for (p, d) in self.edge[s] if self.holds(p, c)})
            self.memo[key] = r
        return r

    def viable(self, S):
        return any(s in self.live for s in S)

    def spec(self, w):
        """(number of symbols consumed, accepted): the longest prefix that can still be extended to a
        sentence; accepted iff it is a sentence of length >= 1"""
        S, n = self.init, 0
        for c in w:
            T = self.step(S, c)
            if not self.viable(T):
                break
            S, n = T, n + 1
        return n, (n >= 1 and self.accept in S), (self.accept in S)

    OTHER = -1           # a symbol named nowhere: matched by '.' and by every negated class only

    def spec_bytes(self, w, named):
        """The documented byte-level reading: the byte string is read as a sequence of symbols, the UTF-8
        bytes of a symbol in `named` standing for that symbol and any other single byte for an unnamed
        symbol ('.' / a negated class match ONE byte).  Returns (bytes consumed, accepted)."""
        single = {c for c in named if c < 0x80}
        multi = [(c, utf8(c)) for c in named if c >= 0x80]
        confs = {(self.init, (), None)}
        acc_now, n = False, 0
        for b in w:
            nxt = set()
            for (S, pend, T) in confs:
                if pend:
                    if pend[0] == b:
                        nxt.add((T, (), None) if len(pend) == 1 else (S, pend[1:], T))
                    continue
                nxt.add((self.step(S, b if b in single else self.OTHER), (), None))
                for (c, bs) in multi:
                    if bs[0] == b:
                        nxt.add((S, tuple(bs[1:]), self.step(S, c)))
            nxt = {x for x in nxt if self.viable(x[2] if x[1] else x[0])}
            if not nxt:
                break
            confs, n = nxt, n + 1
            acc_now = any(not p and self.accept in S for (S, p, _) in confs)
        return n, (n >= 1 and acc_now)


# ------------------------------------------------------------------------------------------------
# enumeration of expressions
# ------------------------------------------------------------------------------------------------
def exprs_of_size(leaves, unary, cache, n):
    if n in cache:
        return cache[n]
    out = []
    if n == 1:
        out = list(leaves)
    else:
        for sub in exprs_of_size(leaves, unary, cache, n - 1):
            for u in unary:
                out.append(u[:-1] + [sub])
        for i in range(1, n - 1):
            for l in exprs_of_size(leaves, unary, cache, i):
                for r in exprs_of_size(leaves, unary, cache, n - 1 - i):
                    out.append(["alt", l, r])
                    out.append(["cat", l, r])
    cache[n] = out
    return out


UNARY = [["star", None], ["plus", None], ["opt", None], ["rep", 1, 2, None], ["rep", 2, 2, None],
         ["rep", 0, 2, None], ["rep", 2, 3, None]]
LEAVES_AB = [["lit", A], ["lit", B], ["dot"], ["cls", [A, B]], ["ncls", [A]], ["ncls", [A, B]]]


def strings_upto(alpha, n):
    for k in range(n + 1):
        for w in itertools.product(alpha, repeat=k):
            yield list(w)


KINDS = ["regex", "regex_bytes", "string", "string_bytes"]
CHUNKINGS = ["whole", "each", "split", "whole", "each", "pre"]


def chunk(w, mode, k=0):
    """list of non-empty chunks (mode `empty` inserts one empty chunk at position k)"""
    if mode == "whole" or not w:
        return [w] if w else []
    if mode == "each":
        return [[c] for c in w]
    if mode == "split":
        k = 1 + k % max(1, len(w) - 1) if len(w) > 1 else 1
        return [x for x in (w[:k], w[k:]) if x]
    if mode == "pre":          # the whole input, delivered only when the machine first asks for it
        return [w]
    if mode == "empty":
        k = k % (len(w) + 1)
        return [x for x in (w[:k],) if x] + [[]] + [x for x in (w[k:],) if x]
    raise ValueError(mode)


class C11(Suite):
    id = "C11"
    props_module = "Cpppo.Props.C11"
    extra_modules = ["Cpppo.Proofs.Regex", "Cpppo.Proofs.Rx", "Cpppo.Proofs.Bisim"]
    rule = ("all expression trees up to a size bound over {a,b} (literals, classes, negated classes, '.', '|', "
            "grouping, '*', '+', '?', '{m,n}'; quick: size <= 3, thorough: size <= 4 plus 1000 sampled of size 5) x "
            "all strings over {a,b} up to a length bound (quick 4, thorough 5-6), each also with an unnamed "
            "follower; kind (regex / regex_bytes / string / string_bytes) and chunking (whole, per symbol, "
            "split, delivered on request) rotate over the pairs, greedy / own terminal / decode= over the "
            "expressions; the same for expressions naming one multi-byte symbol (é: 2 bytes, €: 3 bytes) over "
            "texts {a,b,that symbol} (texts using the other multi-byte character lie outside the byte-machine "
            "hypothesis: compared with the model only); expressions naming two multi-byte symbols (refusal); 16 "
            "hand-written shapes; 5 long bounded repetitions (fsm of more than 256 states, dead state last or "
            "second) on inputs around the sentence length; listed probes; seeded random larger expressions with sentences cut / extended "
            "/ spoilt, raw non-UTF-8 bytes for ASCII expressions, empty chunks.  One rx.lang case per expression "
            "validates greenery's fsm against the expression tree (exactly, by a checked bisimulation "
            "certificate, in the exhaustive scopes; on all strings up to a bound for the random ones); rx.spec "
            "cases compare the real machine with the Lean specification run; rx.utf8 the encoder.  non-trivial "
            "= an oracle-checked run that consumes at least one symbol and stops before the end of the input, or "
            "ends non-accepting, or crosses a chunk boundary; distinct by (kind, expression, input, chunking)")
    assumptions = [
        "expressions are in the generated syntax; that the printed string means the tree is cross-checked "
        "(Python re on every oracle verdict, rx.spec against the real machine), not proved",
        "greenery's fsm is validated per tested expression (rx.lang); expressions in the known greenery defect "
        "class (its unsimplified and simplified parse differ in language, e.g. (aa+)? -> a*) are outside the "
        "hypothesis of regex_machine_correct: their runs are compared with the model only, two instances are "
        "listed as known findings",
        "byte machines: the character reading is demanded when every character of the text is named by the "
        "machine's alphabet or is a single byte (Utf8Dom, hypothesis of utf8_simulation_partial); outside it "
        "(listed probes) the outcome must match the character reading or the documented byte reading ('.' / a "
        "negated class = one byte)",
        "an empty chunk delivered in answer to a request for input is a no-progress event and counts as the end "
        "of the input (framework convention)",
        "the model is of the code after fixes/C11-regex-bytes-dead-edge.patch and "
        "fixes/C11-regex-bytes-chain-state-key.patch; C11_VARIANT=0 compares the unrepaired code with Variant.old",
        "the limit= feature is property C10's subject and is not used here",
    ]
    trusted_extra = ["greenery (regex -> fsm): not trusted - its fsm is checked per tested expression against the "
                     "Lean semantics of the expression tree (bisimulation certificate / bounded comparison)",
                     "Mathlib.Computability.RegularExpressions / Language (the reference semantics)"]
    # the model variant compared with the code: "1" = after fixes/C11-*.patch (what the theorems are about);
    # C11_VARIANT=0 compares the unrepaired code with the `Variant.old` model (used to validate the witnesses)
    fixed = os.environ.get("C11_VARIANT", "1")

    def __init__(self):
        self.fsm_cache = {}
        self.skipped_slow = 0
        self.bug_cache = {}
        self.alpha_cache = {}
        self.nfa_cache = {}
        self.machines = {}

    # -------------------------------------------------------------------------------- generators
    def pair_cases(self, tree, w, k, text=None, probe=False):
        """the run case (rotating kind / flags / chunking) for one (expression, input) pair"""
        kind = KINDS[k % 4]
        mode = CHUNKINGS[(k // 4) % 6]
        # the constructor flags rotate over the expressions, not over the inputs: building a machine (greenery's
        # parse + fsm inside from_regex) costs as much as fifty runs
        h = zlib.crc32(rx_str(tree).encode())
        case = {"op": "run", "kind": kind, "rx": tree, "w": w, "chunks": mode, "k": k % 7,
                "term": 0 if h % 7 == 3 else 1, "greedy": (h // 7) % 2}
        if text is not None:
            case["kind"] = "regex_bytes" if k % 2 == 0 else "string_bytes"
            case["text"] = 1
            named = self.named(tree)
            # decode= only where the consumed bytes are whole characters (inside the theorem's hypothesis)
            case["decode"] = 1 if (h // 14) % 2 and case["kind"] == "string_bytes" \
                and all(ch in named or ch < 0x80 for ch in text) else 0
        if probe:
            case["probe"] = 1
        return case

    def greenery_reduce_bug(self, tree):
        """greenery 2.x simplifies the parsed expression (`lego.reduce`) before building the fsm, and that
        simplification is unsound for some shapes: its bound arithmetic has inf * 0 = inf, so
        `multiplier.canmultiplyby` lets `(x{p,}){0,n}` (p >= 2; also `?`, `*`, `|()`) collapse to `x*`
        (`(aa+)?` becomes `a*`).  True iff the fsm of the *unsimplified* parse and the fsm the real code
        uses differ in language (product search) - i.e. exactly when this defect class strikes; any other
        disagreement between greenery and the expression still surfaces as a violation."""
        key = rx_str(tree)
        r = self.bug_cache.get(key)
        if r is None and not may_collapse(tree):
            r = self.bug_cache[key] = False       # cheap necessary condition not met
        if r is None:
            import greenery.lego
            p0, i = greenery.lego.pattern.match(key, 0)
            assert i == len(key)
            m0, m1 = p0.fsm(), greenery.lego.parse(key).fsm()
            syms = sorted((set(m0.alphabet) | set(m1.alphabet)) - {None}) + [None]

            def step(m, q, c):
                tab = m.map[q]
                return tab[c] if c in tab else tab[None]
            seen, todo, r = {(m0.initial, m1.initial)}, [(m0.initial, m1.initial)], False
            while todo and not r:
                q0, q1 = todo.pop()
                if (q0 in m0.finals) != (q1 in m1.finals):
                    r = True
                for c in syms:
                    nx = (step(m0, q0, c), step(m1, q1, c))
                    if nx not in seen:
                        seen.add(nx)
                        todo.append(nx)
            self.bug_cache[key] = r
        return r

    def cases(self, tier, rng):
        """Expressions in the known greenery defect class are outside the hypothesis `hL` of
        regex_machine_correct (the fsm is not the expression's): their runs are compared with the model
        only, their lang/spec cases are dropped (two listed probes keep the finding visible)."""
        for c in self.raw_cases(tier, rng):
            if "rx" in c and not c.get("probe") and self.greenery_reduce_bug(c["rx"]):
                if c["op"] != "run":
                    continue
                c["corr_only"] = 1
                c["gbug"] = 1
            yield c

    def raw_cases(self, tier, rng):
        quick = tier == "quick"
        k = 0
        # ---- 1. exhaustive small scope over {a,b}
        cache = {}
        maxsize, maxlen = (3, 4) if quick else (4, 5)
        trees = []
        for n in range(1, maxsize + 1):
            trees += exprs_of_size(LEAVES_AB, UNARY, cache, n)
        if not quick:
            five = exprs_of_size(LEAVES_AB + [["eps"]], UNARY, {}, 5)
            trees += rng.sample(five, 1000)
        words = list(strings_upto([A, B], maxlen))
        short = list(strings_upto([A, B], 4))
        longer = [w for w in strings_upto([A, B], 6) if len(w) == 6]
        for ti, tree in enumerate(trees):
            # exact: `ok` requires a bisimulation certificate; the sampled size-5 expressions with deeply nested
            # bounded repetitions (fsm of 50+ states, derivatives of thousands of nodes) may exhaust the search
            # budget: there the bounded comparison suffices
            yield {"op": "lang", "rx": tree, "bound": 5 if quick else 6,
                   "exact": 1 if rx_size(tree) <= 4 or (rx_expanded(tree) <= 16 and rx_fanout(tree) <= 4) else 0}
            if quick or rx_size(tree) <= 3:
                ws = words if quick else words + longer   # thorough: all strings up to length 6
            else:
                # larger expressions: all strings up to length 4 and a seeded sample of the longer ones
                ws = short + rng.sample(words[31:] + longer, 14)
            for w in ws:
                for ww in (w, w + [C]):
                    k += 1
                    yield self.pair_cases(tree, ww, k)
                    if k % (3 if quick else 5) == 0:
                        yield {"op": "spec", "rx": tree, "w": ww}
        # ---- 2. one named multi-byte symbol (é: 2 bytes, €: 3 bytes); texts over {a, b, that symbol} lie inside
        #         the hypothesis of the byte-machine clause; texts that also use the *other* multi-byte
        #         character lie outside it: they are compared with the model only (`corr_only`)
        for mb, other in ((E_ACUTE, EURO), (EURO, E_ACUTE)):
            leaves = [["lit", mb], ["dot"], ["ncls", [mb]], ["lit", A]]
            cache = {}
            mtrees = []
            for n in range(1, 4):
                mtrees += exprs_of_size(leaves, UNARY, cache, n)
            if not quick:
                mtrees += rng.sample(exprs_of_size(leaves, UNARY, cache, 4), 400)
            texts = list(strings_upto([A, B, mb], 3 if quick else 4))
            outside = [t for t in strings_upto([A, mb, other], 3 if quick else 4) if other in t]
            for ti, tree in enumerate(mtrees):
                named = rx_syms(tree)
                refusedish = len(named) >= 2
                if ti % 4 == 0 or not refusedish:
                    yield {"op": "lang", "rx": tree, "bound": 4}
                for t in (texts[:14] if refusedish else texts):
                    k += 1
                    w = [b for c in t for b in utf8(c)]
                    c = self.pair_cases(tree, w, k, text=t)
                    c["t"] = t
                    yield c
                if not refusedish:
                    for t in outside:
                        k += 1
                        if k % 3:
                            continue
                        w = [b for c in t for b in utf8(c)]
                        c = self.pair_cases(tree, w, k, text=t)
                        c["t"] = t
                        c["corr_only"] = 1
                        yield c
        # ---- 2a. two named multi-byte symbols: refused by the real code (an assertion); were such a machine
        #          built, the edges of the second symbol would hang off the first symbol's extra states
        cache = {}
        for n in range(1, 4):
            for tree in exprs_of_size([["lit", E_ACUTE], ["lit", EURO], ["dot"]], UNARY[:4], cache, n):
                if rx_syms(tree) != {E_ACUTE, EURO}:
                    continue
                for t in strings_upto([E_ACUTE, EURO, A], 2):
                    k += 1
                    c = self.pair_cases(tree, [b for ch in t for b in utf8(ch)], k, text=t)
                    c["t"] = t
                    yield c
        # ---- 2c. long bounded repetitions: an fsm of more than 256 states (state indices beyond CPython's cache
        #          of small ints, where identity and equality of indices part), with the dead state numbered
        #          last (found only after all live states) or second (found from the initial state); inputs
        #          around the length of the only sentence.  Nested repetitions are what greenery builds fast.
        for tree in self.long_shapes():
            n = rx_expanded_len(tree)
            for length in (n - 1, n, n + 1, n + 2):
                for fill in (ord("x"), A):
                    w = [fill] * length
                    for kind, mode in (("regex", "whole"), ("regex_bytes", "split"), ("string_bytes", "whole")):
                        k += 1
                        c = self.pair_cases(tree, w, k)
                        c.update({"kind": kind, "chunks": mode, "k": 3, "term": 1, "greedy": 1})
                        yield c
                    yield {"op": "spec", "rx": tree, "w": w}
        # ---- 2b. hand-written shapes beyond the size bound (the repo's own test expressions, and states the
        #          small scope cannot produce: a non-initial non-final state whose named symbols all loop while
        #          anything-else leaves; nested groups; digits), each with its sentences cut, extended and spoilt
        for tree in self.shapes():
            yield {"op": "lang", "rx": tree, "bound": 4}
            seen = set()
            for _ in range(30 if quick else 120):
                w = self.random_word(rng, tree)
                for ww in (w, w[:len(w) // 2], w + [ord("z")], w + w[:1]):
                    if tuple(ww) in seen:
                        continue
                    seen.add(tuple(ww))
                    k += 1
                    yield self.pair_cases(tree, ww, k)
                    if k % 3 == 0:
                        yield {"op": "spec", "rx": tree, "w": ww}
        # ---- 3. probes outside the hypothesis (unnamed characters sharing lead bytes with the named one)
        for c in self.probes():
            yield c
        # ---- 4. seeded random: larger expressions, longer inputs, raw bytes, non-sentences, empty chunks
        nrand = 1500 if quick else 12000
        for _ in range(nrand):
            k += 1
            tree = self.random_tree(rng, rng.randint(3, 9), [A, B, C, ord("0"), ord(",")])
            if rng.random() < 0.3:
                # random, larger expressions: a certificate is accepted, the bounded comparison suffices
                yield {"op": "lang", "rx": tree, "bound": 4, "exact": 0}
            for _ in range(4):
                k += 1
                w = self.random_word(rng, tree)
                case = self.pair_cases(tree, w, k)
                r = rng.random()
                if r < 0.1:
                    case["chunks"] = "empty"
                    case["k"] = rng.randint(0, 9)
                elif r < 0.25 and case["kind"].endswith("bytes"):
                    # raw bytes (not UTF-8) for an ASCII expression
                    case["w"] = [rng.choice([0, 0x7F, 0x80, 0xC3, 0xA9, 0xFF, A, B]) for _ in range(rng.randint(0, 6))]
                yield case
                if rng.random() < 0.3 and case["chunks"] != "empty":
                    yield {"op": "spec", "rx": tree, "w": case["w"]}
        for _ in range(200 if quick else 3000):
            t = [rng.choice([0, 0x41, 0x7F, 0x80, 0xE9, 0x7FF, 0x800, 0x20AC, 0xFFFF, 0x10000, 0x10FFFF,
                             rng.randint(0, 0xD7FF), rng.randint(0xE000, 0x10FFFF)]) for _ in range(rng.randint(0, 5))]
            yield {"op": "utf8", "t": t}

    @staticmethod
    def long_shapes():
        def power(leaf, m, n):
            return ["rep", n, n, ["rep", m, m, leaf]]
        return [power(["dot"], 16, 16),                       # .{256}: 258 states, dead state 257
                power(["dot"], 17, 15),                       # .{255}: 257 states, dead state 256
                ["cat", power(["dot"], 16, 16), ["dot"]],     # .{257}
                power(["ncls", [A]], 16, 16),                 # [^a]{256}: dead state 1, live states up to 257
                ["cat", power(["dot"], 16, 16), ["opt", ["lit", A]]]]   # .{256}a?

    @staticmethod
    def shapes():
        L = lambda ch: ["lit", ord(ch)]
        cat = lambda *xs: xs[0] if len(xs) == 1 else ["cat", xs[0], cat(*xs[1:])]
        alt = lambda *xs: xs[0] if len(xs) == 1 else ["alt", xs[0], alt(*xs[1:])]
        digits = ["cls", [ord(c) for c in "0123456789"]]
        abp = cat(L("a"), ["plus", L("b")])
        return [
            cat(["star", L("a")], L("b"), ["star", ["dot"]], L("x")),                    # a*b.*x      (test_regex)
            ["star", ["ncls", [ord("x"), ord("y"), ord("z")]]],                          # [^xyz]*
            cat(abp, ["star", cat(L(","), ["star", L(" ")], abp)]),                      # (ab+)((,[ ]*)(ab+))*
            cat(L("a"), ["star", cat(L("b"), L("b"))]),                                  # a(bb)*      (test_limit)
            ["plus", digits],                                                            # \d+        (integer)
            cat(["star", ["dot"]], L("\n")),                                            # .*\n       (string_base default)
            cat(["plus", L("a")], ["ncls", [A]]),                                        # a+[^a]
            cat(["dot"], ["star", L("a")], ["ncls", [A]]),                               # .a*[^a]
            cat(["ncls", [A]], ["star", L("a")], ["ncls", [A]], ["opt", L("a")]),        # [^a]a*[^a]a?
            cat(["plus", ["cls", [A, B]]], ["ncls", [A, B]], ["plus", L("a")]),          # [ab]+[^ab]a+
            ["star", alt(cat(L("a"), L("b")), cat(L("b"), ["opt", L("a")]), L("c"))],    # (ab|ba?|c)*
            cat(["rep", 2, 3, alt(L("a"), cat(L("b"), L("c")))], ["dot"]),               # (a|bc){2,3}.
            cat(["opt", L("-")], ["plus", digits], ["opt", cat(L("."), ["plus", digits])]),   # -?\d+(.\d+)?
            cat(["star", ["ncls", [ord('"')]]], L('"')),                                 # [^"]*"
            ["star", cat(["ncls", [A]], ["ncls", [B]])],                                 # ([^a][^b])*
            alt(cat(L("a"), L("b"), L("c")), cat(L("a"), L("b")), L("a")),               # abc|ab|a
        ]

    def probes(self):
        out = []
        k = 0
        for (tree, text) in [
            (["cat", ["lit", E_ACUTE], ["dot"]], [E_ACUTE, E_CIRC]),          # the confirmed finding
            (["cat", ["lit", E_ACUTE], ["dot"]], [E_ACUTE, EURO]),
            (["cat", ["lit", E_ACUTE], ["dot"]], [E_ACUTE, E_ACUTE]),
            (["cat", ["dot"], ["lit", E_ACUTE]], [E_CIRC, E_ACUTE]),
            (["star", ["lit", E_ACUTE]], [E_ACUTE, E_CIRC]),
            (["plus", ["lit", E_ACUTE]], [E_ACUTE, E_CIRC, A]),
            (["ncls", [E_ACUTE]], [E_CIRC]),
            (["ncls", [E_ACUTE]], [EURO]),
            (["star", ["ncls", [E_ACUTE]]], [A, E_CIRC, A]),
            (["cat", ["lit", EURO], ["dot"]], [EURO, KIP]),
            (["cat", ["lit", EURO], ["dot"]], [EURO, ARROW]),
            (["cat", ["lit", EURO], ["dot"]], [EURO, E_ACUTE]),
            (["star", ["alt", ["lit", EURO], ["dot"]]], [A, KIP, EURO]),
            (["dot"], [E_ACUTE]),
            (["cat", ["ncls", [A]], ["lit", B]], [E_ACUTE, B]),
        ]:
            for kind in ("regex_bytes", "string_bytes"):
                k += 1
                w = [b for c in text for b in utf8(c)]
                out.append({"op": "run", "kind": kind, "rx": tree, "w": w, "chunks": "whole", "k": 0,
                            "term": 1, "greedy": 1, "text": 1, "t": text, "decode": 0, "probe": 1})
        # the greenery defect: `(aa+)?` and `((a+){2,2})*` are turned into `a*`
        for tree in (["opt", ["cat", ["lit", A], ["plus", ["lit", A]]]],
                     ["star", ["rep", 2, 2, ["plus", ["lit", A]]]]):
            out.append({"op": "lang", "rx": tree, "bound": 4, "probe": 1})
            for kind in ("regex", "regex_bytes"):
                out.append({"op": "run", "kind": kind, "rx": tree, "w": [A], "chunks": "whole", "k": 0,
                            "term": 1, "greedy": 1, "probe": 1})
                out.append({"op": "run", "kind": kind, "rx": tree, "w": [A, A, B], "chunks": "whole", "k": 0,
                            "term": 1, "greedy": 1, "probe": 1})
        return out

    def random_tree(self, rng, size, alpha):
        while True:
            t = self.random_tree1(rng, size, alpha)
            if rx_expanded(t) <= 20 and rx_fanout(t) <= 8 and self.greenery_in_time(t):
                return t

    def greenery_in_time(self, tree, limit=2.0):
        """safety net for the random expressions: greenery needs exponential time on a few shapes; an
        expression whose fsm is not built within the limit is not used (counted in `self.skipped_slow`)"""
        import signal

        class Slow(Exception):
            pass

        def on_alarm(*_a):
            raise Slow()
        try:
            old = signal.signal(signal.SIGALRM, on_alarm)
        except ValueError:          # not in the main thread: no guard
            return True
        signal.setitimer(signal.ITIMER_REAL, limit)
        try:
            self.fsm_text(tree)
            self.greenery_reduce_bug(tree)
            return True
        except Slow:
            self.skipped_slow += 1
            return False
        finally:
            signal.setitimer(signal.ITIMER_REAL, 0)
            signal.signal(signal.SIGALRM, old)

    def random_tree1(self, rng, size, alpha):
        if size <= 1:
            r = rng.random()
            if r < 0.5:
                return ["lit", rng.choice(alpha)]
            if r < 0.6:
                return ["dot"]
            if r < 0.8:
                return ["cls", sorted(rng.sample(alpha, rng.randint(1, 3)))]
            if r < 0.97:
                return ["ncls", sorted(rng.sample(alpha, rng.randint(1, 3)))]
            return ["eps"]
        r = rng.random()
        if r < 0.35:
            u = rng.choice(UNARY + [["rep", 0, 1, None], ["rep", 3, 3, None], ["rep", 1, 4, None]])
            return u[:-1] + [self.random_tree1(rng, size - 1, alpha)]
        left = rng.randint(1, size - 2) if size > 2 else 1
        return ["alt" if r < 0.55 else "cat", self.random_tree1(rng, left, alpha),
                self.random_tree1(rng, max(1, size - 1 - left), alpha)]

    def random_word(self, rng, tree):
        """mostly a sentence of the expression (random walk through it), then mutated / extended"""
        def gen(t, depth=0):
            k = t[0]
            if k == "eps":
                return []
            if k == "lit":
                return [t[1]]
            if k == "dot":
                return [rng.choice([A, B, C, ord("z")])]
            if k == "cls":
                return [rng.choice(t[1])]
            if k == "ncls":
                return [rng.choice([c for c in [A, B, C, ord("0"), ord(","), ord("z"), ord(" ")] if c not in t[1]] or [ord("~")])]
            if k == "alt":
                return gen(rng.choice(t[1:3]), depth + 1)
            if k == "cat":
                return gen(t[1], depth + 1) + gen(t[2], depth + 1)
            if k == "star":
                return [c for _ in range(rng.choice([0, 1, 2, 3])) for c in gen(t[1], depth + 1)]
            if k == "plus":
                return [c for _ in range(rng.choice([1, 1, 2, 3])) for c in gen(t[1], depth + 1)]
            if k == "opt":
                return gen(t[1], depth + 1) if rng.random() < 0.5 else []
            if k == "rep":
                return [c for _ in range(rng.randint(t[1], t[2])) for c in gen(t[3], depth + 1)]
        w = gen(tree)[:14]
        r = rng.random()
        if r < 0.35:
            w = w + [rng.choice([A, B, C, ord("z")]) for _ in range(rng.randint(1, 3))]
        elif r < 0.5 and w:
            i = rng.randrange(len(w))
            w = w[:i] + [rng.choice([A, B, C, ord("z")])] + w[i + 1:]
        elif r < 0.6 and w:
            w = w[:rng.randrange(len(w))]
        return w

    # -------------------------------------------------------------------------------- model side
    def fsm_text(self, tree):
        s = rx_str(tree)
        r = self.fsm_cache.get(s)
        if r is None:
            import greenery.lego
            m = greenery.lego.parse(s).fsm()          # as state.from_regex obtains it
            states = []
            for q in m.map:                                 # dict order: the order from_regex iterates in
                tab = m.map[q]
                ents = []
                for sym in sorted(tab, key=lambda x: [] if x is None else [x]):
                    ents.append(("*" if sym is None else str(ord(sym))) + ">" + str(tab[sym]))
                states.append(str(q) + ":" + ",".join(ents))
            r = "%d;%s;%s" % (m.initial, ",".join(map(str, sorted(m.finals))) or "-", "|".join(states))
            self.fsm_cache[s] = r
            self.alpha_cache[s] = frozenset(ord(x) for x in m.alphabet if x is not None)
        return r

    @staticmethod
    def chunks_of(c):
        return chunk(c["w"], c["chunks"], c.get("k", 0))

    def model_line(self, c):
        if c["op"] == "run":
            chunks = self.chunks_of(c)
            txt = "/".join(",".join(map(str, ch)) if ch else "e" for ch in chunks) if chunks else "-"
            return "rx.run %d %s %d %s %s" % (1 if c["kind"].endswith("bytes") else 0, self.fixed, c["term"],
                                              self.fsm_text(c["rx"]), txt)
        if c["op"] == "lang":
            # exact=1: the answer is `ok` only with a bisimulation certificate (exact language equality)
            return "rx.lang %s %s %d %d" % (self.fsm_text(c["rx"]), ",".join(rx_tokens(c["rx"])), c["bound"],
                                            c.get("exact", 1))
        if c["op"] == "spec":
            return "rx.spec %s %s" % (",".join(rx_tokens(c["rx"])), ",".join(map(str, c["w"])) or "-")
        if c["op"] == "utf8":
            return "rx.utf8 %s" % (",".join(map(str, c["t"])) or "-")
        raise ValueError(c["op"])

    # -------------------------------------------------------------------------------- real code
    def machine(self, kind, rxs, term, greedy, decode):
        key = (kind, rxs, term, greedy, decode)
        m = self.machines.get(key)
        if m is None:
            import cpppo
            cls = getattr(cpppo, kind)
            kw = dict(initial=rxs, context="x", terminal=bool(term), greedy=bool(greedy))
            if kind.startswith("string"):
                kw["name"] = "x"
                if decode:
                    kw["decode"] = "utf-8"
            try:
                m = cls(**kw)
            except AssertionError:
                m = "refused"
            if len(self.machines) > 20000:
                self.machines.clear()
            self.machines[key] = m
        return m

    def run_real(self, kind, rxs, chunks, term=1, greedy=1, decode=0, preload=True):
        import cpppo
        m = self.machine(kind, rxs, term, greedy, decode)
        if m == "refused":
            return "refused F 0 -"
        isb = kind.endswith("bytes")
        conv = (lambda ch: bytes(ch)) if isb else (lambda ch: "".join(map(chr, ch)))
        pending = [conv(ch) for ch in chunks]
        source = cpppo.chainable()
        if preload and pending:
            source.chain(pending.pop(0))
        data = cpppo.dotdict()
        outcome = "ok"
        extra = ""
        try:
            with m:
                stalls = 0
                for _mch, sta in m.run(source=source, data=data):
                    if sta is None:
                        if pending:
                            source.chain(pending.pop(0))
                        else:
                            stalls += 1
                            if stalls > 4:
                                extra = " spins"
                                break
        except cpppo.NonTerminal:
            outcome = "nonterminal"
        val = data.get("x")
        if kind.startswith("string") and outcome == "ok":
            # string_base.terminate replaces <context> (which held .input) by the collected value
            if isinstance(val, str) and (decode or not isb):
                stored = [b for ch in val for b in utf8(ord(ch))] if isb else [ord(ch) for ch in val]
            elif isinstance(val, (bytes, bytearray)) and isb and not decode:
                stored = list(val)
            else:
                stored, extra = [], extra + " value:%r" % (val,)
        else:
            arr = data.get("x.input") if val is not None else None
            if arr is None:
                stored = []
            elif isb:
                stored = list(arr.tobytes())
            else:
                stored = [ord(ch) for ch in arr.tounicode()]
        t = "T" if m.terminal else "F"
        return "%s %s %d %s%s" % (outcome, t, source.sent, ",".join(map(str, stored)) or "-", extra)

    def impl(self, c):
        if c["op"] == "run":
            chunks = self.chunks_of(c)
            # the first chunk is there when the machine starts, except in mode `pre` (and an empty chunk is
            # only ever delivered in answer to a request for input)
            return self.run_real(c["kind"], rx_str(c["rx"]), chunks, c["term"], c["greedy"],
                                 c.get("decode", 0), preload=c["chunks"] != "pre" and bool(chunks and chunks[0]))
        if c["op"] == "lang":
            # the real code contributes the fsm (model_line): state.from_regex must build from the same one
            import cpppo
            s = rx_str(c["rx"])
            _, _, mach, _ = cpppo.state_input.from_regex(s, alphabet=cpppo.type_str_iter, encoder=None,
                                                         typecode=cpppo.type_str_array_symbol, context=None)
            import greenery.lego
            ref = greenery.lego.parse(s).fsm()
            if mach.map != ref.map or mach.initial != ref.initial or mach.finals != ref.finals:
                return "fsm-differs"
            # the fsm the machine is built from against the expression (the oracle's matcher), on all strings
            # up to the bound over the named symbols plus one unnamed: shortest, then least, difference
            named = sorted({ord(x) for x in mach.alphabet if x is not None} | rx_syms(c["rx"]))
            sig = named + [max(named + [0]) + 1]
            nfa = self.nfa(c["rx"])
            for n in range(c["bound"] + 1):
                for w in itertools.product(sorted(sig), repeat=n):
                    q = mach.initial
                    for sym in w:
                        tab = mach.map[q]
                        ch = chr(sym)
                        q = tab[ch] if ch in tab else tab[None]
                    S = nfa.init
                    for sym in w:
                        S = nfa.step(S, sym)
                    if (q in mach.finals) != (nfa.accept in S):
                        return "diff:" + ",".join(map(str, w))
            return "ok"
        if c["op"] == "spec":
            out = self.run_real("regex", rx_str(c["rx"]), [c["w"]] if c["w"] else [])
            o, _t, n, st = out.split(" ")[:4]
            return "%s %s %s" % (o, n, st)
        if c["op"] == "utf8":
            bs = [b for cp in c["t"] for b in utf8(cp)]
            return ",".join(map(str, bs)) or "-"
        raise ValueError(c["op"])

    # -------------------------------------------------------------------------------- oracle
    def nfa(self, tree):
        key = json.dumps(tree)
        n = self.nfa_cache.get(key)
        if n is None:
            n = Nfa(tree)
            if len(self.nfa_cache) > 20000:
                self.nfa_cache.clear()
            self.nfa_cache[key] = n
        return n

    def named(self, tree):
        """the symbols the machine's alphabet distinguishes (greenery simplifies `é|[^é]` to `.`: there é
        is not named); used only to delimit the hypothesis of the byte-machine clause"""
        self.fsm_text(tree)
        return self.alpha_cache[rx_str(tree)]

    @staticmethod
    def effective_input(c):
        """the symbols the machine is given before the (first) empty chunk"""
        w = []
        for ch in chunk(c["w"], c["chunks"], c.get("k", 0)):
            if not ch:
                break
            w += ch
        return w

    def expected(self, c):
        """list of acceptable (outcome, sent) pairs, by the property statement"""
        tree = c["rx"]
        w = self.effective_input(c)
        if not c["kind"].endswith("bytes"):
            n, acc, sent = self.nfa(tree).spec(w)
            self.cross_check(tree, w[:n], sent)
            return [("ok" if acc else "nonterminal", n)], "chars"
        named = self.named(tree)
        if c.get("text"):
            text = c["t"]
            in_dom = all(ch in named or ch < 0x80 for ch in text) and w == [b for ch in text for b in utf8(ch)]
            n, acc, sent = self.nfa(tree).spec(text)
            self.cross_check(tree, text[:n], sent)
            char_reading = ("ok" if acc else "nonterminal", sum(len(utf8(ch)) for ch in text[:n]))
            if in_dom:
                return [char_reading], "chars"
            n, acc = self.nfa(tree).spec_bytes(w, named)
            return [char_reading, ("ok" if acc else "nonterminal", n)], "either"
        # raw bytes: the byte reading
        n, acc = self.nfa(tree).spec_bytes(w, named)
        return [("ok" if acc else "nonterminal", n)], "bytes"

    def cross_check(self, tree, prefix, sentence):
        """the oracle's own verdict `prefix is a sentence` against Python's re on the printed expression"""
        try:
            m = pyre.fullmatch(rx_str(tree), "".join(map(chr, prefix)), pyre.S) is not None
        except pyre.error:
            return
        if m != sentence:
            raise AssertionError("oracle matcher and Python re disagree on %r / %r" % (rx_str(tree), prefix))

    def oracle(self, c, out):
        if out.startswith("harness-exception"):
            return out
        if c["op"] == "utf8":
            return None if out == (",".join(str(b) for cp in c["t"] for b in chr(cp).encode("utf-8", "surrogatepass")) or "-") \
                else "encoding differs"
        if c["op"] == "lang":
            return None if out == "ok" else "greenery's fsm is not the expression's language: " + out
        if c["op"] == "spec":
            n, acc, _ = self.nfa(c["rx"]).spec(c["w"])
            want = "%s %d %s" % ("ok" if acc else "nonterminal", n, ",".join(map(str, c["w"][:n])) or "-")
            return None if out == want else "specification run is %s" % want
        toks = out.split(" ")
        if len(toks) != 4:
            return "unexpected behaviour: " + out
        if c.get("corr_only"):
            return None          # outside the hypothesis of the byte-machine clause: model comparison only
        outcome, t, sent, stored = toks[0], toks[1], int(toks[2]), toks[3]
        named = self.named(c["rx"])
        if outcome == "refused":
            if c["kind"].endswith("bytes") and len(named) >= 2 and any(s >= 0x80 for s in named):
                return None          # the documented restriction of regex_bytes
            return "a supported expression is refused"
        w = self.effective_input(c)
        st = [] if stored == "-" else list(map(int, stored.split(",")))
        if st != w[:sent]:
            return "stored input %r is not the consumed prefix %r" % (st, w[:sent])
        want, reading = self.expected(c)
        if (outcome, sent) not in want:
            return "expected (%s reading) %s, machine: %s after %d symbols" % (
                reading, " or ".join("%s after %d" % x for x in want), outcome, sent)
        if (t == "T") != (outcome == "ok" and bool(c["term"])):
            return "terminal flag %s with outcome %s (own terminal=%s)" % (t, outcome, c["term"])
        return None

    # -------------------------------------------------------------------------------- bookkeeping
    def nontrivial(self, c, out):
        if c["op"] != "run" or c.get("corr_only"):
            return None
        toks = out.split(" ")
        if len(toks) != 4 or toks[0] == "refused":
            return None
        sent = int(toks[2])
        w = c["w"]
        if sent >= 1 and (sent < len(w) or toks[0] == "nonterminal" or c["chunks"] in ("each", "split", "pre", "empty")):
            return (c["kind"], rx_str(c["rx"]), tuple(w), c["chunks"], c.get("k", 0))
        return None

    def classify(self, c, out):
        if c["op"] != "run":
            return c["op"]
        toks = out.split(" ")
        o = toks[0]
        if o in ("ok", "nonterminal") and len(toks) == 4:
            sent = int(toks[2])
            o += ":none" if sent == 0 else (":all" if sent == len(self.effective_input(c)) else ":part")
        tag = "greenery-defect-class" if c.get("gbug") else "mb-outside-hypothesis" if c.get("corr_only") else "mb-probe" if c.get("probe") else "mb" if c.get("text") else ("raw" if c["kind"].endswith("bytes") and any(b >= 0x80 for b in c["w"]) else "")
        return "%s%s/%s/%s" % (c["kind"], ":" + tag if tag else "", c["chunks"], o)

    def shrink(self, c):
        if c["op"] not in ("run", "spec"):
            return
        w = c["w"]
        if c.get("text"):
            t = c["t"]
            for i in range(len(t)):
                t2 = t[:i] + t[i + 1:]
                yield {**c, "t": t2, "w": [b for ch in t2 for b in utf8(ch)]}
        else:
            for i in range(len(w)):
                yield {**c, "w": w[:i] + w[i + 1:]}
        tree = c["rx"]
        for x in tree[1:]:
            if isinstance(x, list) and x and isinstance(x[0], str):
                yield {**c, "rx": x}
        if c["op"] == "run":
            if c["chunks"] != "whole":
                yield {**c, "chunks": "whole"}
            if c["kind"].startswith("string"):
                yield {**c, "kind": c["kind"].replace("string", "regex"), "decode": 0}
            if not c["term"]:
                yield {**c, "term": 1}
