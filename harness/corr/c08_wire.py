"""
C08 wire helpers: an encoder for every kind of valid EtherNet/IP CIP message the simulator serves, a *strict*
decoder of the tag-service requests written from the protocol layout (independent of cpppo and of the Lean
model: plain struct/slicing), the extraction of the request as parsed by cpppo's own parser from the data
artifact `logix.process` leaves behind, and the structure-aware mutators.

Strict grammar (what the oracle calls a complete, well-formed request):
  frame    = command u16 (0x6f | 0x70), length u16 == len(payload), session u32, status u32 == 0, context[8],
             options u32, payload
  payload  = interface u32, timeout u16, count u16 == 2, item0 = (type 0, length 0),
             item1 = (type 0xb2, length L == all remaining bytes), body[L]
  body     = 0x52 EPATH(-> Connection Manager 6/1) priority u8 ticks u8 length u16 == n, request[n], pad if n odd,
             route path (size u8, pad u8, 2*size bytes of well-formed segments)          "Unconnected Send"
           | request                                                     (first byte not 0x52 / 0xD2)
  request  = service u8, EPATH, service body, nothing after:
             0x4c elements u16 | 0x52 elements u16 offset u32 | 0x4d type u16 elements u16 data+ |
             0x53 type u16 elements u16 offset u32 data+ | 0x0e | 0x10 byte+ | 0x01 |
             0x0a number u16 >= 1, offsets u16 * number (first == 2+2*number, strictly increasing, inside), members
  EPATH    = size u8 (words), exactly 2*size bytes of segments (8/16-bit class/instance/attribute/connection,
             8/16/32-bit element, ANSI symbolic with pad, port segments)
  data     = whole elements of the 13 element types, at least one
"""
import struct

from corr import logix_common as lc

ROUTE_DEFAULT = b"\x01\x00\x01\x00"   # size 1 word, pad, port 1 link 0
CM_PATH = b"\x02\x20\x06\x24\x01"


# ------------------------------------------------------------------------------------------------
# encoding (independent of cpppo)
# ------------------------------------------------------------------------------------------------
def enc_epath(path, wide=False):
    out = b""
    for k, v in path:
        if k == "s":
            s = v.encode("latin-1")
            out += bytes([0x91, len(s)]) + s + (b"\x00" if len(s) % 2 else b"")
        elif k == "o":          # port segment, port 1..14, link v
            out += bytes([1, v & 0xff])
        else:
            base = {"c": 0x20, "i": 0x24, "a": 0x30, "e": 0x28, "x": 0x2c}[k]
            if v <= 0xff and not wide:
                out += bytes([base, v])
            elif v <= 0xffff:
                out += bytes([base + 1, 0]) + struct.pack("<H", v)
            else:
                out += bytes([base + 2, 0]) + struct.pack("<I", v)
    return bytes([len(out) // 2]) + out


def enc_request(r):
    op = r["op"]
    p = enc_epath(r["path"], wide=r.get("wide", False))
    if op == "rt":
        return b"\x4c" + p + struct.pack("<H", r["n"])
    if op == "rf":
        return b"\x52" + p + struct.pack("<HI", r["n"], r["off"])
    if op == "wt":
        return b"\x4d" + p + struct.pack("<HH", r["ty"], r["n"]) + lc.encode_vals(lc.CODE2NAME[r["ty"]], r["vals"])
    if op == "wf":
        return (b"\x53" + p + struct.pack("<HHI", r["ty"], r["n"], r["off"])
                + lc.encode_vals(lc.CODE2NAME[r["ty"]], r["vals"]))
    if op == "gs":
        return b"\x0e" + p
    if op == "ss":
        return b"\x10" + p + bytes(r["data"])
    if op == "ga":
        return b"\x01" + p
    if op == "mu":
        ms = [enc_request(m) for m in r["reqs"]]
        off = 2 + 2 * len(ms)
        offs = []
        for m in ms:
            offs.append(off)
            off += len(m)
        return (b"\x0a" + p + struct.pack("<H", len(ms)) + b"".join(struct.pack("<H", o) for o in offs)
                + b"".join(ms))
    raise ValueError(op)


def enc_unconnected(req, route=ROUTE_DEFAULT, prio=5, ticks=157, cm=CM_PATH):
    return (b"\x52" + cm + bytes([prio, ticks]) + struct.pack("<H", len(req)) + req
            + (b"\x00" if len(req) % 2 else b"") + route)


def enc_cpf(items):
    out = struct.pack("<H", len(items))
    for t, body in items:
        out += struct.pack("<HH", t, len(body)) + body
    return out


def enc_frame(cmd, payload, session=0, status=0, ctx=b"\x00" * 8, options=0, length=None):
    return (struct.pack("<HHII", cmd, len(payload) if length is None else length, session, status)
            + ctx + struct.pack("<I", options) + payload)


def enc_send(body, cmd=0x6f, iface=0, timeout=5, **hdr):
    return enc_frame(cmd, struct.pack("<IH", iface, timeout) + enc_cpf([(0, b""), (0xb2, body)]), **hdr)


def enc_tag_frame(r, wrapped=True, **kw):
    req = enc_request(r)
    hdr = {k: kw[k] for k in ("session", "ctx", "options", "cmd", "iface", "timeout") if k in kw}
    return enc_send(enc_unconnected(req, **{k: kw[k] for k in ("route", "prio", "ticks") if k in kw})
                    if wrapped else req, **hdr)


# ------------------------------------------------------------------------------------------------
# strict decoding
# ------------------------------------------------------------------------------------------------
class Bad(Exception):
    pass


def need(cond):
    if not cond:
        raise Bad()


def dec_segments(b):
    segs = []
    i = 0
    while i < len(b):
        t = b[i]
        if t in (0x20, 0x24, 0x30, 0x28, 0x2c):
            need(i + 2 <= len(b))
            segs.append([{0x20: "c", 0x24: "i", 0x30: "a", 0x28: "e", 0x2c: "x"}[t], b[i + 1]])
            i += 2
        elif t in (0x21, 0x25, 0x31, 0x29, 0x2d):
            need(i + 4 <= len(b))
            segs.append([{0x21: "c", 0x25: "i", 0x31: "a", 0x29: "e", 0x2d: "x"}[t],
                         struct.unpack_from("<H", b, i + 2)[0]])
            i += 4
        elif t == 0x2a:
            need(i + 6 <= len(b))
            segs.append(["e", struct.unpack_from("<I", b, i + 2)[0]])
            i += 6
        elif t == 0x91:
            need(i + 2 <= len(b))
            n = b[i + 1]
            need(n >= 1)
            tot = 2 + n + n % 2
            need(i + tot <= len(b))
            segs.append(["s", bytes(b[i + 2:i + 2 + n]).decode("latin-1")])
            i += tot
        elif 0x01 <= t <= 0x0e:
            need(i + 2 <= len(b))
            segs.append(["o", 0])
            i += 2
        elif t == 0x0f:
            need(i + 4 <= len(b))
            segs.append(["o", 0])
            i += 4
        elif 0x11 <= t <= 0x1f:
            need(i + 2 <= len(b))
            n = b[i + 1]
            ext = 2 if t == 0x1f else 0
            tot = 2 + ext + n + n % 2
            need(n >= 1 and i + tot <= len(b))
            segs.append(["o", 0])
            i += tot
        else:
            raise Bad()
    return segs


def dec_epath(b, i, padded=False):
    """-> (segments, next index)"""
    need(i + 1 <= len(b))
    n = b[i] * 2
    i += 1
    if padded:
        need(i + 1 <= len(b))
        i += 1
    need(i + n <= len(b))
    return dec_segments(b[i:i + n]), i + n


def dec_vals(ty, b):
    name = lc.CODE2NAME.get(ty)
    need(name is not None)
    need(len(b) >= 1)
    vals = []
    if name == "SSTRING":
        i = 0
        while i < len(b):
            n = b[i]
            need(i + 1 + n <= len(b))
            vals.append(bytes(b[i + 1:i + 1 + n]).decode("latin-1"))
            i += 1 + n
    elif name == "STRING":
        i = 0
        while i < len(b):
            need(i + 2 <= len(b))
            n = struct.unpack_from("<H", b, i)[0]
            tot = 2 + n + n % 2
            need(i + tot <= len(b))
            vals.append(bytes(b[i + 2:i + 2 + n]).decode("latin-1"))
            i += tot
    else:
        k = lc.SIZES[name]
        need(len(b) % k == 0)
        for j in range(0, len(b), k):
            c = bytes(b[j:j + k])
            if name == "BOOL":
                vals.append(c != b"\x00")
            elif name == "REAL":
                vals.append({"f32": struct.unpack("<I", struct.pack("<f", struct.unpack("<f", c)[0]))[0]})
            elif name == "LREAL":
                vals.append({"f64": struct.unpack("<Q", c)[0]})
            else:
                vals.append(int.from_bytes(c, "little", signed=name in ("SINT", "INT", "DINT", "LINT")))
    return vals


def dec_request(b, allow_multi=True):
    need(len(b) >= 1)
    svc = b[0]
    path, i = dec_epath(b, 1)
    rest = b[i:]
    if svc == 0x4c:
        need(len(rest) == 2)
        return {"op": "rt", "path": path, "n": struct.unpack("<H", rest)[0]}
    if svc == 0x52:
        need(len(rest) == 6)
        n, off = struct.unpack("<HI", rest)
        return {"op": "rf", "path": path, "n": n, "off": off}
    if svc == 0x4d:
        need(len(rest) >= 4)
        ty, n = struct.unpack_from("<HH", rest)
        return {"op": "wt", "path": path, "ty": ty, "n": n, "vals": dec_vals(ty, rest[4:])}
    if svc == 0x53:
        need(len(rest) >= 8)
        ty, n, off = struct.unpack_from("<HHI", rest)
        return {"op": "wf", "path": path, "ty": ty, "n": n, "off": off, "vals": dec_vals(ty, rest[8:])}
    if svc == 0x0e:
        need(len(rest) == 0)
        return {"op": "gs", "path": path}
    if svc == 0x10:
        need(len(rest) >= 1)
        return {"op": "ss", "path": path, "data": list(rest)}
    if svc == 0x01:
        need(len(rest) == 0)
        return {"op": "ga", "path": path}
    if svc == 0x0a and allow_multi:
        need(len(rest) >= 2)
        num = struct.unpack_from("<H", rest)[0]
        need(num >= 1 and len(rest) >= 2 + 2 * num)
        offs = [struct.unpack_from("<H", rest, 2 + 2 * k)[0] for k in range(num)]
        need(offs[0] == 2 + 2 * num)
        need(all(offs[k] < offs[k + 1] for k in range(num - 1)) and offs[-1] < len(rest))
        ends = offs[1:] + [len(rest)]
        return {"op": "mu", "path": path,
                "reqs": [dec_request(rest[o:e], allow_multi=False) for o, e in zip(offs, ends)]}
    raise Bad()


def lower_latin1(s):
    return s.lower()


def py_resolve(symbols, path, mode):
    """(class, instance, attribute|None) the path designates, or None.  Addressing rules as documented for the
    simulator: a symbolic name (possibly dotted over several segments, case-insensitive) stands for the
    class/instance/attribute of a tag; numeric class/instance/attribute segments may not be given twice;
    trailing segments after a complete address are ignored unless symbolic; element/port/connection segments
    cannot address.  mode: "no" (object only), "req" (attribute required), int (default attribute)."""
    res = {"c": None, "i": None, "a": None}
    tag = ""
    for k, v in path:
        done = (res["c"] is not None and res["i"] is not None
                and (res["a"] is not None or mode == "no" or (isinstance(mode, int) and k != "a")))
        if done:
            if k == "s":
                return None
            break
        if k in ("c", "i", "a"):
            if res[k] is not None:
                return None
            res[k] = v
        elif k == "s":
            tag = (tag + "." if tag else "") + v
            addr = symbols.get(lower_latin1(tag))
            if addr is not None:
                if any(x is not None for x in res.values()):
                    return None
                res = {"c": addr[0], "i": addr[1], "a": addr[2]}
                tag = ""
        else:
            return None
    if tag:
        return None
    if res["a"] is None and isinstance(mode, int):
        res["a"] = mode
    if res["c"] is None or res["i"] is None:
        return None
    if mode == "no":
        return (res["c"], res["i"], None)
    if res["a"] is None:
        return None
    return (res["c"], res["i"], res["a"])


def first_element(path):
    for k, v in path:
        if k == "e":
            return v
    return 0


def split_frame(b):
    """-> (header dict, payload, rest) or None when incomplete"""
    if len(b) < 24:
        return None
    cmd, ln, sess, status = struct.unpack_from("<HHII", b)
    if len(b) < 24 + ln:
        return None
    return ({"cmd": cmd, "len": ln, "session": sess, "status": status, "ctx": bytes(b[12:20]),
             "options": struct.unpack_from("<I", b, 20)[0]}, bytes(b[24:24 + ln]), bytes(b[24 + ln:]))


def strict_decode(frame, symbols=None, objs=None):
    """frame bytes (exactly one frame) -> {"hdr","iface","timeout","req","wrapped"} or None.
    symbols: lower-case tag name -> (c, i, a); objs: set of (class, instance) that hold tags: the Unconnected
    Send must be addressed to the Connection Manager and the request to an object that holds tags."""
    symbols = symbols or {}
    try:
        sp = split_frame(frame)
        need(sp is not None and sp[2] == b"")
        hdr, pl, _ = sp
        need(hdr["cmd"] in (0x6f, 0x70) and hdr["status"] == 0)
        need(len(pl) >= 16)
        iface, timeout, count, t0, l0, t1, l1 = struct.unpack_from("<IHHHHHH", pl)
        need(count == 2 and t0 == 0 and l0 == 0 and t1 == 0xb2 and l1 == len(pl) - 16 and l1 >= 1)
        body = pl[16:]
        wrapped = body[0] == 0x52
        if wrapped:
            path, i = dec_epath(body, 1)
            need(i + 4 <= len(body))
            n = struct.unpack_from("<H", body, i + 2)[0]
            i += 4
            need(n >= 1 and i + n + n % 2 <= len(body))
            req = body[i:i + n]
            i += n + n % 2
            _route, j = dec_epath(body, i, padded=True)
            need(j == len(body))
            cm = path
        else:
            need(body[0] != 0xd2)
            req = body
            cm = None
        if wrapped:
            need(py_resolve(symbols, cm, "no") == (6, 1, None))
        r = dec_request(req)
        if objs is not None:
            need(targets_ok(symbols, objs, r))
        return {"hdr": hdr, "iface": iface, "timeout": timeout, "req": r, "wrapped": wrapped,
                "cm": cm, "raw": bytes(req)}
    except (Bad, struct.error):
        return None


# ------------------------------------------------------------------------------------------------
# request lines for the model (raw data bytes: nothing is re-encoded through cpppo)
# ------------------------------------------------------------------------------------------------
def _norm_path(path):
    return [(["o", ""] if k in ("o", "x") else [k, v]) for k, v in path]


def req_line(r):
    """request line for the model (port/connection segments are written `o`)"""
    r2 = dict(r, path=_norm_path(r["path"]))
    if r["op"] == "mu":
        r2["reqs"] = [dict(m, path=_norm_path(m["path"])) for m in r["reqs"]]
    return lc.req_line(r2)


def targets_ok(symbols, objs, r):
    """every path of the request designates an object that holds tags, or (members only) nothing at all"""
    tgt = py_resolve(symbols, r["path"], "no")
    if tgt is None or (tgt[0], tgt[1]) not in objs:
        return False
    if r["op"] == "mu":
        for m in r["reqs"]:
            t = py_resolve(symbols, m["path"], "no")
            if t is not None and (t[0], t[1]) not in objs:
                return False
    return True


# ------------------------------------------------------------------------------------------------
# the request as parsed by cpppo's own parser, recovered from the data artifact after processing
# ------------------------------------------------------------------------------------------------
def _path_of(d):
    segs = []
    for s in d["path"]["segment"]:
        if "symbolic" in s:
            segs.append(["s", s["symbolic"]])
        elif "class" in s:
            segs.append(["c", s["class"]])
        elif "instance" in s:
            segs.append(["i", s["instance"]])
        elif "attribute" in s:
            segs.append(["a", s["attribute"]])
        elif "element" in s:
            segs.append(["e", s["element"]])
        else:
            segs.append(["o", 0])
    return segs


def _vals_of(ty, data):
    name = lc.CODE2NAME.get(ty)
    if name is None:
        return None
    out = []
    for v in data:
        if name == "REAL":
            out.append({"f32": struct.unpack("<I", struct.pack("<f", v))[0]})
        elif name == "LREAL":
            out.append({"f64": struct.unpack("<Q", struct.pack("<d", v))[0]})
        elif name == "BOOL":
            out.append(bool(v))
        else:
            out.append(v)
    return out


def parsed_request(d, top=True):
    """dotdict of a (processed) CIP request -> request dict, or None when it is not one of the supported
    services in complete form"""
    try:
        if "path" not in d or "segment" not in d["path"]:
            return None
        p = _path_of(d)
        if "multiple" in d and top:
            m = d["multiple"]
            if "request" not in m:
                return None
            reqs = [parsed_request(x, top=False) for x in m["request"]]
            if any(x is None for x in reqs):
                return None
            return {"op": "mu", "path": p, "reqs": reqs}
        for key, op in (("read_tag", "rt"), ("read_frag", "rf"), ("write_tag", "wt"), ("write_frag", "wf")):
            if key in d:
                c = d[key]
                if "elements" not in c:
                    return None
                r = {"op": op, "path": p, "n": c["elements"]}
                if op in ("rf", "wf"):
                    if "offset" not in c:
                        return None
                    r["off"] = c["offset"]
                if op in ("wt", "wf"):
                    if "type" not in c or "data" not in c or not isinstance(c["data"], list) or not c["data"]:
                        return None
                    r["ty"] = c["type"]
                    r["vals"] = _vals_of(c["type"], c["data"])
                    if r["vals"] is None:
                        return None
                return r
        if "get_attribute_single" in d:
            return {"op": "gs", "path": p}
        if "set_attribute_single" in d:
            c = d["set_attribute_single"]
            if c is True or "data" not in c or not c["data"]:
                return None
            return {"op": "ss", "path": p, "data": [int(x) for x in c["data"]]}
        if "get_attributes_all" in d:
            return {"op": "ga", "path": p}
    except Exception:
        return None
    return None


# ------------------------------------------------------------------------------------------------
# completeness of an executed write, judged on the bytes it was executed from
# ------------------------------------------------------------------------------------------------
def _strings_lenient(name, b):
    """string elements until the bytes are used up; the last one may be shorter than its length prefix says (a
    length is an upper bound everywhere in this protocol stack) but its prefix must be complete"""
    vals, i = [], 0
    while i < len(b):
        if name == "SSTRING":
            n, i = b[i], i + 1
            tot = n
        else:
            if i + 2 > len(b):
                return None
            n = struct.unpack_from("<H", b, i)[0]
            i += 2
            tot = n + n % 2
        vals.append(bytes(b[i:i + n]).decode("latin-1"))
        i += tot
    return vals


def write_is_complete(r, raw):
    """r: a write as it was executed (type, count, [offset,] values); raw: the request bytes.  The request must end
    with exactly: type, element count[, offset], and then nothing but the whole data elements that were written --
    no element cut off, no bytes left over.  -> None or what is wrong"""
    if r["op"] == "ss":
        data = bytes(r["data"])
        return None if data and raw.endswith(data) else "the attribute bytes are not the end of the request"
    name = lc.CODE2NAME.get(r["ty"])
    if name is None:
        return "unknown data type"
    hdr = struct.pack("<HH", r["ty"], r["n"]) + (struct.pack("<I", r["off"]) if r["op"] == "wf" else b"")
    norm = lambda vs: [(v if not isinstance(v, dict) else tuple(sorted(v.items()))) for v in vs]
    if name in lc.SIZES:
        dl = lc.SIZES[name] * len(r["vals"])
        if dl == 0 or len(raw) < dl + len(hdr):
            return "no data"
        if raw[len(raw) - dl - len(hdr):len(raw) - dl] != hdr:
            return (f"the request does not end with its {len(r['vals'])} whole {name} elements behind type/count"
                    f"{'/offset' if r['op'] == 'wf' else ''} (bytes left over or an element cut off)")
        try:
            got = dec_vals(r["ty"], raw[len(raw) - dl:])
        except Bad:
            return "data not decodable"
        return None if norm(got) == norm(r["vals"]) else "the values written are not the values in the request"
    i = raw.find(hdr)
    while i >= 0:
        got = _strings_lenient(name, raw[i + len(hdr):])
        if got is not None and got == list(r["vals"]):
            return None
        i = raw.find(hdr, i + 1)
    return f"the request does not end with the {len(r['vals'])} {name} elements that were written"
