"""Generators and the array-model oracle shared by the Logix property suites (C03, C04, C05, C07)."""
import struct

from corr.logix_common import TYPES, CODE2NAME, SIZES, RANGES, FIXED, encode_vals

ALLOWED = {  # request types a tag type accepts (CIP data-type compatibility as the simulator documents it)
    "BOOL": ["BOOL"],
    "SINT": ["BOOL", "SINT", "USINT"], "INT": ["BOOL", "SINT", "USINT", "INT", "UINT"],
    "DINT": ["BOOL", "SINT", "USINT", "INT", "UINT", "DINT", "UDINT"],
    "LINT": ["BOOL", "SINT", "USINT", "INT", "UINT", "DINT", "UDINT", "LINT", "ULINT"],
    "USINT": ["BOOL", "USINT"], "UINT": ["BOOL", "USINT", "UINT"], "UDINT": ["BOOL", "USINT", "UINT", "UDINT"],
    "ULINT": ["BOOL", "USINT", "UINT", "UDINT", "ULINT"],
    "REAL": ["BOOL", "SINT", "USINT", "INT", "UINT", "DINT", "UDINT", "REAL"],
    "LREAL": ["BOOL", "SINT", "USINT", "INT", "UINT", "DINT", "UDINT", "REAL", "LREAL"],
    "SSTRING": ["SSTRING"], "STRING": ["STRING"],
}
ALL_TYPES = list(TYPES)

F32_SAMPLES = [0x00000000, 0x80000000, 0x3f800000, 0xbf800000, 0x40490fdb, 0x7f7fffff, 0x00800000, 0x00000001,
               0x007fffff, 0x7f800000, 0xff800000, 0x4b000001, 0x3eaaaaab]
F64_SAMPLES = [0, 1 << 63, 0x3ff0000000000000, 0xbff0000000000000, 0x400921fb54442d18, 0x7fefffffffffffff,
               0x0010000000000000, 1, 0x7ff0000000000000, 0xfff0000000000000, 0x3fd5555555555555]
NAMES = ["A", "b", "Tag_1", "SCADA", "parts", "x.y", "Cfg.Sub.Val", "T9", "zz", "Mixed_Case"]


def rand_val(rng, tyname):
    if tyname == "BOOL":
        return rng.random() < 0.5
    if tyname == "REAL":
        return {"f32": rng.choice(F32_SAMPLES) if rng.random() < 0.6 else
                struct.unpack("<I", struct.pack("<f", rng.uniform(-1e6, 1e6)))[0]}
    if tyname == "LREAL":
        return {"f64": rng.choice(F64_SAMPLES) if rng.random() < 0.6 else
                struct.unpack("<Q", struct.pack("<d", rng.uniform(-1e12, 1e12)))[0]}
    if tyname in ("SSTRING", "STRING"):
        n = rng.choice([0, 1, 2, 3, 5, 8, 13])
        return "".join(rng.choice("abcXYZ09 _:,\xe9\xff") for _ in range(n))
    lo, hi = RANGES[tyname]
    r = rng.random()
    if r < 0.5:
        return rng.choice([lo, hi, 0, 1, hi - 1, lo + 1, hi // 2, (hi + 1) // 2])
    if r < 0.7:
        return rng.randint(-100, 100) if lo < 0 else rng.randint(0, 200)
    return rng.randint(lo, hi)


def rand_tags(rng, max_tags=5, max_len=40, types=None, big=False):
    types = types or ALL_TYPES
    n = rng.randint(1, max_tags)
    names = rng.sample(NAMES, n)
    tags, used = [], {}
    for nm in names:
        ty = rng.choice(types)
        ln = rng.choice([1, 1, 2, 3, 5, 8, 13, max_len]) if not (big and rng.random() < 0.1) else 1000
        addr = None
        if rng.random() < 0.4:
            # explicit addresses live in other classes: in the Message Router itself the ids are auto-allocated
            # (max id + 1), so an explicit id there could collide with a later automatic one
            addr = [rng.choice([0x93, 300, 0x401, 2]), rng.choice([1, 1, 2, 3]), rng.randint(1, 6)]
            if addr[0] == 2:          # further instances of the Message Router's own class (instance 1 allocates automatically)
                addr[1] = rng.choice([2, 3])
            key = tuple(addr)
            if key in used:   # an alias: same Attribute, must have same type/len
                ty, ln = used[key]
            used[key] = (ty, ln)
        tags.append({"name": nm, "type": ty, "len": ln, "addr": addr})
    return tags


def tag_path(rng, tag, addrs=None, elem=None, numeric=None):
    """symbolic (random case) or numeric path for a tag, with optional element"""
    use_num = numeric if numeric is not None else (tag.get("addr") and rng.random() < 0.5)
    if use_num and tag.get("addr"):
        c, i, a = tag["addr"]
        path = [["c", c], ["i", i], ["a", a]]
    else:
        nm = tag["name"]
        if rng.random() < 0.3:
            nm = "".join(ch.upper() if rng.random() < 0.5 else ch.lower() for ch in nm)
        path = [["s", part] for part in nm.split(".")] if rng.random() < 0.7 else [["s", nm]]
    if elem is not None:
        path.append(["e", elem])
    return path


def alias_violation(case, addrs):
    """The configured tags are separate arrays: two names designate one Attribute only if both were configured at the
    same explicit address, and an explicitly addressed tag lives where it was put."""
    seen = {}
    for t in case["tags"]:
        a = tuple(addrs[t["name"]])
        if t.get("addr") is not None and tuple(t["addr"]) != a:
            return f"tag {t['name']} configured at {tuple(t['addr'])} lives at {a}"
        o = seen.get(a)
        if o is not None and (t.get("addr") is None or o.get("addr") is None):
            return f"tags {o['name']} and {t['name']} share one Attribute {a}: a write to one changes the other"
        seen.setdefault(a, t)
    return None


def many_tags(rng, n=None, types=("DINT", "INT", "SINT", "REAL")):
    """more tags than one decimal digit counts: auto-allocated Attribute ids pass 9 -> 10 -> 11"""
    n = n or rng.randint(11, 16)
    return [{"name": f"Tg{k}", "type": rng.choice(types), "len": rng.choice([1, 2, 3]), "addr": None} for k in range(n)]


CLASS_ATTRS = (1, 4)


class ArraySpec:
    """The property's own model: a set of fixed-length typed arrays.  Elements are kept as the bytes the
    tag's type encodes them to (what any read can show)."""

    def __init__(self, case, addrs, class_level=False):
        self.arr = {}
        self.ty = {}
        for t in case["tags"]:
            a = tuple(addrs[t["name"]])
            if a not in self.arr:
                self.arr[a] = [self.enc(t["type"], self.zero(t["type"]), t["type"])] * t["len"]
                self.ty[a] = t["type"]
        self.sym = {t["name"].lower(): tuple(addrs[t["name"]]) for t in case["tags"]}
        # the static class-level attributes (instance 0) of every class in use
        for c in ([2] + [tuple(addrs[t["name"]])[0] for t in case["tags"]]) if class_level else []:
            for a in CLASS_ATTRS:
                if (c, 0, a) not in self.arr:
                    self.arr[(c, 0, a)] = [b"\x00\x00"]
                    self.ty[(c, 0, a)] = "INT"

    @staticmethod
    def zero(tyname):
        return "" if "STRING" in tyname else ({"f32": 0} if tyname == "REAL" else ({"f64": 0} if tyname == "LREAL"
                                                                                  else (False if tyname == "BOOL" else 0)))

    @staticmethod
    def enc(tagty, v, reqty):
        """bytes of request value `v` (of request type reqty) as represented in a tag of type tagty;
        None = not representable"""
        if tagty in ("SSTRING", "STRING"):
            return encode_vals(tagty, [v]) if isinstance(v, str) else None
        if isinstance(v, dict):
            f = struct.unpack("<f", struct.pack("<I", v["f32"]))[0] if "f32" in v else \
                struct.unpack("<d", struct.pack("<Q", v["f64"]))[0]
            if tagty == "REAL":
                return struct.pack("<f", f)
            if tagty == "LREAL":
                return struct.pack("<d", f)
            return None
        if isinstance(v, str):
            return None
        if tagty == "BOOL":
            return b"\xff" if v else b"\x00"
        if tagty == "REAL":
            return struct.pack("<f", int(v))
        if tagty == "LREAL":
            return struct.pack("<d", int(v))
        lo, hi = RANGES[tagty]
        v = int(v)
        if not lo <= v <= hi:
            return None
        return (v % (1 << (8 * SIZES[tagty]))).to_bytes(SIZES[tagty], "little")

    def resolve(self, path):
        """address the path designates (tag name lookup is case-insensitive; numeric c/i/a), + element"""
        elem = 0
        names, nums = [], {}
        for k, v in path:
            if k == "s":
                names.append(v)
            elif k == "e":
                elem = v
                break
            else:
                nums[k] = v
        if names:
            return self.sym.get(".".join(names).lower()), elem
        if "c" in nums and "i" in nums:
            return (nums["c"], nums["i"], nums.get("a", 1)), elem
        return None, elem

    def dump_bytes(self, addr):
        return b"".join(self.arr[addr])


# --------------------------------------------------------------------------------------------------
# reply decoding (independent of cpppo) and the oracle
# --------------------------------------------------------------------------------------------------
def parse_reply(b):
    """-> dict(svc, status, ext, body) from reply bytes"""
    if len(b) < 4:
        return None
    svc, _rsv, status, extn = b[0], b[1], b[2], b[3]
    ext = [int.from_bytes(b[4 + 2 * k: 6 + 2 * k], "little") for k in range(extn)]
    return {"svc": svc, "status": status, "ext": ext, "body": b[4 + 2 * extn:]}


def split_multiple(body):
    n = int.from_bytes(body[0:2], "little")
    offs = [int.from_bytes(body[2 + 2 * k: 4 + 2 * k], "little") for k in range(n)]
    return [body[o: (offs[k + 1] if k + 1 < n else len(body))] for k, o in enumerate(offs)], offs


def parse_dump(s):
    out = {}
    if s in ("-", ""):
        return out
    for item in s.split(","):
        k, v = item.split("=")
        out[tuple(int(x) for x in k.split("."))] = None if v == "X" else (b"" if v == "-" else bytes.fromhex(v))
    return out


def split_elems(tyname, data):
    """split reply data bytes into element encodings"""
    out = []
    if tyname == "SSTRING":
        while data:
            n = data[0]
            out.append(data[:1 + n])
            data = data[1 + n:]
    elif tyname == "STRING":
        while data:
            n = int.from_bytes(data[:2], "little")
            tot = 2 + n + n % 2
            out.append(data[:tot])
            data = data[tot:]
    else:
        k = SIZES[tyname]
        if len(data) % k:
            return None
        out = [data[i:i + k] for i in range(0, len(data), k)]
    return out


class Verdict:
    """classification of a request against the spec arrays (what the properties say should happen)"""
    OK, RANGE, TYPE, UNKNOWN, UNKNOWN_ATTR, MALFORMED = "ok", "range", "type", "unknown", "unknown_attr", "malformed"


def classify_req(spec, r):
    """-> (verdict set, addr, start element, tag type) for a tag service request"""
    addr, elem = spec.resolve(r["path"])
    if addr is None or addr not in spec.arr:
        if addr is not None and any((a[0], a[1]) == (addr[0], addr[1]) for a in spec.arr):
            return {Verdict.UNKNOWN_ATTR}, addr, 0, None
        return {Verdict.UNKNOWN}, addr, 0, None
    ty = spec.ty[addr]
    ln = len(spec.arr[addr])
    siz = SIZES.get(ty, 80)
    v = set()
    off = r.get("off", 0) if r["op"] in ("rf", "wf") else 0
    start = elem + off // siz
    n = r.get("n", 0)
    if r["op"] in ("rt", "rf"):
        if elem >= ln or n > ln or elem + n > ln or n == 0 or off % siz or start >= elem + n:
            v.add(Verdict.RANGE)
    else:
        reqty = CODE2NAME.get(r["ty"])
        nd = len(r["vals"])
        if reqty not in ALLOWED[ty] or any(spec.enc(ty, x, reqty) is None for x in r["vals"]):
            v.add(Verdict.TYPE)
        # (a byte offset inside an element is not checked by the write path: it writes at off // size)
        if (elem >= ln or n > ln or elem + n > ln or n == 0 or nd == 0
                or start + nd > elem + n or start >= ln):
            v.add(Verdict.RANGE)
    if not v:
        v.add(Verdict.OK)
    return v, addr, start, ty


def oracle_history(case, out, check_errors=False, check_bundle=False):
    """Array-model oracle over a whole history.  `out` = the implementation's output line.
    C03: reads return the most recently written values (in the tag's type), writes change only the
         addressed elements, replies carry the tag's own type, valid requests succeed.
    C05 (check_errors): invalid requests get the documented failure status; a refused request changes nothing
         (the dump check does that for every request); no reply may be unproducible."""
    if out.startswith("harness-exception"):
        return out
    why = alias_violation(case, case["addrs"])
    if why:
        return why
    if not case["reqs"]:
        return None
    # (runs that dump the static class-level attributes also address them)
    spec = ArraySpec(case, case["addrs"], class_level=("2.0.1=" in out))
    steps = out.split(";")
    if len(steps) != len(case["reqs"]):
        return f"{len(steps)} answers for {len(case['reqs'])} requests"
    for k, (r, step) in enumerate(zip(case["reqs"], steps)):
        rep_hex, dump = step.split("@")
        if rep_hex == "X":
            return f"request #{k} ({r['op']}) raised instead of replying: the session would end"
        rep = parse_reply(b"" if rep_hex == "-" else bytes.fromhex(rep_hex))
        if rep is None:
            return f"request #{k}: short reply"
        members = [(r, rep)]
        if r["op"] == "mu":
            if rep["status"] != 0:
                return f"request #{k}: bundle status {rep['status']:#x}"
            parts, offs = split_multiple(rep["body"])
            if len(parts) != len(r["reqs"]):
                return f"request #{k}: bundle carries {len(parts)} replies for {len(r['reqs'])} requests"
            exp = 2 + 2 * len(parts)
            for o, p_ in zip(offs, parts):
                if o != exp:
                    return f"request #{k}: bundle offset {o} != {exp}"
                exp += len(p_)
            members = [(m, parse_reply(p_)) for m, p_ in zip(r["reqs"], parts)]
        for m, mrep in members:
            why = oracle_step(spec, m, mrep, check_errors)
            if why:
                return f"request #{k} ({m['op']}): {why}"
        # after the request every array must equal the spec (writes touch only what they address)
        d = parse_dump(dump)
        for addr, arr in spec.arr.items():
            got = d.get(addr)
            if got is None:
                return f"request #{k}: tag at {addr} is unreadable afterwards"
            if got != b"".join(arr):
                return f"request #{k} ({r['op']}): tag at {addr} holds {got.hex()} but the array model says {b''.join(arr).hex()}"
    return None


def oracle_step(spec, r, rep, check_errors):
    if rep is None:
        return "short reply"
    op = r["op"]
    st = rep["status"]
    if op in ("rt", "rf", "wt", "wf"):
        verdict, addr, start, ty = classify_req(spec, r)
        if Verdict.OK in verdict:
            if op in ("rt", "rf"):
                if st not in (0, 6):
                    return f"valid read refused with status {st:#x} {rep['ext']}"
                tcode = int.from_bytes(rep["body"][:2], "little")
                if tcode != TYPES[ty]:
                    return f"reply type {tcode:#x} is not the tag's type {TYPES[ty]:#x}"
                elems = split_elems(ty, rep["body"][2:])
                if not elems:
                    return "successful read carries no whole element"
                exp = spec.arr[addr][start:start + len(elems)]
                if elems != exp:
                    return f"read returned {[e.hex() for e in elems][:4]}… but last written values are {[e.hex() for e in exp][:4]}…"
                _a, elem = spec.resolve(r["path"])
                endactual = elem + r["n"]
                if st == 0 and start + len(elems) != endactual:
                    return f"status 0 but elements end at {start + len(elems)} != {endactual}"
                if st == 6 and start + len(elems) >= endactual:
                    return "status 6 (more) on the final fragment"
            else:
                if st != 0:
                    return f"valid write refused with status {st:#x} {rep['ext']}"
                reqty = CODE2NAME[r["ty"]]
                for j, x in enumerate(r["vals"]):
                    spec.arr[addr][start + j] = spec.enc(ty, x, reqty)
        else:
            if st in (0, 6):
                return f"invalid request ({'+'.join(sorted(verdict))}) acknowledged with status {st:#x}"
            if check_errors:
                if verdict & {Verdict.UNKNOWN, Verdict.UNKNOWN_ATTR}:
                    if st != 5:
                        return f"unknown tag/attribute answered with status {st:#x}, expected 0x05"
                else:
                    okext = set()
                    if Verdict.RANGE in verdict:
                        okext.add(0x2105)
                    if Verdict.TYPE in verdict:
                        okext.add(0x2107)
                    if st != 0xFF or len(rep["ext"]) != 1 or rep["ext"][0] not in okext:
                        return f"{'+'.join(sorted(verdict))} error answered with {st:#x} {[hex(e) for e in rep['ext']]}"
        return None
    # attribute services on numeric paths
    addr, _ = spec.resolve(r["path"])
    exists = addr in spec.arr and r["path"] and r["path"][-1][0] == "a"
    if op == "gs":
        if exists:
            if st != 0:
                return f"Get Attribute Single of an existing attribute refused ({st:#x})"
            if rep["body"] != spec.dump_bytes(addr):
                return f"Get Attribute Single returned {rep['body'].hex()} but the array holds {spec.dump_bytes(addr).hex()}"
        elif st == 0:
            return "Get Attribute Single of an unknown object/attribute succeeded"
    elif op == "ss":
        ty = spec.ty.get(addr)
        valid = exists and ty in SIZES and len(r["data"]) == SIZES[ty] * len(spec.arr[addr])
        if valid:
            if st != 0:
                return f"valid Set Attribute Single refused ({st:#x})"
            k = SIZES[ty]
            data = bytes(r["data"])
            elems = [data[i:i + k] for i in range(0, len(data), k)]
            if ty == "BOOL":
                elems = [b"\xff" if e != b"\x00" else b"\x00" for e in elems]
            if ty == "REAL":      # through a Python float, as any parser does (quietens signalling NaNs)
                elems = [struct.pack("<f", struct.unpack("<f", e)[0]) for e in elems]
            spec.arr[addr] = elems
        elif st == 0:
            return "invalid Set Attribute Single acknowledged"
    elif op == "ga":
        pass
    return None
