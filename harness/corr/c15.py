"""C15: route-path filtering (ucmm.UCMM.request), main()'s personality configuration, the client's
Unconnected Send decision and device.parse_route_path / port_link   vs   Cpppo.Route (Lean)."""
import itertools
import json
import logging
import re

from framework import Suite

ADDR = ("127.0.0.1", 1)
TAGS0 = [[1, 2, 3, 4], [10, 20]]
OTHER_KINDS = ["class", "instance", "attribute", "element", "connection"]


def hx(text):
    """hex of the code points of a text (all < 256); '-' for the empty text"""
    return "".join("%02x" % ord(ch) for ch in text) if text else "-"


def fmt_int(n):
    return str(int(n))


def fmt_segs(segs):
    """segments as [[port, link]] (link int or str) or ['o', kind, val]"""
    out = []
    for s in segs:
        if s[0] == "o":
            out.append("o%d.%d" % (s[1], s[2]))
        else:
            p, l = s
            out.append("%d:%s" % (p, ("a" + hx(l)) if isinstance(l, str) else "n%d" % l))
    return ",".join(out) if out else "-"


def fmt_nats(l):
    return ",".join(str(int(v)) for v in l) if len(l) else "-"


def seg_dicts(segs):
    return [{"port": p, "link": l} for p, l in segs]


# ------------------------------------------------------------------------------------------------
# the live library, imported lazily (CPPPO_SRC may redirect it)
# ------------------------------------------------------------------------------------------------
class Live:
    ready = False

    @classmethod
    def load(cls):
        if cls.ready:
            return cls
        import cpppo
        from cpppo.dotdict import dotdict
        from cpppo.server.enip import client, device, logix, parser, ucmm
        from cpppo.server.enip import main as enipmain
        logging.disable(logging.CRITICAL)
        cls.cpppo, cls.dotdict = cpppo, dotdict
        cls.client, cls.device, cls.logix, cls.parser, cls.ucmm, cls.enipmain = \
            client, device, logix, parser, ucmm, enipmain

        class Cap(client.client):
            """a client that keeps the encoded frame instead of writing it to a socket"""
            def __init__(self):
                self.session = 0x1234
                self.profiler = None
                self.dialect = logix.Logix
                self.sent = []

            def send(self, request, timeout=None):
                self.sent.append(bytes(request))

        class Rec(list):
            """tag storage that records every element access"""
            log = []
            idx = 0

            def __getitem__(self, k):
                Rec.log.append((self.idx, "g", k, len(self)))
                return list.__getitem__(self, k)

            def __setitem__(self, k, v):
                Rec.log.append((self.idx, "s", k, len(self)))
                return list.__setitem__(self, k, v)

        cls.Cap, cls.Rec = Cap, Rec
        cls.ready = True
        return cls


class BuildReject(Exception):
    pass


class CfgReject(Exception):
    pass


def make_tags(L, tags0):
    tags = L.dotdict()
    for i, (name, vals) in enumerate(zip("AB", tags0)):
        store = L.Rec(vals)
        store.idx = i
        t = L.dotdict()
        t.attribute = L.device.Attribute(name, L.parser.INT, default=store)
        t.error = 0
        dict.__setitem__(tags, name, t)
    L.Rec.log = []
    return tags


def configure(L, cfg):
    """the UCMM class for a personality, obtained the way the case says; None = library default"""
    kind = cfg["kind"]
    if kind == "any":
        return None
    if kind == "falsy":
        class UCMM(L.ucmm.UCMM):
            route_path = {"False": False, "0": 0}[cfg["value"]]
        return UCMM
    if kind == "list":
        class UCMM(L.ucmm.UCMM):
            route_path = json.loads(cfg["json"])
        return UCMM
    if kind == "main":
        return main_config(L, cfg["text"], cfg["simple"])
    if kind == "file":
        # a plain UCMM configured from the configuration files' `[UCMM] Route Path`; optionally after another
        # simulator instance of the same process was configured differently (and torn down)
        if "prior" in cfg:
            set_file_config(L, cfg["prior"])
            L.logix.setup(UCMM_class=L.ucmm.UCMM)
            L.device.lookup_reset()
            L.logix.setup_reset()
        set_file_config(L, cfg["text"])
        return L.ucmm.UCMM
    raise ValueError(kind)


def set_file_config(L, text):
    """what a configuration file with a `[UCMM]` section holding `Route Path = <text>` loads (None: no entry)"""
    ld = L.device.Object.config_loader
    if ld.has_section("UCMM"):
        ld.remove_section("UCMM")
    if text is not None:
        ld.add_section("UCMM")
        ld.set("UCMM", "Route Path", text)


def main_config(L, text, simple):
    """run the real main() up to the point where it would start serving; return its UCMM_class"""
    m = L.enipmain
    cap = {}

    def fake_server_main(**kw):
        cap.update(kw["kwargs"])
        kw["kwargs"]["server"]["control"]["done"] = True

    saved = m.network.server_main
    m.network.server_main = fake_server_main
    m.options.clear()
    m.tags.clear()
    argv = []
    if text is not None:
        argv.append("--route-path=" + text)
    if simple:
        argv.append("-S")
    argv.append("A=INT[4]")
    try:
        try:
            m.main(argv=argv)
        except Exception as exc:
            raise CfgReject(type(exc).__name__)
        except SystemExit as exc:      # argparse
            raise CfgReject("SystemExit")
    finally:
        m.network.server_main = saved
        m.options.clear()
        m.tags.clear()
        logging.disable(logging.CRITICAL)
    return cap.get("UCMM_class")


def op_request(L, c, op, frag):
    INT = L.parser.INT.tag_type
    k = op[0]
    off = 0 if frag else None
    if k == "r":
        return c.read("%s[%d]" % ("AB"[op[1]], op[2]), elements=op[3], offset=off, send=False)
    if k == "w":
        return c.write("%s[%d]" % ("AB"[op[1]], op[2]), data=list(op[3]), elements=len(op[3]), offset=off,
                       tag_type=INT, send=False)
    if k == "g":
        return c.get_attribute_single("@2/1/%d" % op[1], send=False)
    if k == "s":
        data = []
        for v in op[2]:
            data += [v % 256, v // 256 % 256]
        return c.set_attribute_single("@2/1/%d" % op[1], data=data, elements=len(data),
                                      tag_type=L.parser.USINT.tag_type, send=False)
    if k == "a":
        return c.get_attributes_all("@1/1", send=False)
    if k == "f":
        raise ValueError("a Forward Open is built by client.implicit (build_fwdopen)")
    if k == "u":
        return c.read("Z", elements=1, offset=off, send=False)
    raise ValueError(op)


def raw_send(L, c, request, segs, wrapper):
    """what client.unconnected_send builds, with the route path segments given verbatim"""
    dd = L.dotdict
    cip = dd()
    cip.send_data = {}
    sd = cip.send_data
    sd.interface = 0
    sd.timeout = 8
    sd.CPF = {}
    sd.CPF.item = [dd(), dd()]
    sd.CPF.item[0].type_id = 0x00
    sd.CPF.item[1].type_id = 0xb2
    sd.CPF.item[1].unconnected_send = {}
    us = sd.CPF.item[1].unconnected_send
    if wrapper:
        us.service = 0x52
        us.status = 0
        us.priority = c.priority_time_tick
        us.timeout_ticks = c.timeout_ticks
        us.path = {"segment": [dd(s) for s in L.device.parse_path("@6/1")]}
        if segs:
            lst = []
            for s in segs:
                if s[0] == "o":
                    lst.append(dd({OTHER_KINDS[s[1]]: s[2]}))
                else:
                    lst.append(dd({"port": s[0], "link": s[1]}))
            us.route_path = {"segment": lst}
    us.request = request
    us.request.input = bytearray(c.dialect.produce(us.request))
    c.cip_send(cip=cip)


class _Sent(Exception):
    pass


def build_fwdopen(L, route, send):
    """the Forward Open frame client.implicit( ..., route_path=, send_path= ) puts on the wire"""
    cl = L.client
    sent = []

    def stub_init(self, host, port=None, timeout=None, **kw):
        self.session, self.profiler, self.dialect, self.udp = 0x1234, None, L.logix.Logix, False
        self.engine = None
        self.frame = L.parser.enip_machine(context="enip")

    def stub_await(cli, timeout=None):
        raise _Sent()

    class Imp(cl.implicit):
        def send(self, request, timeout=None):
            sent.append(bytes(request))

    kind = route["kind"]
    rp = {"default": None, "falsy": False, "text": route.get("text"), "list": None}[kind]
    if kind == "list":
        rp = json.loads(route["json"])
    sp = {"D": "@6/1", "E": "", "O1": "@2/1", "O2": "@6/2", "O3": "@1/1"}[send]
    saved = cl.connector.__init__, cl.await_response
    cl.connector.__init__, cl.await_response = stub_init, stub_await
    try:
        try:
            Imp("localhost", route_path=rp, send_path=sp)
        except _Sent:
            pass
        except Exception as exc:
            raise BuildReject(type(exc).__name__)
    finally:
        cl.connector.__init__, cl.await_response = saved
    if not sent:
        raise BuildReject("nothing sent")
    return sent[-1]


def build_frame(L, route, send, req, frag=True):
    if req["ops"] == [["f"]]:
        return build_fwdopen(L, route, send)
    c = L.Cap()
    try:
        reqs = [op_request(L, c, op, frag) for op in req["ops"]]
        if req["multi"]:
            request = c.multiple(request=reqs, path="@2/1", send=False)
        else:
            request, = reqs
        kind = route["kind"]
        if kind in ("raw", "none"):
            raw_send(L, c, request, route.get("segs") or [], kind == "raw")
        else:
            if kind == "default" and "dflt" in route:
                # the documented per-class / per-instance configuration of the default route path
                if route.get("level") == "class":
                    c.__class__ = type("Cap", (c.__class__,), {"route_path_default": route["dflt"]})
                else:
                    c.route_path_default = route["dflt"]
            if kind == "default":
                rp = None
            elif kind == "falsy":
                rp = {"False": False, "0": 0, "[]": [], "''": ""}[route["value"]]
            elif kind == "text":
                rp = route["text"]
            elif kind == "list":
                rp = json.loads(route["json"])
            else:
                raise ValueError(kind)
            sp = {"D": None, "E": "", "O1": "@2/1", "O2": "@6/2", "O3": "@1/1"}[send]
            c.unconnected_send(request=request, route_path=rp, send_path=sp)
    except Exception as exc:
        raise BuildReject(type(exc).__name__)
    return c.sent[-1]


def parse_frame(L, raw):
    data = L.dotdict()
    source = L.cpppo.chainable(raw)
    with L.parser.enip_machine(context="enip") as m:
        for _m, _s in m.run(source=source, data=data, path="request"):
            pass
    return data


def op_result(op, r):
    """status:data of one reply"""
    st = r.get("status")
    if st is None:
        return "?:-"
    if st != 0:
        return "nz:-"            # which CIP error an invalid inner request gets is C05's subject
    k = op[0]
    if k in ("r", "u"):
        d = r.get("read_frag.data", r.get("read_tag.data"))
        return "0:" + fmt_nats(d if d is not None else [])
    if k == "g":
        return "0:" + fmt_nats(r.get("get_attribute_single.data") or [])
    if k in ("a", "f"):
        return "0:*"
    return "0:-"


def payload_of(req, rsp):
    """canonical reply payload from the response structure"""
    try:
        inner = rsp.enip.CIP.send_data.CPF.item[1].unconnected_send.request
    except Exception:
        return "?"
    if req["multi"]:
        if inner.get("status") != 0:
            return "m%s" % inner.get("status")
        subs = inner.multiple.request
        if len(subs) != len(req["ops"]):
            return "m?"
        return ";".join(op_result(op, r) for op, r in zip(req["ops"], subs))
    return op_result(req["ops"][0], inner)


def fmt_log(log):
    out = []
    for idx, kind, k, ln in log:
        if isinstance(k, slice):
            lo = 0 if k.start is None else k.start
            hi = ln if k.stop is None else k.stop
        else:
            lo, hi = k, k + 1
        out.append("%d.%s.%d.%d" % (idx, kind, lo, hi))
    return ",".join(out) if out else "-"


def fmt_dev(L, tags):
    vals = "/".join(fmt_nats(list(list.__iter__(t.attribute.value))) for _n, t in dict.items(tags))
    return vals + " " + fmt_log(L.Rec.log)


def decode_reply(L, raw):
    """frame -> CIP -> Logix reply, as client.__next__ decodes it"""
    result = L.dotdict()
    with L.parser.enip_machine(context="enip") as m:
        for _m, _s in m.run(source=L.cpppo.chainable(raw), data=result):
            pass
    if "enip.input" in result and result.enip.input:
        with L.parser.CIP() as m:
            for _m, _s in m.run(path="enip", source=L.cpppo.peekable(result.enip.input), data=result):
                pass
        for item in result.enip.CIP.send_data.CPF.item:
            if "unconnected_send.request" in item:
                request = item.unconnected_send.request
                with L.logix.Logix.parser as m:
                    for _m, _s in m.run(source=L.cpppo.peekable(request.input), data=request):
                        pass
    return result


class FakeConn:
    def __init__(self):
        self.out = []
        self.closed = False

    def send(self, data):
        self.out.append(bytes(data))
        return len(data)

    def close(self):
        self.closed = True

    def shutdown(self, *a):
        pass


# ------------------------------------------------------------------------------------------------
# an independent reading of the property (used by the oracle only)
# ------------------------------------------------------------------------------------------------
def ref_exec(tags, ops):
    """the requests' effect on INT arrays, as the CIP services are documented: (results, accesses)"""
    tags = [list(t) for t in tags]
    res, acc = [], []
    for op in ops:
        k = op[0]
        if k == "r":
            _, t, i, n = op
            if n >= 1 and i + n <= len(tags[t]):
                res.append("0:" + fmt_nats(tags[t][i:i + n]))
                acc.append("%d.g.%d.%d" % (t, i, i + n))
            else:
                res.append("nz")
        elif k == "w":
            _, t, i, vs = op
            if len(vs) >= 1 and i + len(vs) <= len(tags[t]):
                tags[t][i:i + len(vs)] = vs
                res.append("0:-")
                acc.append("%d.s.%d.%d" % (t, i, i + len(vs)))
            else:
                res.append("nz")
        elif k == "g":
            a = op[1]
            if 1 <= a <= len(tags):
                b = []
                for v in tags[a - 1]:
                    b += [v % 256, v // 256]
                res.append("0:" + fmt_nats(b))
                acc.append("%d.g.%d.%d" % (a - 1, 0, len(tags[a - 1])))
            else:
                res.append("nz")
        elif k == "s":
            a, vs = op[1], op[2]
            tags[a - 1][:] = vs
            res.append("0:-")
            acc.append("%d.s.%d.%d" % (a - 1, 0, len(vs)))
        elif k in ("a", "f"):
            res.append("0:*")           # identity data / a connection is set up: no tag is touched
        elif k == "u":
            res.append("nz")          # an unknown tag is answered with a CIP error status; nothing is accessed
    return tags, res, acc


def spelled_personality(cfg):
    """('any'|'simple'|'path', segs) for personalities whose meaning the statement fixes, else None"""
    k = cfg["kind"]
    if k == "any":
        return ("any", None)
    if k == "falsy":
        return ("simple", None)
    if k == "list":
        segs = [[d["port"], d["link"]] for d in json.loads(cfg["json"])]
        return ("path", segs) if segs else ("simple", None)
    if k == "file":
        if cfg["text"] is None:
            return ("any", None)
        return ("path", cfg["spelled"]) if cfg.get("spelled") else None
    if k == "main":
        if cfg.get("spelled") is not None:
            return ("path", cfg["spelled"]) if cfg["spelled"] else ("simple", None)
        if cfg["text"] is None:
            return ("simple", None) if cfg["simple"] else ("any", None)
        if cfg["text"] == "":
            return ("simple", None)
    return None


def spelled_route(route, send):
    """'absent' | list of segments, for requests whose route path the statement fixes, else None"""
    k = route["kind"]
    if k == "none":
        return "absent"
    if k == "raw":
        return route.get("segs") or []
    if k == "falsy":
        return "absent" if send == "E" else []
    if k == "default" and "dflt" in route:
        if not route["dflt"]:
            return "absent" if send == "E" else []
        return route["spelled"] if route.get("spelled") is not None and send != "E" else None
    if k == "default":
        return [[1, 0]] if send != "E" else None
    if k in ("text", "list"):
        if route.get("spelled") is not None and send != "E":
            return route["spelled"]
    return None


DEAD_TARGET = "127.0.0.1:1"        # every routing table entry leads to a closed port


def with_routes(L, U, routes):
    """the personality's UCMM class with a routing table `{"p/l": target}` on top (as `[UCMM] Route` or a
    `route` class attribute would give it)"""
    if not routes:
        return U
    base = U if U is not None else L.ucmm.UCMM

    class UCMM(base):
        route = {"%s/%s" % (p, l): DEAD_TARGET for p, l in routes}
    return UCMM


def route_keys(routes):
    return ",".join(hx("%s/%s" % (p, l)) for p, l in routes) if routes else "-"


def table_hit(routes, carried):
    """True/False: the request's first port/link is / is not an entry of the routing table; None = cannot
    tell from the statement (same digits, other kind of link)"""
    if not routes or carried == "absent" or not carried or carried[0][0] == "o":
        return False
    p, l = carried[0]
    for tp, tl in routes:
        if tp == p and str(tl) == str(l):
            return True if type(tl) is type(l) else None
    return False


def bare_frag(carried, req, frag):
    """a single Read Tag Fragmented (service 0x52) sent without the Unconnected Send wrapper (also 0x52)"""
    return carried == "absent" and frag and not req["multi"] and req["ops"][0][0] in "ru"


def want_accept(pers, carried):
    kind, segs = pers
    if kind == "any":
        return True
    if carried == "absent" or carried == []:
        return True
    if kind == "simple":
        return False
    return [list(s) for s in carried] == [list(s) for s in segs]


# ------------------------------------------------------------------------------------------------
# generators
# ------------------------------------------------------------------------------------------------
PORTS = [1, 2, 9, 10, 14, 15, 16, 99, 255, 256, 4095, 65535]
LINKS_NUM = [0, 1, 2, 9, 10, 99, 127, 128, 255]
OCTETS = [0, 1, 9, 10, 19, 99, 100, 127, 199, 200, 249, 250, 255]
SLASHY = "0123456789/ ._-+a\t\xa0"
JSONY = "0129[]{}\",: /.-ntruefalsNI\n"


def rand_ip(rng):
    return ".".join(str(rng.choice(OCTETS)) for _ in range(4))


def rand_seg(rng, wire=False):
    port = rng.choice(PORTS)
    if rng.random() < 0.4:
        return [port, rand_ip(rng)]
    return [port, rng.choice(LINKS_NUM if wire else LINKS_NUM + [256, 1000, -1])]


def rand_segs(rng, wire=False, lo=1, hi=4):
    return [rand_seg(rng, wire) for _ in range(rng.randint(lo, hi))]


def spell_slash(segs):
    return "/".join("%d/%s" % (p, l) for p, l in segs)


def spell_json(segs, form, rng=None):
    """forms: dicts, dict1 (bare dict), strs, pairs, mixed, ws (whitespace), swapped, strnum"""
    def dct(p, l, swapped=False, strnum=False):
        pv = json.dumps(str(p) if strnum else p)
        lv = json.dumps(str(l) if strnum else l)
        return '{"link":%s,"port":%s}' % (lv, pv) if swapped else '{"port":%s,"link":%s}' % (pv, lv)
    if form == "dict1":
        return dct(*segs[0])
    elems = []
    for i, (p, l) in enumerate(segs):
        f = form
        if form == "mixed":
            f = ["dicts", "strs", "pairs", "swapped", "strnum"][(i + (rng.randint(0, 4) if rng else 0)) % 5]
        if f in ("dicts", "ws"):
            elems.append(dct(p, l))
        elif f == "swapped":
            elems.append(dct(p, l, swapped=True))
        elif f == "strnum":
            elems.append(dct(p, l, strnum=True))
        elif f == "strs":
            elems.append(json.dumps("%d/%s" % (p, l)))
        elif f == "pairs":
            elems.append("[%d,%s]" % (p, json.dumps(l)))
    if form == "ws":
        return " [ " + " ,\n".join(e.replace(":", " : ").replace(",", " , ") for e in elems) + " ]\t"
    return "[" + ",".join(elems) + "]"


def mutate(rng, text, alphabet):
    t = list(text)
    for _ in range(rng.choice([1, 1, 2])):
        kind = rng.randint(0, 3)
        pos = rng.randint(0, len(t))
        if kind == 0 and t:
            del t[min(pos, len(t) - 1)]
        elif kind == 1:
            t.insert(pos, rng.choice(alphabet))
        elif kind == 2 and t:
            t[min(pos, len(t) - 1)] = rng.choice(alphabet)
        else:
            t.insert(pos, rng.choice("/ 0"))
    return "".join(t)


SPECIAL_TEXTS = [
    "", "0", "false", "null", "true", "1", "-1", "1.5", "1e3", "NaN", "Infinity", "-Infinity", '""', "{}", "[]",
    "[[]]", "[null]", "[0]", '[""]', "[false]", "[{}]", '"1/2"', '"1/2', "[1]", "[1,2]", "[[1,2]]", "[[1,2,3]]",
    '["1/2",null,"3/4"]', '["1/2",0,"3/4"]', '["1/2","","3/4"]', '["1/2",[],"3/4"]', "1/2/", "1/2//", "/1/2", "1//2", "/",
    "//", "1", "1/", "/1", "1/2/3", "1/2/abc", "0/1", "-1/2", "1/-2", "+1/2", "1_0/2", "1__0/2", "_1/2", "1_/2",
    " 1 / 2 ", "1/ 2/3/4", "1/2 /3/4", "1/ 1.2.3.4", "1/1.2.3.4 ", "1/2/3/ 1.2.3.4", "1/2/3/ 1.2.3.4/5/6",
    "1/1.2.3.04", "1/1.2.3", "1/1.2.3.4.5", "1/1.2.3.256", "1/1..2.3", "1/.1.2.3", "1/1.2.3.", "1/01", "01/1",
    "1/1.2.3.4/2/0001", "1/0x10", "1/1e3", "1/1.0", "\xa01\xa0/\x852", "1/²", "15/255", "65535/0",
    "65536/0", "[{\"port\":1,\"link\":2}", '{"port":1}', '{"link":1}', '{"port":0,"link":1}', '{"port":"x","link":1}',
    '{"port":1,"link":"x"}', '{"port":1,"link":null}', '{"port":null,"link":1}', '{"port":true,"link":false}',
    '{"port":[1],"link":1}', '[{"port":1,"link":"1.2.3.4"},{"port":2,"link":0}]', '[ {"port" : 1 , "link" : 0 } ]',
    '[{"port":1,"link":0},]', '[,]', '[1 2]', '{"port":1 "link":0}', '{"port":1,"link":0}x', 'x{"port":1,"link":0}',
    '[{"port":" 1 ","link":"+2"}]', '[{"port":"1_0","link":"1.2.3.4"}]', '["1/2/3/4"]', '["1 / 1.2.3.4 "]', '[" 1/2"]',
    "[true]", '[[true,false]]', '[["1","2"]]', '[[1,"1.2.3.4"]]', '[[1,[2]]]', "[[1,null]]", "[-0]", "[01]", "-", "--1",
    "1/2\n", "\t1/2", "[ ]", "{ }", ' "1/2" ', "nul", "truex", "[true,false]", "[null,1]", '[{"port":1,"link":0},null,5]',
]


def slash_variants(rng, segs):
    """texts close to a valid 'p/l/…' spelling: spacing, signs, zeros, underscores"""
    parts = []
    for p, l in segs:
        ps = str(p)
        ls = str(l)
        r = rng.random()
        if r < 0.15:
            ps = " " + ps
        elif r < 0.3:
            ps = ps + " "
        elif r < 0.4:
            ps = "0" + ps
        elif r < 0.5:
            ps = "+" + ps
        elif r < 0.55 and len(ps) > 1:
            ps = ps[0] + "_" + ps[1:]
        r = rng.random()
        if r < 0.15:
            ls = " " + ls
        elif r < 0.3:
            ls = ls + " "
        elif r < 0.4:
            ls = "0" + ls
        parts += [ps, ls]
    return "/".join(parts)


def srv_personalities():
    """(label, cfg) over the personalities the property names"""
    J = json.dumps
    P = []
    P.append({"kind": "any"})
    P.append({"kind": "falsy", "value": "False"})
    P.append({"kind": "falsy", "value": "0"})
    P.append({"kind": "list", "json": "[]"})
    P.append({"kind": "main", "text": None, "simple": True})
    P.append({"kind": "main", "text": "", "simple": False})
    P.append({"kind": "main", "text": None, "simple": False})
    for segs in ([[1, 0]], [[1, 1]], [[2, 0]], [[1, "1.2.3.4"]], [[15, 255]], [[1, 0], [2, "1.2.3.4"]], [[1, 0], [2, 5]],
                 [[1, "0"]], [[1, 0], [2, "1.2.3.4"], [3, 1]]):
        P.append({"kind": "list", "json": J(seg_dicts(segs))})
    for text, segs in (("1/0", [[1, 0]]), ("2/10.0.0.1", [[2, "10.0.0.1"]]), ('[{"port":3,"link":7}]', [[3, 7]]),
                       ('{"port":1,"link":"1.2.3.4"}', [[1, "1.2.3.4"]]), ('["16/255"]', [[16, 255]]), ("[]", [])):
        P.append({"kind": "main", "text": text, "simple": False, "spelled": segs})
    P.append({"kind": "main", "text": "3/7", "simple": True, "spelled": [[3, 7]]})
    P.append({"kind": "main", "text": "1/0/2/3", "simple": False})        # main() wants a single segment
    P.append({"kind": "main", "text": "1/0/x", "simple": False})
    return P


def srv_routes():
    """(route, send) over the request route paths the property names"""
    R = []
    R.append(({"kind": "none"}, "D"))
    R.append(({"kind": "falsy", "value": "False"}, "E"))
    R.append(({"kind": "falsy", "value": "[]"}, "D"))
    R.append(({"kind": "raw", "segs": []}, "D"))
    R.append(({"kind": "default"}, "D"))
    R.append(({"kind": "default"}, "E"))
    # a connector whose route_path_default was configured; operations name no route path
    R.append(({"kind": "default", "dflt": "1/5", "level": "class", "spelled": [[1, 5]]}, "D"))
    R.append(({"kind": "default", "dflt": "2/0", "level": "instance", "spelled": [[2, 0]]}, "D"))
    R.append(({"kind": "default", "dflt": "1/0/2/1.2.3.4", "level": "instance", "spelled": [[1, 0], [2, "1.2.3.4"]]}, "D"))
    R.append(({"kind": "default", "dflt": '[{"port":3,"link":7}]', "level": "class", "spelled": [[3, 7]]}, "D"))
    R.append(({"kind": "default", "dflt": "", "level": "class"}, "D"))
    R.append(({"kind": "default", "dflt": "", "level": "instance"}, "E"))
    for segs in ([[1, 0]], [[1, 1]], [[2, 0]], [[1, "1.2.3.4"]], [[1, "1.2.3.5"]], [[15, 255]], [[1, 0], [2, "1.2.3.4"]],
                 [[1, 0], [2, 5]], [[1, 0], [2, "1.2.3.5"]], [[2, 5], [1, 0]], [[1, 0], [2, "1.2.3.4"], [3, 1]],
                 [[3, 7]], [[2, "10.0.0.1"]], [[16, 255]], [[1, 0], [1, 0]]):
        R.append(({"kind": "text", "text": spell_slash(segs), "spelled": segs}, "D"))
    R.append(({"kind": "text", "text": '[{"port":1,"link":"1.2.3.4"}]', "spelled": [[1, "1.2.3.4"]]}, "D"))
    R.append(({"kind": "list", "json": json.dumps(seg_dicts([[1, 0], [2, "1.2.3.4"]])),
               "spelled": [[1, 0], [2, "1.2.3.4"]]}, "D"))
    R.append(({"kind": "text", "text": "1/0", "spelled": [[1, 0]]}, "E"))       # the client refuses to build this
    R.append(({"kind": "default"}, "O1"))                                       # sent to the Message Router, not a CM
    R.append(({"kind": "falsy", "value": "False"}, "O2"))                       # a Connection Manager instance that is not there
    R.append(({"kind": "text", "text": "2/0", "spelled": [[2, 0]]}, "O3"))      # the Identity object
    R.append(({"kind": "raw", "segs": [[1, "0"]]}, "D"))                        # link kind: address "0" vs number 0
    R.append(({"kind": "raw", "segs": [[1, "1.2.3.04"]]}, "D"))
    R.append(({"kind": "raw", "segs": [["o", 0, 6]]}, "D"))                     # not a port segment at all
    R.append(({"kind": "raw", "segs": [[1, 0], ["o", 1, 1]]}, "D"))
    return R


def srv_requests():
    S = []
    one = lambda *op: {"multi": False, "ops": [list(op)]}
    S.append(one("w", 0, 1, [77]))
    S.append(one("w", 1, 0, [7, 8]))
    S.append(one("r", 0, 1, 2))
    S.append(one("s", 2, [5, 6]))
    S.append(one("g", 1))
    S.append(one("a"))
    S.append({"multi": True, "ops": [["r", 0, 0, 1], ["w", 1, 1, [99]], ["r", 1, 0, 2]]})
    S.append({"multi": True, "ops": [["w", 0, 0, [9]], ["w", 0, 3, [8]], ["s", 2, [1, 2]], ["g", 2]]})
    S.append(one("w", 0, 3, [7, 8]))          # beyond the end: accepted by the route filter, refused by the tag
    S.append(one("r", 0, 3, 3))
    S.append(one("g", 9))
    S.append(one("u"))
    return S


def rand_ops(rng):
    ops = []
    for _ in range(rng.randint(1, 4)):
        k = rng.choice("rrwwwgsa")
        t = rng.randint(0, 1)
        ln = len(TAGS0[t])
        if k == "r":
            i = rng.randint(0, ln - 1)
            ops.append(["r", t, i, rng.randint(1, ln - i) if rng.random() < 0.9 else ln - i + 1])
        elif k == "w":
            i = rng.randint(0, ln - 1)
            n = rng.randint(1, ln - i) if rng.random() < 0.9 else ln - i + 1
            ops.append(["w", t, i, [rng.choice([0, 1, 255, 256, 1000, 32767]) for _ in range(n)]])
        elif k == "g":
            ops.append(["g", rng.choice([1, 2, 2, 1, 3])])
        elif k == "s":
            ops.append(["s", t + 1, [rng.choice([0, 1, 255, 256, 32767]) for _ in range(ln)]])
        else:
            ops.append(["a"])
    return ops


class _Float(float):
    pass


def _strings(v, inside=False):
    """(strings anywhere in a JSON value, a float occurs inside a container)"""
    if isinstance(v, _Float):
        return [], inside
    if isinstance(v, str):
        return [v], False
    if isinstance(v, list):
        out, bad = [], False
        for x in v:
            o, b = _strings(x, True)
            out += o
            bad = bad or b
        return out, bad
    if isinstance(v, dict):
        out, bad = [], False
        for k, x in v.items():
            o, b = _strings(x, True)
            out += o
            bad = bad or b
        return out, bad
    return [], False


def in_scope(text):
    """the decidable side conditions of the model (see C15.assumptions): code points < 256, no backslash,
    no float as a port/link candidate, no candidate link with two ':' (IPv6), no repeated/extra dict keys"""
    if text is None:
        return True
    if any(ord(ch) > 255 or ch == "\\" for ch in text):
        return False
    try:
        v = json.loads(text, parse_float=lambda s: _Float(0), parse_constant=lambda s: _Float(0),
                       object_pairs_hook=lambda kv: {"__dup__": 1} if len({k for k, _ in kv}) != len(kv)
                       or (len(kv) > 2 and {k for k, _ in kv} >= {"port", "link"}) else dict(kv))
    except (ValueError, RecursionError):
        cands = [text]
    else:
        if isinstance(v, dict) and "__dup__" in v:
            return False
        cands, bad = _strings(v)
        if bad or "__dup__" in json.dumps(v):
            return False
    for c in cands:
        if any(part.count(":") >= 2 for part in c.split("/")):
            return False
    return True


class C15(Suite):
    id = "C15"
    props_module = "Cpppo.Props.C15"
    rule = ("exhaustive product personalities x (no routing table | 4 routing tables) x request route paths x services through main()/client.unconnected_send/"
            "logix.process (+ TCP sessions through enip_srv_tcp), seeded random segment lists, and parse_route_path/"
            "port_link/int()/ip_address/json.loads on spelled, near-valid and malformed texts; non-trivial = a "
            "restricting personality meets a non-empty request route path (a comparison decides), or a text yields at "
            "least one segment or a trailer; distinct by input")
    assumptions = [
        "routing tables ([UCMM] Route / UCMM.route) lead to a closed TCP port: a first hop found in the table is forwarded "
        "and fails with status 0x65 (remote forwarding itself is outside the property); a miss must be filtered locally",
        "link texts contain no ':' (IPv6 links are accepted by the code, not modelled); no backslash escapes in JSON",
        "JSON floats are modelled only as top-level scalars (never as port/link values); dict segments have exactly the "
        "keys port and link",
        "inner requests address INT tags A[4], B[2] with representable values (tag semantics belong to C03/C05/C07)",
    ]
    trusted_extra = ["Python str.strip/split, int(str), ipaddress.ip_address (IPv4), json.loads: modelled (tied by "
                     "exhaustive short strings), not verified"]

    # -------------------------------------------------------------------------------------------
    def cases(self, tier, rng):
        for c in self.all_cases(tier, rng):
            if c["op"] in ("parse", "pl", "main", "json") and not in_scope(c.get("text")):
                continue
            yield c

    def all_cases(self, tier, rng):
        quick = tier == "quick"
        yield from self.primitive_cases(tier, rng)
        yield from self.text_cases(tier, rng)
        P, R, S = srv_personalities(), srv_routes(), srv_requests()
        k = 0
        for cfg in P:
            for route, send in R:
                k += 1
                for j, req in enumerate(S):
                    # quick: the single write always, three more services rotating; thorough: all twelve
                    if quick and j != 0 and (j + k) % 4:
                        continue
                    yield {"op": "srv", "cfg": cfg, "tags": TAGS0, "route": route, "send": send, "req": req,
                           "frag": bool((k + j) % 2)}
        # the Forward Open service, as client.implicit( route_path=, send_path= ) issues it
        FO = {"multi": False, "ops": [["f"]]}
        fo_routes = [(r, sd) for r, sd in R if r["kind"] in ("text", "list", "falsy") or r == {"kind": "default"}]
        k = 0
        for cfg in P:
            for route, send in fo_routes:
                k += 1
                if quick and k % 3 and not (route.get("text") in ("1/0", "1/1") and send == "D"):
                    continue
                yield {"op": "srv", "cfg": cfg, "tags": TAGS0, "route": route, "send": send, "req": FO, "frag": True}
        # personalities read from the configuration files ([UCMM] Route Path) by a plain UCMM, alone or after another
        # simulator instance of the same process had been configured differently
        FP = [{"kind": "file", "text": None},
              {"kind": "file", "text": "1/0", "spelled": [[1, 0]]},
              {"kind": "file", "text": "1/5", "prior": "1/0", "spelled": [[1, 5]]},
              {"kind": "file", "text": None, "prior": "1/0"},
              {"kind": "file", "text": "1/0/2/1.2.3.4", "prior": None, "spelled": [[1, 0], [2, "1.2.3.4"]]},
              {"kind": "file", "text": '[{"port":2,"link":"10.0.0.1"}]', "prior": "3/7", "spelled": [[2, "10.0.0.1"]]}]
        k = 0
        for cfg in FP:
            for route, send in R:
                k += 1
                for j, req in enumerate([S[0]] if quick else [S[0], S[2], S[6], FO]):
                    if req is FO and not (route["kind"] in ("text", "list", "falsy") or route == {"kind": "default"}):
                        continue
                    yield {"op": "srv", "cfg": cfg, "tags": TAGS0, "route": route, "send": send, "req": req,
                           "frag": bool((k + j) % 2)}
        # the same personalities on a device that ALSO has a routing table: a first hop that is not in the table
        # is a local request and must meet the same route-path test; one that is in it is forwarded
        tables = [[[1, 5]], [[1, 5], [2, "1.2.3.4"], [16, 255]], [[1, 0]], [[2, 0], [1, "1.2.3.5"], [3, 7]]]
        extra = [({"kind": "text", "text": "1/5", "spelled": [[1, 5]]}, "D"),
                 ({"kind": "text", "text": "1/5/1/0", "spelled": [[1, 5], [1, 0]]}, "D"),
                 ({"kind": "text", "text": "1/7", "spelled": [[1, 7]]}, "D"),
                 ({"kind": "text", "text": "2/1.2.3.4", "spelled": [[2, "1.2.3.4"]]}, "D"),
                 ({"kind": "text", "text": "1/0/2/3", "spelled": [[1, 0], [2, 3]]}, "D"),
                 ({"kind": "raw", "segs": [[1, "5"]]}, "D")]
        k = 0
        for cfg in P:
            if cfg["kind"] == "main" and cfg.get("spelled") is None and cfg["text"] not in (None, ""):
                continue
            for ti, table in enumerate(tables):
                for route, send in R + extra:
                    k += 1
                    if quick and (k + ti) % 5:
                        continue
                    for j, req in enumerate([S[0], S[2], S[6]] if not quick else [S[0], S[1 + k % 7]]):
                        if quick and j and k % 3:
                            continue
                        yield {"op": "srv", "cfg": cfg, "routes": table, "tags": TAGS0, "route": route, "send": send,
                               "req": req, "frag": bool((k + j) % 2)}
        for _ in range(400 if quick else 25000):
            yield self.rand_srv(rng)
        for _ in range(100 if quick else 4000):
            yield self.rand_sess(rng)

    def rand_cfg(self, rng, segs):
        r = rng.random()
        if r < 0.04:
            return {"kind": "any"}
        if r < 0.1:
            cfg = {"kind": "file", "text": rng.choice([None, spell_slash(segs), spell_slash(segs)])}
            if cfg["text"] is not None:
                cfg["spelled"] = segs
            if rng.random() < 0.6:
                cfg["prior"] = rng.choice([None, "1/0", spell_slash(rand_segs(rng, wire=True, lo=1, hi=2))])
            return cfg
        if r < 0.16:
            return {"kind": "falsy", "value": rng.choice(["False", "0"])}
        if r < 0.2:
            return {"kind": "main", "text": None, "simple": True}
        if r < 0.45 and len(segs) == 1:
            form = rng.choice(["slash", "dicts", "dict1", "strs", "pairs"])
            text = spell_slash(segs) if form == "slash" else spell_json(segs, form)
            return {"kind": "main", "text": text, "simple": rng.random() < 0.2, "spelled": segs}
        return {"kind": "list", "json": json.dumps(seg_dicts(segs))}

    def rand_route(self, rng, cfgsegs):
        """mostly close to the configured path: equal, or differing in one port, link, kind or length"""
        r = rng.random()
        if r < 0.06:
            return {"kind": "none"}, "D"
        if r < 0.12:
            return {"kind": "falsy", "value": rng.choice(["False", "0", "[]", "''"])}, rng.choice(["D", "E", "D", "E", "O1"])
        if r < 0.16:
            return {"kind": "default"}, "D"
        segs = [list(s) for s in cfgsegs]
        r = rng.random()
        if r < 0.35:
            pass
        elif r < 0.5:
            i = rng.randrange(len(segs))
            segs[i][0] = rng.choice([p for p in PORTS if p != segs[i][0]])
        elif r < 0.65:
            i = rng.randrange(len(segs))
            if isinstance(segs[i][1], str):
                o = segs[i][1].split(".")
                j = rng.randrange(4)
                o[j] = str(rng.choice([v for v in OCTETS if str(v) != o[j]]))
                segs[i][1] = ".".join(o)
            else:
                segs[i][1] = rng.choice([v for v in LINKS_NUM if v != segs[i][1]])
        elif r < 0.75:
            i = rng.randrange(len(segs))
            segs[i][1] = rand_ip(rng) if not isinstance(segs[i][1], str) else rng.choice(LINKS_NUM)
        elif r < 0.85:
            if len(segs) > 1 and rng.random() < 0.5:
                del segs[rng.randrange(len(segs))]
            else:
                segs.insert(rng.randint(0, len(segs)), rand_seg(rng, wire=True))
        elif r < 0.9 and len(segs) > 1:
            rng.shuffle(segs)
        else:
            segs = rand_segs(rng, wire=True)
        r = rng.random()
        if r < 0.25:
            raw = [[p, l] for p, l in segs]
            if rng.random() < 0.15:
                i = rng.randrange(len(raw))
                if not isinstance(raw[i][1], str):
                    raw[i][1] = str(raw[i][1])          # same digits, address kind
            if rng.random() < 0.08:
                raw.insert(rng.randint(0, len(raw)), ["o", rng.randrange(len(OTHER_KINDS)), rng.choice([1, 6, 255])])
            return {"kind": "raw", "segs": raw}, "D"
        if r < 0.6:
            if rng.random() < 0.2:
                return {"kind": "default", "dflt": spell_slash(segs), "level": rng.choice(["class", "instance"]),
                        "spelled": segs}, "D"
            return {"kind": "text", "text": spell_slash(segs), "spelled": segs}, rng.choice(["D"] * 12 + ["O1", "O2", "O3"])
        if r < 0.85:
            form = rng.choice(["dicts", "strs", "pairs", "mixed", "ws", "swapped", "strnum"])
            return {"kind": "text", "text": spell_json(segs, form, rng), "spelled": segs}, "D"
        return {"kind": "list", "json": json.dumps(seg_dicts(segs)), "spelled": segs}, "D"

    def rand_srv(self, rng):
        segs = rand_segs(rng, wire=True, lo=1, hi=3)
        cfg = self.rand_cfg(rng, segs)
        route, send = self.rand_route(rng, segs)
        ops = rand_ops(rng)
        multi = len(ops) > 1 or rng.random() < 0.2
        if not multi and rng.random() < 0.03:
            ops = [["u"]]
        elif not multi and rng.random() < 0.06 and (route["kind"] in ("text", "list", "falsy") or route == {"kind": "default"}):
            ops = [["f"]]
        return {"op": "srv", "cfg": cfg, "routes": self.rand_table(rng, segs, route), "tags": TAGS0, "route": route,
                "send": send, "req": {"multi": multi, "ops": ops}, "frag": rng.random() < 0.5}

    def rand_table(self, rng, cfgsegs, route):
        """no table (half of the time), or a few entries: random ones, sometimes the configured first hop,
        sometimes the request's own first hop"""
        if rng.random() < 0.5:
            return []
        table = [rand_seg(rng, wire=True) for _ in range(rng.randint(1, 3))]
        if rng.random() < 0.15:
            table.append(list(cfgsegs[0]))
        sp = route.get("spelled") or route.get("segs") or []
        if sp and sp[0][0] != "o" and rng.random() < 0.25:
            table.append([sp[0][0], sp[0][1]])
        uniq = []
        for e in table:
            if not any(str(e[0]) == str(u[0]) and str(e[1]) == str(u[1]) for u in uniq):
                uniq.append(e)
        return uniq

    def rand_sess(self, rng):
        segs = rand_segs(rng, wire=True, lo=1, hi=2)
        cfg = self.rand_cfg(rng, segs)
        frames = []
        for _ in range(rng.randint(1, 4)):
            while True:
                route, send = self.rand_route(rng, segs)
                if not (route["kind"] in ("text", "list", "default") and send == "E"):
                    break
            ops = rand_ops(rng)
            frames.append({"route": route, "send": send, "req": {"multi": len(ops) > 1, "ops": ops}})
        routes = self.rand_table(rng, segs, frames[-1]["route"])
        return {"op": "sess", "cfg": cfg, "routes": routes, "tags": TAGS0, "frames": frames,
                "chunk": rng.choice(["one", "each", "split"])}

    def primitive_cases(self, tier, rng):
        quick = tier == "quick"
        alpha = " +-_019a\xa0"
        for n in range(0, 4 if quick else 5):
            for t in itertools.product(alpha, repeat=n):
                yield {"op": "int", "text": "".join(t)}
        for ch in range(256):
            yield {"op": "int", "text": chr(ch) + "7"}
            yield {"op": "int", "text": "7" + chr(ch)}
            yield {"op": "int", "text": "7" + chr(ch) + "7"}
        octs = ["", "0", "1", "00", "01", "9", "10", "99", "100", "199", "255", "256", "999", "1000", " 1", "1 ", "a", "-1", "+1"]
        for _ in range(1500 if quick else 30000):
            n = rng.choice([4, 4, 4, 4, 3, 5])
            yield {"op": "ip", "text": ".".join(rng.choice(octs) if rng.random() < 0.5 else str(rng.choice(OCTETS))
                                                for _ in range(n))}
        for a in octs:
            for b in octs:
                yield {"op": "ip", "text": "%s.1.%s.0" % (a, b)}
        for t in SPECIAL_TEXTS:
            yield {"op": "json", "text": t}
        for _ in range(1500 if quick else 40000):
            n = rng.randint(0, 9)
            yield {"op": "json", "text": "".join(rng.choice(JSONY) for _ in range(n))}

    def text_cases(self, tier, rng):
        quick = tier == "quick"
        for t in SPECIAL_TEXTS:
            yield {"op": "parse", "text": t, "form": "special"}
            yield {"op": "pl", "text": t}
            yield {"op": "main", "text": t, "simple": False}
        yield {"op": "main", "text": None, "simple": False}
        yield {"op": "main", "text": None, "simple": True}
        # every chain of 1..3 segments over a small universe, in every spelling
        uni = [[1, 0], [2, 255], [15, "1.2.3.4"], [16, "10.0.0.255"], [65535, 7]]
        for n in (1, 2, 3):
            for segs in itertools.product(uni, repeat=n):
                segs = [list(s) for s in segs]
                if quick and n == 3 and rng.random() < 0.6:
                    continue
                yield {"op": "parse", "text": spell_slash(segs), "form": "slash", "spelled": segs}
                for form in ("dicts", "strs", "pairs", "ws", "swapped", "strnum", "mixed"):
                    yield {"op": "parse", "text": spell_json(segs, form, rng), "form": "json-" + form, "spelled": segs}
                if n == 1:
                    yield {"op": "parse", "text": spell_json(segs, "dict1"), "form": "json-dict1", "spelled": segs}
                    yield {"op": "main", "text": spell_slash(segs), "simple": False, "spelled": segs}
                    yield {"op": "main", "text": spell_json(segs, "dicts"), "simple": True, "spelled": segs}
                    yield {"op": "pl", "text": spell_slash(segs), "spelled": segs}
                else:
                    yield {"op": "main", "text": spell_slash(segs), "simple": False}
        for _ in range(1200 if quick else 20000):
            segs = rand_segs(rng)
            form = rng.choice(["slash", "slash", "dicts", "strs", "pairs", "mixed", "ws", "swapped", "strnum"])
            text = spell_slash(segs) if form == "slash" else spell_json(segs, form, rng)
            yield {"op": "parse", "text": text, "form": form if form == "slash" else "json-" + form, "spelled": segs}
            # near misses
            yield {"op": "parse", "text": slash_variants(rng, segs), "form": "slash-variant"}
            yield {"op": "parse", "text": mutate(rng, text, SLASHY if form == "slash" else JSONY), "form": "mutated"}
            if rng.random() < 0.3:
                yield {"op": "main", "text": mutate(rng, text, SLASHY), "simple": rng.random() < 0.3}
            if rng.random() < 0.3:
                yield {"op": "pl", "text": slash_variants(rng, segs[:1])}
        for _ in range(800 if quick else 25000):
            alpha = SLASHY if rng.random() < 0.6 else JSONY
            yield {"op": "parse", "text": "".join(rng.choice(alpha) for _ in range(rng.randint(0, 9))), "form": "garbage"}

    # -------------------------------------------------------------------------------------------
    def model_line(self, c):
        op = c["op"]
        if op in ("int", "ip", "json", "pl", "parse"):
            return "rp.%s %s" % (op, hx(c["text"]))
        if op == "main":
            return "rp.main %s %d" % ("~" if c["text"] is None else hx(c["text"]), int(c["simple"]))
        if op == "srv":
            return "rp.srv %s %s %s %s %s" % (self.line_cfg(c["cfg"]), route_keys(c.get("routes")), self.line_tags(c["tags"]),
                                            self.line_route(c["route"], c["send"]), self.line_req(c["req"], c.get("frag", True)))
        if op == "sess":
            fr = " ".join("%s %s" % (self.line_route(f["route"], f["send"]), self.line_req(f["req"])) for f in c["frames"])
            return "rp.sess %s %s %s %s" % (self.line_cfg(c["cfg"]), route_keys(c.get("routes")), self.line_tags(c["tags"]), fr)
        raise ValueError(op)

    @staticmethod
    def line_tags(tags):
        return "/".join(fmt_nats(t) for t in tags)

    @staticmethod
    def line_cfg(cfg):
        k = cfg["kind"]
        if k == "any":
            return "any"
        if k == "falsy":
            return "F"
        if k == "list":
            return "L:" + hx(cfg["json"])
        if k == "file":
            return "G:" + ("~" if cfg["text"] is None else hx(cfg["text"]))
        return "M:%s:%d" % ("~" if cfg["text"] is None else hx(cfg["text"]), int(cfg["simple"]))

    @staticmethod
    def line_route(route, send):
        k = route["kind"]
        r = {"none": "N", "default": "D", "falsy": "F"}.get(k)
        if k == "default" and "dflt" in route:
            r = "C:" + hx(route["dflt"])
        elif k == "raw":
            r = "R:" + fmt_segs(route.get("segs") or [])
        elif k == "text":
            r = "T:" + hx(route["text"]) if route["text"] else "F"
        elif k == "list":
            r = "L:" + hx(route["json"])
        return r + " " + send

    @staticmethod
    def line_req(req, frag=True):
        def one(op):
            k = op[0]
            if k == "r":
                return "%s.%d.%d.%d" % ("rf" if frag else "r", op[1], op[2], op[3])
            if k == "w":
                return "w.%d.%d.%s" % (op[1], op[2], fmt_nats(op[3]))
            if k == "g":
                return "g.%d" % op[1]
            if k == "s":
                return "s.%d.%s" % (op[1], fmt_nats(op[2]))
            if k == "u":
                return "uf" if frag else "u"
            return k
        return ("M:" if req["multi"] else "S:") + ";".join(one(op) for op in req["ops"])

    # -------------------------------------------------------------------------------------------
    def impl(self, c):
        L = Live.load()
        op = c["op"]
        if op == "int":
            try:
                return str(int(c["text"]))
            except ValueError:
                return "reject"
        if op == "ip":
            import ipaddress
            try:
                a = L.device.misc.ip(c["text"])
            except ValueError:
                return "reject"
            if str(a) != c["text"] or not isinstance(a, ipaddress.IPv4Address):
                return "other:" + str(a)
            return "ok"
        if op == "json":
            try:
                v = json.loads(c["text"])
            except ValueError:
                return "reject"
            return self.dump_json(v)
        if op == "pl":
            try:
                d = L.device.port_link(c["text"])
            except Exception:
                return "reject"
            return self.show_segs([d])
        if op == "parse":
            rec = []

            def recorder(trs):
                rec.extend(trs)
                return []
            try:
                rps = L.device.parse_route_path(c["text"], trailer_parser=recorder)
            except Exception:
                return "reject"
            if rps is None or rps is False or rps == 0 and not isinstance(rps, list):
                return "falsy:" + repr(rps)
            return "ok %s T %s" % (self.show_segs(rps), self.show_trailer(rec))
        if op == "main":
            try:
                U = main_config(L, c["text"], c["simple"])
            except CfgReject:
                return "reject"
            return self.show_cfg(U)
        if op == "srv":
            return self.impl_srv(L, c)
        if op == "sess":
            return self.impl_sess(L, c)
        raise ValueError(op)

    @staticmethod
    def dump_json(v):
        if v is None:
            return "n"
        if v is True:
            return "t"
        if v is False:
            return "f"
        if isinstance(v, int):
            return "i%d" % v
        if isinstance(v, float):
            return "F"
        if isinstance(v, str):
            return "s" + hx(v)
        if isinstance(v, list):
            return "L(" + ",".join(C15.dump_json(x) for x in v) + ")"
        if isinstance(v, dict):
            return "D(" + ",".join(hx(k) + "=" + C15.dump_json(x) for k, x in v.items()) + ")"
        return "?" + type(v).__name__

    @staticmethod
    def show_segs(rps):
        out = []
        for d in rps:
            if not isinstance(d, dict) or set(d) != {"port", "link"} or type(d["port"]) is not int \
                    or type(d["link"]) not in (int, str):
                out.append("?" + repr(d))
                continue
            out.append("%d:%s" % (d["port"], "a" + hx(d["link"]) if isinstance(d["link"], str) else "n%d" % d["link"]))
        return ",".join(out) if out else "-"

    @staticmethod
    def show_trailer(trs):
        out = []
        for t in trs:
            if isinstance(t, str):
                out.append("s" + hx(t))
            else:
                out.append({type(None): "jnull", bool: "jbool", int: "jint", float: "jfloat", list: "jlist",
                            dict: "jdict"}.get(type(t), "?" + type(t).__name__))
        return ",".join(out) if out else "-"

    @staticmethod
    def show_cfg(U):
        if U is None:
            return "any"
        rp = U.route_path
        if rp is None:
            return "any"
        if isinstance(rp, list):
            return "path " + C15.show_segs(rp)
        if not rp:
            return "falsy"
        return "?" + repr(rp)

    def serve_one(self, L, U, tags, raw):
        data = parse_frame(L, raw)
        kw = {"UCMM_class": U} if U is not None else {}
        data2 = L.dotdict()
        data2.request = data.request
        ok = L.logix.process(ADDR, data=data2, tags=tags, **kw)
        return ok, data2

    def impl_srv(self, L, c):
        L.device.lookup_reset()
        L.logix.setup_reset()
        set_file_config(L, None)
        try:
            U = with_routes(L, configure(L, c["cfg"]), c.get("routes"))
        except CfgReject:
            return "cfg-reject"
        try:
            raw = build_frame(L, c["route"], c["send"], c["req"], c.get("frag", True))
        except BuildReject:
            return "build-reject"
        tags = make_tags(L, c["tags"])
        try:
            ok, data = self.serve_one(L, U, tags, raw)
        except Exception as exc:
            return "raise:%s %s" % (type(exc).__name__, fmt_dev(L, tags))
        rsp = data.response
        status = rsp.enip.status
        has = "input" in rsp.enip and len(rsp.enip.input) > 0
        payload = payload_of(c["req"], rsp) if has else "-"
        return "%d %d %s %s" % (1 if ok else 0, status, payload, fmt_dev(L, tags))

    def impl_sess(self, L, c):
        L.device.lookup_reset()
        L.logix.setup_reset()
        set_file_config(L, None)
        try:
            U = with_routes(L, configure(L, c["cfg"]), c.get("routes"))
        except CfgReject:
            return "cfg-reject"
        try:
            raws = [build_frame(L, f["route"], f["send"], f["req"]) for f in c["frames"]]
        except BuildReject:
            return "build-reject"
        tags = make_tags(L, c["tags"])
        stream = b"".join(raws)
        if c["chunk"] == "one":
            chunks = [stream]
        elif c["chunk"] == "each":
            chunks = list(raws)
        else:
            cut = max(1, len(stream) // 3)
            chunks = [stream[:cut], stream[cut:2 * cut + 5], stream[2 * cut + 5:]]
        chunks = [ch for ch in chunks if ch] + [b""]
        m = L.enipmain
        it = iter(chunks)
        saved = m.network.recv
        m.network.recv = lambda conn, maxlen=None, timeout=None: next(it, b"")
        conn = FakeConn()
        kw = {"UCMM_class": U} if U is not None else {}
        ctl = L.dotdict()
        ctl.control = {"latency": 0.0, "done": False, "disable": False}
        err = ""
        try:
            m.enip_srv_tcp(conn, ("127.0.0.9", 9), "c15", L.logix.process, server=ctl, tags=tags, **kw)
        except Exception as exc:
            err = " raise:" + type(exc).__name__
        finally:
            m.network.recv = saved
        # replies: decode what was sent back, the way client.__next__ does
        reps = []
        for i, rpy in enumerate(conn.out):
            if i >= len(c["frames"]):
                reps.append("extra")
                break
            d = decode_reply(L, rpy)
            st = d.enip.status
            if st != 0 or not d.enip.get("input"):
                reps.append("%d=-" % st)
            else:
                reps.append("%d=%s" % (st, payload_of(c["frames"][i]["req"], d)))
        return "n=%d %s %s%s" % (len(conn.out), " ".join(reps), fmt_dev(L, tags), err)

    # -------------------------------------------------------------------------------------------
    def oracle(self, c, out):
        if out.startswith("harness-exception"):
            return out
        op = c["op"]
        if op in ("int", "ip", "json"):
            return None                      # modelled library primitives: the correspondence is the check
        if op in ("parse", "pl"):
            sp = c.get("spelled")
            if sp is not None:
                want = ("ok %s T -" % fmt_segs(sp)) if op == "parse" else fmt_segs(sp)
                if out != want:
                    return "text %r spells %s but parsed as %s" % (c["text"], fmt_segs(sp), out)
            elif out.startswith("ok ") and "?" in out:
                return "malformed result " + out
            elif op == "parse" and out.startswith("ok ") and out.endswith(" T -"):
                return self.accounts_for(c["text"], out[3:-4])
            elif op == "pl" and out != "reject":
                return self.accounts_for(c["text"], out, single=True)
            return None
        if op == "main":
            sp = c.get("spelled")
            if sp is not None and out != ("path " + fmt_segs(sp)):
                return "main(--route-path=%r) configured %s, spelled %s" % (c["text"], out, fmt_segs(sp))
            if c["text"] is None and out != ("falsy" if c["simple"] else "any"):
                return "main(simple=%s) configured %s" % (c["simple"], out)
            return None
        if op == "srv":
            return self.oracle_srv(c, out)
        if op == "sess":
            return self.oracle_sess(c, out)

    @staticmethod
    def accounts_for(text, segs, single=False):
        """an accepted text that is not JSON must spell the segments it was parsed to, component by component,
        with nothing left over (a trailing '/' is tolerated); ports are CIP port numbers (>= 1)"""
        segs = [] if segs == "-" else segs.split(",")
        for sg in segs:
            if int(sg.split(":")[0]) < 1:
                return "text %r parsed to a segment with port %s" % (text, sg.split(":")[0])
        t = text.strip()
        if t[:1] in ('[', '{', '"') or not segs:
            return None
        comps = t.split("/", 1) if single else t.split("/")
        if len(comps) < 2 * len(segs) or [x for x in comps[2 * len(segs):] if x] or len(comps) > 2 * len(segs) + 1:
            return "text %r has %d components but parsed to %d segments" % (text, len(comps), len(segs))
        for i, sg in enumerate(segs):
            p, l = sg.split(":")
            try:
                if int(comps[2 * i]) != int(p):
                    return "component %r parsed as port %s" % (comps[2 * i], p)
            except ValueError:
                return "component %r parsed as port %s" % (comps[2 * i], p)
            lc = comps[2 * i + 1]
            if l[0] == "n":
                try:
                    if int(lc) != int(l[1:]):
                        return "component %r parsed as link %s" % (lc, l[1:])
                except ValueError:
                    return "component %r parsed as link %s" % (lc, l[1:])
            elif hx(lc.strip()) != l[1:]:
                return "component %r parsed as link address %s" % (lc, l[1:])
        return None

    def oracle_srv(self, c, out):
        if out.startswith("raise:"):
            return "request processing raised: " + out
        pers = spelled_personality(c["cfg"])
        carried = spelled_route(c["route"], c["send"])
        if out == "cfg-reject":
            return "a spelled personality could not be configured" if pers is not None else None
        if out == "build-reject":
            return None
        parts = out.split(" ")
        if len(parts) != 5:
            return "unreadable outcome " + out
        _ok, status, payload, tags, log = parts
        tags0 = self.line_tags(c["tags"])
        refused = status != "0"
        if refused and (payload != "-" or tags != tags0 or log != "-"):
            return "error status %s but payload=%s tags=%s accesses=%s" % (status, payload, tags, log)
        if c["send"].startswith("O"):
            # not a question of route paths: only a Connection Manager can take an Unconnected Send
            return None if refused else "an Unconnected Send addressed to %s was executed" % c["send"]
        if pers is None or carried is None:
            return None
        hit = table_hit(c.get("routes"), carried)
        if hit is None:
            return None
        if hit:
            # the first hop is in the routing table: the request is for another device (forwarding is outside
            # the property), so nothing may happen to this device's tags
            if tags != tags0 or log != "-":
                return "a request routed to another device touched local tags: %s %s" % (tags, log)
            return None
        want = want_accept(pers, carried)
        ref = ref_exec(c["tags"], c["req"]["ops"])
        if bare_frag(carried, c["req"], c.get("frag", True)):
            ref = None            # service 0x52 without the wrapper is read as an Unconnected Send (parser.py)
        if not want:
            if not refused:
                return "personality %s accepted a request carrying route path %s" % (pers, carried)
            return None
        if ref is None:           # the frame itself is garbled (bare 0x52): an error status either way
            return None
        if refused:
            return "personality %s refused a request carrying route path %s" % (pers, carried)
        rtags, rres, racc = ref
        if tags != self.line_tags(rtags):
            return "accepted request left tags %s, expected %s" % (tags, self.line_tags(rtags))
        if log != (",".join(racc) if racc else "-"):
            return "accepted request accessed %s, expected %s" % (log, racc)
        got = payload.split(";")
        if len(got) != len(rres):
            return "reply carries %d results for %d requests" % (len(got), len(rres))
        for g, w in zip(got, rres):
            if w == "nz":
                if g != "nz:-":
                    return "out-of-range request answered with %s" % g
            elif g != w:
                return "reply %s, expected %s" % (g, w)
        return None

    def oracle_sess(self, c, out):
        if "raise:" in out:
            return "session raised: " + out
        if out in ("cfg-reject", "build-reject"):
            return None
        pers = spelled_personality(c["cfg"])
        if pers is None:
            return None
        m = re.match(r"n=(\d+) (.*) (\S+) (\S+)$", out)
        if not m:
            return "unreadable outcome " + out
        n, reps, tags, log = int(m.group(1)), m.group(2).split(" "), m.group(3), m.group(4)
        cur = [list(t) for t in c["tags"]]
        acc = []
        expect = 0
        for f in c["frames"]:
            carried = spelled_route(f["route"], f["send"])
            if carried is None:
                return None
            hit = table_hit(c.get("routes"), carried)
            if hit is None:
                return None
            if f["send"].startswith("O") or hit:        # refused / forwarded to a dead target: the session ends
                expect += 1
                break
            expect += 1
            if not want_accept(pers, carried):
                break
            ref = ref_exec(cur, f["req"]["ops"])
            if ref is None or bare_frag(carried, f["req"], True):
                break
            cur, _res, a = ref
            acc += a
        if n != expect:
            return "session produced %d replies, expected %d (a refusal ends the session)" % (n, expect)
        if tags != self.line_tags(cur):
            return "session left tags %s, expected %s" % (tags, self.line_tags(cur))
        if log != (",".join(acc) if acc else "-"):
            return "session accessed %s, expected %s" % (log, acc)
        return None

    # -------------------------------------------------------------------------------------------
    def relation(self, c):
        """how the request's route path relates to the configured one (for the histogram)"""
        pers = spelled_personality(c["cfg"])
        carried = spelled_route(c["route"], c["send"])
        if c["send"].startswith("O"):
            return "notcm"
        if c.get("routes") and carried is not None and table_hit(c["routes"], carried) is not False:
            return "tablehit"
        if pers is None:
            return "cfg?"
        if carried is None:
            return pers[0] + ":route?"
        if carried == "absent":
            return pers[0] + ":absent"
        if carried == []:
            return pers[0] + ":empty"
        if pers[0] != "path":
            return pers[0] + ":nonempty"
        cfg = [list(s) for s in pers[1]]
        car = [list(s) for s in carried]
        if car == cfg:
            return "path:equal"
        if len(car) != len(cfg):
            return "path:length"
        kinds = set()
        for a, b in zip(car, cfg):
            if a[0] == "o":
                kinds.add("foreign")
            elif a[0] != b[0]:
                kinds.add("port")
            elif type(a[1]) is not type(b[1]):
                kinds.add("linkkind")
            elif a[1] != b[1]:
                kinds.add("link")
        return "path:" + "+".join(sorted(kinds))

    def classify(self, c, out):
        op = c["op"]
        if op in ("int", "ip", "json", "pl"):
            return "%s:%s" % (op, "reject" if out == "reject" else "ok")
        if op == "parse":
            res = "reject" if out == "reject" else ("trailer" if not out.endswith(" T -") else "segs")
            return "parse:%s:%s" % (c.get("form", "?"), res)
        if op == "main":
            return "main:" + out.split(" ")[0]
        if op == "srv":
            svc = "multi" if c["req"]["multi"] else c["req"]["ops"][0][0]
            res = out.split(" ")[1] if out[0] in "01" else out.split(" ")[0]
            return "srv%s:%s:%s:st%s" % ("+table" if c.get("routes") else "", self.relation(c), svc, res)
        if op == "sess":
            return "sess%s:%s" % ("+table" if c.get("routes") else "", out.split(" ")[0])
        return op

    def nontrivial(self, c, out):
        op = c["op"]
        key = json.dumps(c, sort_keys=True)
        if op == "srv":
            rel = self.relation(c)
            if rel.startswith("path:") and rel not in ("path:absent", "path:empty"):
                return key
            if rel in ("simple:nonempty",):
                return key
            return None
        if op == "sess":
            return key if len(c["frames"]) > 1 else None
        if op in ("parse", "main", "pl"):
            if out.startswith("ok ") and not out.startswith("ok - T -"):
                return key
            if out.startswith("path ") and out != "path -":
                return key
            if op == "pl" and out != "reject":
                return key
            return None
        if op == "int":
            return key if out != "reject" and len(c["text"]) > 1 else None
        if op == "ip":
            return key if out == "ok" else None
        if op == "json":
            return key if out != "reject" and out[0] in "LD" else None
        return None

    # -------------------------------------------------------------------------------------------
    def shrink(self, c):
        op = c["op"]
        if op in ("int", "ip", "json", "pl", "parse", "main") and c.get("text"):
            t = c["text"]
            if c.get("spelled") is None:
                for i in range(len(t)):
                    yield {**c, "text": t[:i] + t[i + 1:]}
        if op == "srv":
            ops = c["req"]["ops"]
            if len(ops) > 1:
                for i in range(len(ops)):
                    yield {**c, "req": {"multi": True, "ops": ops[:i] + ops[i + 1:]}}
            r = c["route"]
            if r["kind"] == "raw" and len(r.get("segs") or []) > 1:
                for i in range(len(r["segs"])):
                    yield {**c, "route": {**r, "segs": r["segs"][:i] + r["segs"][i + 1:]}}
        if op == "sess":
            fr = c["frames"]
            if len(fr) > 1:
                for i in range(len(fr)):
                    yield {**c, "frames": fr[:i] + fr[i + 1:]}
            if c["chunk"] != "one":
                yield {**c, "chunk": "one"}
