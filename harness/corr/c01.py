"""C01: wire codec round trip over the EtherNet/IP CIP grammar -- cpppo's produce/parsers vs Cpppo.Codec (Lean)."""
import json
import logging
import struct

from framework import Suite
from corr.logix_common import encode_vals, CODE2NAME, TYPES, SIZES, RANGES

NUM_TYPES = ["BOOL", "SINT", "INT", "DINT", "LINT", "USINT", "UINT", "UDINT", "ULINT", "REAL", "LREAL"]


def hx(b):
    b = bytes(b)
    return b.hex() if b else "-"


def nl(l):
    return ",".join(str(int(x)) for x in l) if len(l) else "-"


class Env:
    """lazily built real objects"""
    ready = False

    @classmethod
    def get(cls):
        if not cls.ready:
            import cpppo
            from cpppo.server.enip import device, logix, parser
            logging.disable(logging.CRITICAL)
            device.lookup_reset()
            logix.setup_reset()
            cls.ucmm = logix.setup()
            cls.cpppo, cls.device, cls.logix, cls.parser = cpppo, device, logix, parser
            cls.router = device.lookup(2, 1)
            cls.cm = device.lookup(6, 1)
            cls.ready = True
        return cls


def plain(x):
    """dotdict tree -> plain dict/list tree (JSON-serialisable), without dotdict's key flattening"""
    if isinstance(x, dict):
        return {k: plain(v) for k, v in dict.items(x)}
    if isinstance(x, (bytes, bytearray)):
        return {"__bytes__": bytes(x).hex()}
    if isinstance(x, (list, tuple)):
        return [plain(v) for v in x]
    return x


def dd(x=None):
    return Env.get().cpppo.dotdict(x or {})


# ---------------------------------------------------------------------------------------------------
# generators (cpppo-style dotdicts, fields at their boundaries)
# ---------------------------------------------------------------------------------------------------
def g_int(rng, bits):
    top = (1 << bits) - 1
    return rng.choice([0, 1, top, top - 1, top // 2, top // 2 + 1, 0xff, 0x100, 0xffff, 0x10000, rng.randint(0, top)]) & top


def g_name(rng, lo=1, hi=12):
    n = rng.choice([lo, lo + 1, 2, 3, 5, 8, hi, rng.randint(lo, hi)])
    return "".join(rng.choice("AbcXYZ_09.:[]\xe9\xff ") for _ in range(max(n, lo)))


def g_seg(rng, kinds=("class", "instance", "attribute", "element", "connection", "symbolic", "port")):
    k = rng.choice(kinds)
    if k == "symbolic":
        return dd({"symbolic": g_name(rng, 1, 40)})
    if k == "port":
        port = rng.choice([1, 2, 14, 15, 16, 255, 256, 65535, rng.randint(1, 65535)])
        if rng.random() < 0.5:
            return dd({"port": port, "link": rng.choice([0, 1, 255, rng.randint(0, 255)])})
        return dd({"port": port, "link": rng.choice(["1.2.3.4", "10.0.0.1", "a", "ab", g_name(rng, 1, 20)])})
    if k == "element":
        return dd({k: rng.choice([0, 1, 255, 256, 65535, 65536, 0xffffffff, g_int(rng, 32)])})
    return dd({k: rng.choice([0, 1, 255, 256, 65535, g_int(rng, 16)])})


def g_path(rng, n=None, kinds=None):
    n = rng.choice([0, 1, 1, 2, 3, 4, 6]) if n is None else n
    p = dd()
    p.segment = [g_seg(rng, kinds) if kinds else g_seg(rng) for _ in range(n)]
    return p


def g_status(rng, zero_ok=True):
    st = rng.choice([0, 0, 5, 6, 8, 0x16, 0xff, 1, g_int(rng, 8)] if zero_ok else [5, 8, 0xff, 1, 0x10])
    d = {"status": st}
    if st and rng.random() < 0.6:
        ext = [g_int(rng, 16) for _ in range(rng.choice([0, 1, 1, 2, 3]))]
        d["status_ext"] = {"size": len(ext), "data": ext}
    return d


def g_vals(rng, ty, n):
    out = []
    for _ in range(n):
        if ty == "BOOL":
            out.append(rng.random() < 0.5)
        elif ty == "REAL":
            out.append(struct.unpack("<f", struct.pack("<f", rng.choice([0.0, 1.5, -2.25, 1e10, 3.0e-5, rng.uniform(-1e6, 1e6)])))[0])
        elif ty == "LREAL":
            out.append(rng.choice([0.0, 1.5, -2.25, 1e300, 3.0e-50, rng.uniform(-1e12, 1e12)]))
        elif ty in ("SSTRING", "STRING"):
            out.append(g_name(rng, 0, 9) if rng.random() < 0.8 else "")
        else:
            lo, hi = RANGES[ty]
            out.append(rng.choice([lo, hi, 0, 1, rng.randint(lo, hi)]))
    return out


def g_typed(rng):
    if rng.random() < 0.12:      # a UDT: STRUCT type, structure handle, opaque record bytes
        raw = bytearray(g_int(rng, 8) for _ in range(rng.choice([1, 2, 4, 7, 16])))
        return {"type": 0x2a0, "structure_tag": rng.choice([1, 0x1234, 0xffff, g_int(rng, 16) or 1]),
                "data": dd({"input": raw})}
    ty = rng.choice(list(TYPES))
    return {"type": TYPES[ty], "data": g_vals(rng, ty, rng.choice([1, 1, 2, 3, 7]))}


def g_service(rng, allow_multiple=True):
    """-> (obj 'router'|'cm', dotdict)"""
    k = rng.choice(["rt", "rf", "wt", "wf", "rtr", "rfr", "wtr", "wfr", "gaa", "gas", "gal", "sas", "gaar", "gasr",
                    "sasr", "unk", "mu", "mur", "fo", "fol", "fop", "for", "forf", "fc", "fcr"])
    if k in ("mu", "mur") and not allow_multiple:
        k = "rt"
    d = dd()
    if k in ("rt", "rf", "wt", "wf", "gaa", "gas", "gal", "sas", "mu", "fo", "fol", "fop", "fc"):
        d.path = g_path(rng)
    if k == "rt":
        d.read_tag = {"elements": g_int(rng, 16)}
    elif k == "rf":
        d.read_frag = {"elements": g_int(rng, 16), "offset": g_int(rng, 32)}
    elif k == "wt":
        d.write_tag = dict(g_typed(rng), elements=g_int(rng, 16))
    elif k == "wf":
        d.write_frag = dict(g_typed(rng), elements=g_int(rng, 16), offset=g_int(rng, 32))
    elif k in ("rtr", "rfr"):
        ctx = "read_tag" if k == "rtr" else "read_frag"
        d.service = 0xcc if k == "rtr" else 0xd2
        st = rng.choice([0, 0, 6, None])
        if st is None:
            d.update(g_status(rng, zero_ok=False))
            if d.status == 6:
                d.status = 5
        else:
            d.status = st
            d[ctx] = g_typed(rng)
    elif k in ("wtr", "wfr"):
        d.service = 0xcd if k == "wtr" else 0xd3
        d.update(g_status(rng))
    elif k == "gaa":
        d.get_attributes_all = True
    elif k == "gas":
        d.get_attribute_single = True
    elif k == "gal":
        d.get_attribute_list = [g_int(rng, 16) for _ in range(rng.choice([1, 1, 2, 5]))]
    elif k == "sas":
        d.set_attribute_single = {"data": [g_int(rng, 8) for _ in range(rng.choice([1, 2, 4, 9]))]}
    elif k in ("gaar", "gasr"):
        ctx = "get_attributes_all" if k == "gaar" else "get_attribute_single"
        d.service = 0x81 if k == "gaar" else 0x8e
        d.update(g_status(rng))
        if d.status == 0:
            d[ctx] = {"data": [g_int(rng, 8) for _ in range(rng.choice([1, 2, 4, 9]))]}
    elif k == "sasr":
        d.service = 0x90
        d.update(g_status(rng))
    elif k == "unk":
        d.service = rng.choice([0x99, 0xa5, 0xff, 0x80, 0xb3])
        d.update(g_status(rng))
    elif k == "mu":
        d.multiple = dd()
        d.multiple.request = [g_member(rng, request=True) for _ in range(rng.choice([1, 2, 3, 6]))]
    elif k == "mur":
        d.service = 0x8a
        if rng.random() < 0.8:
            d.status = 0
            d.multiple = dd()
            d.multiple.request = [g_member(rng, request=False) for _ in range(rng.choice([1, 2, 3, 6]))]
        else:
            d.update(g_status(rng, zero_ok=False))
            if d.status == 0x1e:
                d.status = 8
    elif k in ("fo", "fol"):
        large = k == "fol"
        fo = dd({"priority_time_tick": g_int(rng, 8), "timeout_ticks": g_int(rng, 8), "connection_serial": g_int(rng, 16),
                 "O_vendor": g_int(rng, 16), "O_serial": g_int(rng, 32), "connection_timeout_multiplier": g_int(rng, 8),
                 "transport_class_triggers": g_int(rng, 8)})
        for side in ("O_T", "T_O"):
            # canonical Network Connection Parameters: reserved bits clear, size >= 1
            if large:
                ncp = g_int(rng, 32) & ~0x11ff0000
                if ncp & 0xffff == 0:
                    ncp |= rng.choice([1, 4000, 0xffff])
            else:
                ncp = g_int(rng, 16) & ~0x1000
                if ncp & 0x1ff == 0:
                    ncp |= rng.choice([1, 500, 0x1ff])
            fo[side] = dd({"connection_ID": g_int(rng, 32), "RPI": g_int(rng, 32), "NCP": ncp, "large": large})
        fo.connection_path = g_path(rng)
        d.forward_open = fo
        return "cm", d
    elif k == "fop":
        # a Forward Open described by connection parameters (size, type, priority, ...) instead of NCP words, the two
        # directions sized independently: a single direction > 511 bytes forces the Large form for both
        fo = dd({"priority_time_tick": g_int(rng, 8), "timeout_ticks": g_int(rng, 8), "connection_serial": g_int(rng, 16),
                 "O_vendor": g_int(rng, 16), "O_serial": g_int(rng, 32), "connection_timeout_multiplier": g_int(rng, 8),
                 "transport_class_triggers": g_int(rng, 8)})
        for side in ("O_T", "T_O"):
            size = rng.choice([1, 2, 100, 510, 511, 512, 513, 4000, 0xffff, rng.randrange(1, 512), rng.randrange(512, 65536)])
            fo[side] = dd({"connection_ID": g_int(rng, 32), "RPI": g_int(rng, 32), "size": size,
                           "variable": rng.randrange(2), "priority": rng.randrange(4), "type": rng.randrange(4),
                           "redundant": rng.randrange(2)})
        fo.connection_path = g_path(rng)
        d.forward_open = fo
        return "cm", d
    elif k == "for":
        d.service = rng.choice([0xd4, 0xdb])
        d.status = 0
        fo = dd({"connection_serial": g_int(rng, 16), "O_vendor": g_int(rng, 16), "O_serial": g_int(rng, 32)})
        fo.O_T = dd({"connection_ID": g_int(rng, 32), "API": g_int(rng, 32)})
        fo.T_O = dd({"connection_ID": g_int(rng, 32), "API": g_int(rng, 32)})
        if rng.random() < 0.4:
            fo.application = dd({"data": [g_int(rng, 8) for _ in range(rng.choice([1, 2, 3, 4, 6, 7]))]})
        d.forward_open = fo
        return "cm", d
    elif k == "forf":
        d.service = rng.choice([0xd4, 0xdb])
        d.update(g_status(rng, zero_ok=False))
        fo = dd({"connection_serial": g_int(rng, 16), "O_vendor": g_int(rng, 16), "O_serial": g_int(rng, 32)})
        if rng.random() < 0.5:
            fo.remaining_path_size = g_int(rng, 8)
        d.forward_open = fo
        return "cm", d
    elif k == "fc":
        fc = dd({"priority_time_tick": g_int(rng, 8), "timeout_ticks": g_int(rng, 8), "connection_serial": g_int(rng, 16),
                 "O_vendor": g_int(rng, 16), "O_serial": g_int(rng, 32)})
        fc.connection_path = g_path(rng)
        d.forward_close = fc
        return "cm", d
    elif k == "fcr":
        d.service = 0xce
        d.update(g_status(rng))
        fc = dd({"connection_serial": g_int(rng, 16), "O_vendor": g_int(rng, 16), "O_serial": g_int(rng, 32)})
        if rng.random() < 0.4:
            fc.application = dd({"data": [g_int(rng, 8) for _ in range(rng.choice([1, 2, 3, 4, 5, 8]))]})
        d.forward_close = fc
        return "cm", d
    return "router", d


def g_member(rng, request):
    while True:
        obj, d = g_service(rng, allow_multiple=False)
        if obj != "router":
            continue
        is_req = "service" not in d
        if is_req == request:
            return d


class GenProduceError(Exception):
    """cpppo could not produce a message the generator needed as a payload: the message itself becomes the case"""

    def __init__(self, obj, inner):
        Exception.__init__(self, "produce failed")
        self.obj, self.inner = obj, inner


def produce_or_raise(obj_name, o, inner):
    import copy
    keep = copy.deepcopy(inner)
    try:
        return bytearray(o.produce(inner))
    except Exception:
        raise GenProduceError(obj_name, keep)


def g_usend(rng):
    k = rng.random()
    us = dd()
    if k < 0.6:
        us.service = 0x52
        us.path = g_path(rng, n=rng.choice([0, 2, 2, 3]), kinds=("class", "instance", "attribute", "connection"))
        us.priority = g_int(rng, 8)
        us.timeout_ticks = g_int(rng, 8)
        _obj, inner = g_service(rng)
        env = Env.get()
        o = env.router if _obj == "router" else env.cm
        us.request = dd()
        us.request.input = produce_or_raise(_obj, o, inner)
        if rng.random() < 0.2:
            us.request.input = bytearray(g_int(rng, 8) for _ in range(rng.choice([1, 2, 3, 7])))
        elif rng.random() < 0.03:
            # an embedded message whose length needs all 16 bits of the length word
            us.request.input = bytearray(rng.randrange(256) for _ in range(rng.choice([0x7fff, 0x8000, 0x8001, 40000])))
        us.route_path = g_path(rng, n=rng.choice([0, 1, 1, 2]), kinds=("port",))
    elif k < 0.75:
        us.service = 0xd2
        us.status = rng.choice([1, 2, 4, 5, 8, 15])
    else:
        # passed through unparsed.  0x52 / 0xD2 first bytes are the wrapper's own codes: a 0xD2 payload is taken for the
        # wrapper's error reply when it has at most 6 bytes, a status < 0x10 and no extended status (the ambiguity the
        # code documents); every other reply starting with 0xD2 - e.g. a Read Tag Fragmented reply carrying a single
        # one-byte element (7 bytes) - must come through untouched
        while True:
            if rng.random() < 0.3:
                if rng.random() < 0.6:
                    inner = dd({"service": 0xd2, "status": rng.choice([0, 0, 6]), "read_frag": dd(
                        {"type": rng.choice([0xc1, 0xc2, 0xc6, 0xc3]), "data": [rng.randrange(2)] * rng.choice([1, 1, 2])})})
                else:
                    # a bare failure reply: general status at and around 0x10, with or without extended status
                    inner = dd({"service": 0xd2, "status": rng.choice([0x10, 0x10, 0x11, 0x0f, 0x1f, 0xff]), "read_frag": True})
                    if rng.random() < 0.3:
                        inner.status_ext = {"size": 1, "data": [g_int(rng, 16)]}
                _obj = "router"
            else:
                _obj, inner = g_service(rng)
            env = Env.get()
            o = env.router if _obj == "router" else env.cm
            raw = produce_or_raise(_obj, o, inner)
            if raw[0] == 0x52:
                continue
            if raw[0] == 0xd2 and len(raw) >= 4 and len(raw) <= 6 and raw[2] < 0x10 and raw[3] == 0:
                continue
            break
        us.request = dd()
        us.request.input = raw
    return us


def g_item(rng):
    it = dd()
    k = rng.choice(["null", "usend", "usend", "connid", "conndata", "raw", "commsvc", "identity", "legacy"])
    if k == "null":
        it.type_id = 0
    elif k == "usend":
        it.type_id = 0xb2
        it.unconnected_send = g_usend(rng)
    elif k == "connid":
        it.type_id = 0xa1
        it.connection_ID = dd({"connection": g_int(rng, 32)})
    elif k == "conndata":
        it.type_id = 0xb1
        _obj, inner = g_service(rng)
        env = Env.get()
        o = env.router if _obj == "router" else env.cm
        it.connection_data = dd({"sequence": g_int(rng, 16)})
        it.connection_data.request = dd()
        it.connection_data.request.input = produce_or_raise(_obj, o, inner)
    elif k == "raw":
        it.type_id = rng.choice([0x8000, 0x8002, 0x91, 0x55])
        if rng.random() < 0.7:
            it.input = bytearray(g_int(rng, 8) for _ in range(rng.choice([1, 2, 5, 16])))
    elif k == "commsvc":
        it.type_id = 0x100
        it.communications_service = dd({"version": g_int(rng, 16), "capability": g_int(rng, 16),
                                        "service_name": g_name(rng, 1, 16).replace("\x00", "x")})
    elif k == "identity":
        it.type_id = 0x0c
        io = dd({"version": g_int(rng, 16), "sin_family": rng.choice([2, 0, 1, 32767]), "sin_port": g_int(rng, 16),
                 "sin_addr": ".".join(str(rng.choice([0, 1, 10, 192, 255])) for _ in range(4)),
                 "vendor_id": g_int(rng, 16), "device_type": g_int(rng, 16), "product_code": g_int(rng, 16),
                 "product_revision": g_int(rng, 16), "status_word": g_int(rng, 16), "serial_number": g_int(rng, 32),
                 "product_name": g_name(rng, 0, 30), "state": g_int(rng, 8)})
        it.identity_object = io
    elif k == "legacy":
        it.type_id = 0x01
        a = ".".join(str(rng.choice([0, 1, 10, 192, 255, 100])) for _ in range(4))
        it.legacy_CPF_0x0001 = dd({"version": g_int(rng, 16), "unknown_1": g_int(rng, 16), "sin_family": 2,
                                   "sin_port": g_int(rng, 16), "sin_addr": a, "ip_address": a})
    return it


def g_cpf(rng, n=None):
    cpf = dd()
    n = rng.choice([0, 1, 2, 2, 3, 4]) if n is None else n
    items = [g_item(rng) for _ in range(n)]
    cpf.item = items
    return cpf


def g_message(rng):
    enip = dd()
    enip.session_handle = g_int(rng, 32)
    enip.status = rng.choice([0, 0, 0, 8, 0x65, g_int(rng, 32)])
    enip.options = rng.choice([0, 0, g_int(rng, 32)])
    enip.sender_context = dd()
    enip.sender_context.input = bytearray(g_int(rng, 8) for _ in range(8))
    k = rng.choice(["reg", "unreg", "rr", "rr", "rr", "unit", "lsv", "lid", "lif", "legacy", "lsv0", "lid0"])
    enip.CIP = dd()
    if k == "reg":
        enip.command = 0x65
        enip.CIP.register = dd({"protocol_version": g_int(rng, 16), "options": g_int(rng, 16)})
    elif k == "unreg":
        enip.command = 0x66
        enip.CIP.unregister = True
    elif k in ("rr", "unit"):
        enip.command = 0x6f if k == "rr" else 0x70
        enip.CIP.send_data = dd({"interface": g_int(rng, 32), "timeout": g_int(rng, 16)})
        enip.CIP.send_data.CPF = g_cpf(rng)
    else:
        name = {"lsv": "list_services", "lsv0": "list_services", "lid": "list_identity", "lid0": "list_identity",
                "lif": "list_interfaces", "legacy": "legacy"}[k]
        enip.command = {"list_services": 4, "list_identity": 0x63, "list_interfaces": 0x64, "legacy": 1}[name]
        enip.CIP[name] = dd()
        if not k.endswith("0"):
            enip.CIP[name].CPF = g_cpf(rng, n=rng.choice([1, 1, 2]))
    return enip


# ---------------------------------------------------------------------------------------------------
# canonical field rendering of a cpppo parse result (names as the Lean driver prints them)
# ---------------------------------------------------------------------------------------------------
def enc_typed(tcode, vals):
    """independent re-encoding of parsed typed data (struct / tables, not cpppo)"""
    ty = CODE2NAME.get(tcode)
    out = b""
    for v in vals:
        if ty == "BOOL":
            out += b"\xff" if v else b"\x00"
        elif ty == "REAL":
            out += struct.pack("<f", v)
        elif ty == "LREAL":
            out += struct.pack("<d", v)
        elif ty in ("SSTRING", "STRING"):
            out += encode_vals(ty, [v])
        else:
            out += (int(v) % (1 << (8 * SIZES[ty]))).to_bytes(SIZES[ty], "little")
    return out


def render_fields(data, svc_level=True):
    items = dict(data.items())
    out = {}
    svc = items.get("service")
    for k, v in items.items():
        leaf = k.rsplit(".", 1)[-1]
        if k.startswith("multiple.request[") and not k.endswith("].input"):
            continue
        if leaf in ("request_data", "segment", "item") or k == "input":
            continue          # (an empty path parses to segment == [])
        if isinstance(v, dict) and not v:
            continue
        if isinstance(v, bool) and leaf not in ("large",):
            continue          # markers such as read_tag=True
        if k.endswith(".data.input") and items.get(k[:-len(".data.input")] + ".type") == 0x2a0:
            out[k[:-len(".input")]] = hx(bytes(bytearray(v)))      # UDT record bytes
        elif leaf == "data" and k.rsplit(".", 1)[0] + ".type" in items:
            out[k] = hx(enc_typed(items[k.rsplit(".", 1)[0] + ".type"], v))
        elif leaf == "data" and k.startswith("status_ext"):
            if len(v):
                out[k] = nl(v)
        elif leaf == "data":
            ctx = k.rsplit(".", 1)[0]
            raw = b"".join(int(x).to_bytes(2, "little") for x in v) if svc == 0x83 else bytes(bytearray(v))
            if ctx.endswith("application"):
                # application reply data travels in whole words: an odd count is padded with one zero octet
                out[k] = hx(raw + b"\x00" * (len(raw) % 2))
            elif svc is not None and svc & 0x80:
                out["data"] = hx(raw)
            else:
                out[k] = hx(raw)
        elif leaf == "symbolic":
            out[k] = hx(v.encode("latin-1"))
        elif leaf == "link":
            out[k] = str(v) if isinstance(v, int) else "s" + hx(v.encode("latin-1"))
        elif leaf in ("offsets", "get_attribute_list"):
            out[k] = nl(v)
        elif leaf in ("product_name", "service_name", "ip_address"):
            out[k] = hx(v.encode("latin-1"))
        elif isinstance(v, bool):
            out[k] = "1" if v else "0"
        elif isinstance(v, int):
            out[k] = str(v)
        elif isinstance(v, str):
            out[k] = v
        elif hasattr(v, "__iter__"):
            out[k] = hx(bytes(bytearray(v)))
        else:
            out[k] = str(v)
    if svc is not None and svc_level and svc & 0x80 and svc not in (0xcc, 0xd2, 0xcd, 0xd3, 0x90, 0x8a, 0xd4, 0xdb, 0xce) \
            and "data" not in out:
        out["data"] = "-"
    for side in ("forward_open", "forward_close"):
        if side + ".application.size" in out and side + ".application.data" not in out:
            out[side + ".application.data"] = "-"
    return out


def fields_line(fields):
    return ";".join(f"{k}={fields[k]}" for k in sorted(fields)) if fields else "-"


def parse_with(obj, b):
    env = Env.get()
    data = env.cpppo.dotdict()
    source = env.cpppo.chainable(b)
    with obj.parser as machine:
        for _m, _s in machine.run(source=source, data=data):
            pass
    return data


class C01(Suite):
    id = "C01"
    props_module = "Cpppo.Props.C01"
    rule = ("random messages generated top-down from the grammar with boundary-biased fields (0, 1, 2^k-1, 2^k, max): every "
            "Logix-dialect / Object / Multiple Service / Connection Manager request and reply, EPATHs with 0..6 segments of "
            "every kind and width (symbolic odd/even, port small/extended with numeric/address links), 0..3 extended status "
            "words, all 13 element types of typed data; cpppo produce -> bytes -> cpppo parse -> fields, and the same bytes "
            "-> Lean decode -> fields + Lean re-encode; (fields, bytes) must agree and cpppo produce(parse(bytes)) == bytes. "
            "non-trivial = message with a non-empty path or payload; distinct by produced bytes")
    assumptions = ["UDT/STRUCT contents are opaque bytes; HART/PCCC dialects are outside the property",
                   "Get Attribute List *replies* are compared on parse only: cpppo parses their payload as UINT words and "
                   "re-produces them as USINT bytes (noted in notes/C01.md)"]

    def cases(self, tier, rng):
        n = 2500 if tier == "quick" else 60000
        for _ in range(n):
            obj, d = g_service(rng)
            yield {"kind": "svc", "obj": obj, "msg": plain(d)}
        for _ in range(n // 2):
            try:
                yield {"kind": "msg", "obj": "enip", "msg": plain(g_message(rng))}
            except GenProduceError as exc:
                yield {"kind": "svc", "obj": exc.obj, "msg": plain(exc.inner)}

    # the case carries the generated dotdict as plain JSON; rebuild dotdicts (lists of dotdicts) on use
    @staticmethod
    def rebuild(x):
        env = Env.get()
        if isinstance(x, dict) and "__bytes__" in x:
            return bytearray(bytes.fromhex(x["__bytes__"]))
        if isinstance(x, dict):
            d = env.cpppo.dotdict()
            for k, v in x.items():
                dict.__setitem__(d, k, C01.rebuild(v))
            return d
        if isinstance(x, list):
            return [C01.rebuild(v) for v in x]
        return x

    def produce(self, c):
        env = Env.get()
        if c["kind"] == "msg":
            enip = self.rebuild(c["msg"])
            if enip.command != 0x66:        # Unregister Session has no payload (and no produce method)
                enip.input = bytearray(env.parser.CIP.produce(enip))
            return None, bytes(env.parser.enip_encode(enip))
        obj = env.router if c["obj"] == "router" else env.cm
        d = self.rebuild(c["msg"])
        return obj, bytes(obj.produce(d))

    def impl(self, c):
        if "bytes" not in c:
            try:
                obj, b = self.produce(c)
            except Exception as exc:
                c["bytes"] = ""
                return "produce-failed: cpppo cannot produce this message: %s: %s" % (type(exc).__name__, str(exc)[:80])
            c["bytes"] = b.hex()
        env = Env.get()
        b = bytes.fromhex(c["bytes"])
        if c["kind"] == "msg":
            return self.impl_msg(c, b)
        obj = env.router if c["obj"] == "router" else env.cm
        try:
            parsed = parse_with(obj, b)
        except Exception as exc:
            return "reject"
        fields = render_fields(parsed)
        try:
            again = bytes(obj.produce(parsed))
        except Exception as exc:
            again = b"produce-of-parse-failed"
        c["reproduced"] = again.hex()
        c["edit"] = self.edit_and_reproduce(obj, b)
        return fields_line(fields) + "|" + hx(b)

    EDITABLE = {"elements": 16, "offset": 32, "connection_serial": 16, "O_vendor": 16, "O_serial": 32, "priority_time_tick": 8,
                "timeout_ticks": 8, "RPI": 32, "API": 32}

    def edit_and_reproduce(self, obj, b):
        """parse the bytes, change one plain integer field of the parsed message (of a bundled request, when there is
        one), produce it and parse that again: -> None, or [key, new value, value parsed back] """
        try:
            parsed = parse_with(obj, b)
            keys = [k for k, v in parsed.items() if k.rsplit(".", 1)[-1] in self.EDITABLE and isinstance(v, int)
                    and not isinstance(v, bool)]
            if not keys:
                return None
            inner = [k for k in keys if k.startswith("multiple.request[")]
            key = sorted(inner or keys)[len(b) % len(inner or keys)]
            width = self.EDITABLE[key.rsplit(".", 1)[-1]]
            new = (parsed[key] + 1) % (1 << width)
            if key.endswith(".elements") and new == 0:
                new = 1
            parsed[key] = new
            again = bytes(obj.produce(parsed))
            back = parse_with(obj, again)
            return [key, new, back.get(key)]
        except Exception as exc:
            return ["?", 0, "%s: %s" % (type(exc).__name__, str(exc)[:60])]

    def impl_msg(self, c, b):
        env = Env.get()
        cpppo, parser = env.cpppo, env.parser
        data = cpppo.dotdict()
        source = cpppo.chainable(b)
        try:
            with parser.enip_machine(context="enip") as m:
                for _ in m.run(source=source, data=data):
                    pass
            rest = bytes(bytearray(source))
            src2 = cpppo.rememberable()
            if "input" in data.enip:
                src2.chain(data.enip.input)
            with env.ucmm.parser as machine:
                for _ in machine.run(source=src2, data=data.enip):
                    pass
        except Exception:
            return "reject"
        fields = render_fields(data, svc_level=False)
        fields.pop("enip.input", None)
        try:
            e2 = data.enip
            if e2.command != 0x66:
                e2.input = bytearray(parser.CIP.produce(e2))
            again = bytes(parser.enip_encode(e2))
        except Exception:
            again = b"produce-of-parse-failed"
        c["reproduced"] = again.hex()
        c["edit"] = self.edit_msg_and_reproduce(data) if again != b"produce-of-parse-failed" else None
        return fields_line(fields) + "|" + hx(b) + "|" + hx(rest)

    MSG_EDITABLE = {"priority": 8, "timeout_ticks": 8, "sequence": 16, "connection": 32}

    def edit_msg_and_reproduce(self, data):
        """the parsed frame has just been produced once; now change one plain integer field INSIDE a CPF item
        (Unconnected Send priority / timeout ticks, connected data sequence, connection ID), produce the same
        message object again and parse that: -> None, or [key, new value, value parsed back]"""
        env = Env.get()
        cpppo, parser = env.cpppo, env.parser
        try:
            e2 = data.enip
            keys = sorted(k for k, v in e2.items() if ".CPF.item[" in k and k.rsplit(".", 1)[-1] in self.MSG_EDITABLE
                          and k.rsplit(".", 2)[-2] in ("unconnected_send", "connection_data", "connection_ID")
                          and isinstance(v, int) and not isinstance(v, bool))
            if not keys:
                return None
            key = keys[len(keys) // 2]
            new = (e2[key] + 1) % (1 << self.MSG_EDITABLE[key.rsplit(".", 1)[-1]])
            e2[key] = new
            e2.input = bytearray(parser.CIP.produce(e2))
            again = bytes(parser.enip_encode(e2))
            back = cpppo.dotdict()
            source = cpppo.chainable(again)
            with parser.enip_machine(context="enip") as m:
                for _ in m.run(source=source, data=back):
                    pass
            src2 = cpppo.rememberable()
            if "input" in back.enip:
                src2.chain(back.enip.input)
            with env.ucmm.parser as machine:
                for _ in machine.run(source=src2, data=back.enip):
                    pass
            return ["enip." + key, new, back.enip.get(key)]
        except Exception as exc:
            return ["?", 0, "%s: %s" % (type(exc).__name__, str(exc)[:60])]

    def model_line(self, c):
        if "bytes" not in c:
            self.impl(c)
        return f"codec.{c['kind']} {c['bytes'] or '-'}"

    def normalize_model(self, c, out):
        if "|" not in out:
            return out
        f, b = out.split("|", 1)
        kv = dict(x.split("=", 1) for x in f.split(";")) if f != "-" else {}
        return fields_line(kv) + "|" + b

    def known_key(self, c):
        return c.get("bytes") or json.dumps(c["msg"], sort_keys=True)

    def oracle(self, c, out):
        if out.startswith("harness-exception") or out.startswith("produce-failed"):
            return out
        if out == "reject":
            return "cpppo's parser rejects the bytes cpppo produced"
        # 1. parsing the produced bytes recovers every field that was encoded
        msg = self.rebuild(c["msg"])
        if c["kind"] == "msg":
            wrap = Env.get().cpppo.dotdict()
            wrap.enip = msg
            msg = wrap
        want = render_fields(msg, svc_level=(c["kind"] == "svc"))
        got = dict(x.split("=", 1) for x in out.split("|")[0].split(";"))
        fo = c["msg"].get("forward_open") if isinstance(c["msg"], dict) else None
        if c["kind"] == "svc" and fo and "service" not in c["msg"] and all("size" in fo.get(s_, {}) for s_ in ("O_T", "T_O")):
            # the layout tables: the 16-bit parameter word has a 9-bit size field, so sizes up to 511 travel in a
            # Forward Open (0x54) and only a larger one needs the Large Forward Open (0x5B)
            need = 0x5b if max(fo["O_T"]["size"], fo["T_O"]["size"]) > 511 else 0x54
            if got.get("service") != str(need):
                return f"Forward Open with sizes {fo['O_T']['size']}/{fo['T_O']['size']} produced as service {got.get('service')}, the layout tables give {need}"
        for k, v in want.items():
            if k in ("service",) and k not in c["msg"]:
                continue
            if k.endswith(".large") or k.endswith(".NCP") and False:
                continue
            if k.startswith("multiple.request["):
                continue
            if got.get(k) != v:
                return f"field {k}: encoded {v!r}, parsed back {got.get(k)!r}"
        # 1b. a parsed message whose field is then changed is produced from its fields, not from bytes kept from the parse
        e = c.get("edit")
        if e and e[2] != e[1]:
            return f"after parsing, setting {e[0]} = {e[1]} and producing, the message parses back with {e[0]} = {e[2]!r}"
        # 2. producing the parsed message regenerates exactly the original bytes
        svc = int(got.get("service", "0"))
        if svc != 0x83 and c.get("reproduced") != c["bytes"]:
            return f"produce(parse(bytes)) = {c.get('reproduced')} differs from the original {c['bytes']}"
        return None

    def nontrivial(self, c, out):
        return c.get("bytes") if len(c.get("bytes", "")) > 8 else None

    def classify(self, c, out):
        f = out.split("|")[0]
        for kv in f.split(";"):
            if kv.startswith("service="):
                return "svc=0x%02x" % int(kv[8:])
        return out[:20]
