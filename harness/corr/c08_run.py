"""
C08 runner: feeds byte streams to the REAL simulator in-process and records what the property is about.

  mode "s": the real `enip_srv` (-> `enip_srv_tcp`) on a `network.server_thread` with a scripted fake connection
            (`cpppo.server.network.recv` patched), `enip_process` = a recording wrapper around `logix.process`
  mode "p": every chunk through the real `enip_machine` frame parser and `logix.process` on its own

Observed per case: generator steps of the real engine (every event yielded by `automata.state.run`, at every
nesting level), exception types leaving `logix.process`, end of the server thread / removal of the
`connections` entry / socket closed, the bytes sent, the tag bytes after every processed frame, the request as
parsed by cpppo's own parser, and a second session that reads every tag back.
"""
import logging
import socket
import struct
import threading

from corr import logix_common as lc
from corr import c08_wire as w

STEP_A, STEP_B = 64, 2000            # steps <= STEP_A * bytes + STEP_B   (measured: <= 40*len on 8000 thorough cases; see notes/C08.md)
HANG_FACTOR = 40                    # abort (and report) beyond HANG_FACTOR * (STEP_A * bytes + STEP_B)


class Hang(BaseException):
    """raised inside the engine when the step budget is exhausted (not an Exception: nothing swallows it)"""


class Counter:
    runs = 0
    nodes = frozenset()
    seq = 0
    count = 0
    budget = None
    installed = False


def install_counter():
    if Counter.installed:
        return
    from cpppo import automata
    orig = automata.state.run

    def run(self, *a, **k):
        if id(self) in Counter.nodes:
            Counter.runs += 1
        for ev in orig(self, *a, **k):
            Counter.count += 1
            if Counter.budget is not None and Counter.count > Counter.budget:
                Counter.budget = None
                raise Hang("step budget exhausted")
            yield ev
    automata.state.run = run
    Counter.installed = True


class FakeConn:
    family = socket.AF_INET
    type = socket.SOCK_STREAM

    def __init__(self, chunks, gate=None, gate_at=None):
        self.chunks = list(chunks)
        self.sent = []
        self.closed = False
        self.gate, self.gate_at = gate, gate_at     # deliver chunks[gate_at:] only after `gate` is set
        self.given = 0

    def setsockopt(self, *a):
        pass

    def send(self, b):
        self.sent.append(bytes(b))
        return len(b)

    def close(self):
        self.closed = True

    def shutdown(self, *a):
        pass

    def scripted(self):
        if self.gate is not None and self.given >= self.gate_at and not self.gate.is_set():
            self.gate.wait(0.001)
            if not self.gate.is_set():
                return None                        # no input yet
        if self.given < len(self.chunks):
            c = self.chunks[self.given]
            self.given += 1
            return c
        return b""                                 # EOF


def fake_recv(conn, maxlen=4096, timeout=0):
    return conn.scripted()


def find_request(data):
    try:
        item = data["response"]["enip"]["CIP"]["send_data"]["CPF"]["item"][1]
    except Exception:
        return None
    for k in ("unconnected_send", "connection_data"):
        try:
            if k in item and "request" in item[k]:
                return item[k]["request"]
        except Exception:
            pass
    return None


def executed(d):
    return "service" in d and isinstance(d["service"], int) and d["service"] >= 0x80 and "input" in d \
        and "status" in d


class Raw:
    """the bytes every request was handed to its executor as (`Logix.request( data )`: data.input on entry)"""
    seen = {}
    keep = []
    installed = False


def install_raw_capture():
    if Raw.installed:
        return
    from cpppo.server.enip import logix
    orig = logix.Logix.request

    def request(self, data, addr=None):
        try:
            if id(data) not in Raw.seen and "input" in data:
                Raw.seen[id(data)] = bytes(bytearray(data["input"]))
                Raw.keep.append(data)
        except Exception:
            pass
        return orig(self, data, addr=addr)
    logix.Logix.request = request
    Raw.installed = True


def with_raw(r, d):
    raw = Raw.seen.get(id(d))
    if raw is not None:
        r["_raw"] = raw.hex()
    return r


def code_parsed(data):
    """-> (cp request or None, [(member request, member reply bytes)], CIP reply bytes or None, effect_only)"""
    req = find_request(data)
    if req is None or not executed(req):
        return None, [], None, False
    reply = bytes(req["input"])
    if "multiple" in req:
        ms = []
        flags = {"dropped": False, "nested": False}

        def walk(bundle, depth):
            # members in execution order; a bundle inside a bundle is executed member by member in place
            for m in list(bundle["multiple"].get("request", [])):
                if "multiple" in m and executed(m) and depth < 400:
                    flags["nested"] = True
                    walk(m, depth + 1)
                    continue
                r = w.parsed_request(m, top=False) if executed(m) else None
                if r is None:
                    flags["dropped"] = True   # not one of the modelled services in complete form: cannot be a write
                    continue
                ms.append((with_raw(r, m), bytes(m["input"])))
        try:
            walk(req, 0)
        except Exception:
            return None, [], None, False
        if "path" not in req or "segment" not in req["path"]:
            return None, [], None, False
        cp = {"op": "mu", "path": w._path_of(req), "reqs": [m for m, _ in ms]}
        eff = len(reply) < 4 or reply[2] != 0 or flags["dropped"] or flags["nested"]
        if not ms:
            # nothing executed: an empty bundle has no model line
            return (cp if not eff else None), [], reply, eff
        return cp, ms, reply, eff
    r = w.parsed_request(req)
    if r is None:
        return None, [], None, False
    with_raw(r, req)
    return r, [(r, reply)], reply, False


class Session:
    """what the recording wrapper saw for one connection"""

    def __init__(self, dev, addr):
        self.dev, self.addr = dev, addr
        self.calls = []        # per processed frame: dict
        self.exc_types = []
        self.conn = None

    def process(self, addr, data, **kwds):
        logix = self.dev.logix
        real = bool(data.get("request")) if hasattr(data, "get") else False
        rec = None
        if real:
            e = data["request"].get("enip", {})
            Counter.seq += 1
            size = kwds.get("size")
            try:
                plen = len(data["request"]["enip"].get("input", b""))
            except Exception:
                plen = 0
            rec = {"seq": Counter.seq, "dg": getattr(self.conn, "cur", None), "peer": addr,
                   "oversize": size is not None and plen > int(size),
                   "hdr": (e.get("command"), e.get("length"), e.get("session_handle")),
                   "nsent": len(self.conn.sent) if self.conn is not None else 0, "steps0": Counter.count}
            self.calls.append(rec)
        try:
            res = logix.process(addr, data=data, **kwds)
        except BaseException as exc:
            if rec is not None:
                rec["exc"] = type(exc).__name__
                rec["exc_ok"] = isinstance(exc, Exception) and not isinstance(exc, (RecursionError, MemoryError))
                rec["dump"] = self.dev.dump()
                rec["cp"] = (None, [], None, False)
                rec["cont"] = False
            raise
        if rec is not None:
            rec["dump"] = self.dev.dump()
            rec["cp"] = code_parsed(data)
            status = None
            try:
                status = data["response"]["enip"]["status"]
            except Exception:
                pass
            rec["res"] = bool(res)
            rec["cont"] = bool(res) and not status
            rec["data"] = data
        return res


def reset_globals(dev):
    install_raw_capture()
    Raw.seen = {}
    Raw.keep = []
    from cpppo.server.enip import main as emain
    dev.device.Connection_Manager.forwards = {}
    from cpppo.server.enip import ucmm
    ucmm.UCMM.sessions = {}
    emain.connections.clear()


def run_server(dev, chunks, addr, gate=None, gate_at=None, budget=None, join=120, size=None):
    """one connection through the real enip_srv on a server_thread -> (Session, thread, conn)"""
    import cpppo
    from cpppo.server import network
    from cpppo.server.enip import main as emain
    network.recv = fake_recv
    sess = Session(dev, addr)
    conn = FakeConn(chunks, gate, gate_at)
    sess.conn = conn
    ctl = cpppo.dotdict(latency=0.001, done=False, disable=False, timeout=1)
    kw = dict(enip_process=sess.process, server={"control": ctl})
    if size is not None:
        kw["size"] = size                  # enip.main --size: forwarded to enip_process like every other keyword
    th = network.server_thread(target=emain.enip_srv, args=(conn, addr), kwargs=kw)
    th.daemon = True
    th.start()
    return sess, th, conn, ctl


def readback_frames(case, dev):
    """frames of a fresh session that read every tag back completely (Read Tag Fragmented, one element range at
    a time so that any budget works)"""
    frames = [w.enc_frame(0x65, b"\x01\x00\x00\x00")]
    plan = []
    seen = set()
    for t in case["tags"]:
        a = tuple(dev.addrs[t["name"]])
        if a in seen:
            continue
        seen.add(a)
        for j in range(t["len"]):
            r = {"op": "rt", "path": [["c", a[0]], ["i", a[1]], ["a", a[2]], ["e", j]], "n": 1}
            frames.append(w.enc_tag_frame(r, session=7))
            plan.append((a, j, t["type"]))
    return frames, plan


def cip_of_reply(frame):
    """the unconnected-data item of a reply frame, or None"""
    sp = w.split_frame(frame)
    if sp is None:
        return None
    hdr, pl, _ = sp
    if hdr["status"] != 0 or len(pl) < 16:
        return None
    count, t0, l0, t1, l1 = struct.unpack_from("<HHHHH", pl, 6)
    if count != 2 or t1 != 0xb2:
        return None
    return pl[16:16 + l1]


class EndOfScript(Exception):
    """raised by the scripted datagram socket when the script is over (after setting control.done): the UDP loop
    logs it like any failed request and then leaves"""


class FakeDgram:
    family = socket.AF_INET
    type = socket.SOCK_DGRAM

    def __init__(self, dgrams, ctl, dev):
        self.dgrams = list(dgrams)          # [(bytes, (host, port))]
        self.ctl, self.dev = ctl, dev
        self.cur = -1
        self.sent = []                      # reply bytes (index-aligned with sent_meta)
        self.sent_meta = []                 # (datagram index being processed, address)
        self.dumps = []                     # tag bytes after datagram k (taken when the loop asks for the next one)
        self.steps = []
        self.closed = False

    def setsockopt(self, *a):
        pass

    def sendto(self, b, addr):
        self.sent.append(bytes(b))
        self.sent_meta.append((self.cur, addr))
        return len(b)

    def close(self):
        self.closed = True

    def shutdown(self, *a):
        pass

    def scripted(self):
        if self.cur >= 0:
            self.dumps.append(self.dev.dump())
            self.steps.append(Counter.count)
        self.cur += 1
        if self.cur < len(self.dgrams):
            return self.dgrams[self.cur]
        self.ctl["done"] = True
        raise EndOfScript()


def fake_recvfrom(conn, maxlen=4096, timeout=0):
    return conn.scripted()


def run_udp(dev, dgrams):
    """the real enip_srv (-> enip_srv_udp) on a server_thread over a scripted datagram socket"""
    import cpppo
    from cpppo.server import network
    from cpppo.server.enip import main as emain
    network.recvfrom = fake_recvfrom
    ctl = cpppo.dotdict(latency=0.001, done=False, disable=False, timeout=1)
    conn = FakeDgram(dgrams, ctl, dev)
    sess = Session(dev, None)
    sess.conn = conn
    th = network.server_thread(target=emain.enip_srv, args=(conn, None),
                               kwargs=dict(enip_process=sess.process, server={"control": ctl}))
    th.daemon = True
    th.start()
    return sess, th, conn, ctl


def run_engine(case):
    """a `cpppo.dfa` of plain `state` / consuming `state_drop` nodes built from the case's table, run over the
    input by the real engine -> "<state runs>:<symbols sent>:<ok|nonterminal|assert>" """
    import cpppo
    from cpppo import automata
    logging.disable(logging.CRITICAL)
    install_counter()
    kinds, term, edges, inp = case["kinds"], case["terminal"], case["edges"], bytes.fromhex(case["input"])
    nodes = []
    for i, k in enumerate(kinds):
        if k == "c":
            nodes.append(cpppo.state_drop("s%d" % i, alphabet=int, terminal=term[i] == "1"))
        else:
            nodes.append(cpppo.state("s%d" % i, terminal=term[i] == "1"))
    for s, sym, t in edges:
        nodes[s][True if sym == "*" else (None if sym == "-" else sym)] = nodes[t]
    m = cpppo.dfa("m", initial=nodes[0], terminal=True)
    src = cpppo.peekable(inp)
    out = "ok"
    Counter.runs = 0
    Counter.count = 0
    Counter.nodes = frozenset(id(n) for n in nodes)
    Counter.budget = 5000 * (len(kinds) + 1) * (len(inp) + 2)
    try:
        with m:
            for _ in m.run(source=src, data=cpppo.dotdict()):
                pass
    except automata.NonTerminal:
        out = "nonterminal"
    except AssertionError:
        out = "assert"
    finally:
        Counter.budget = None
        Counter.nodes = frozenset()
    return "%d:%d:%s" % (Counter.runs, src.sent, out)


class MemberBytes:
    total = 0
    installed = False


def install_member_counter():
    """count the bytes handed to the target's parser for every member of every Multiple Service Packet
    (`state_multiple_service` closure: `source = peekable( req.input )`)"""
    if MemberBytes.installed:
        return
    from cpppo.server.enip import device
    orig = device.peekable

    def counting(iterable=None):
        try:
            MemberBytes.total += len(iterable)
        except TypeError:
            pass
        return orig(iterable)
    device.peekable = counting
    MemberBytes.installed = True
