"""C10: automata.py limits / repeat / sent accounting  vs  Cpppo.Engine + Cpppo.Source (Lean).

Three families of cases:
  src   random operation sequences (next/peek/push/chain) on a real cpppo.chainable vs the Source model
  eng   random *programs*: a machine description in the model's DSL is instantiated BOTH as real
        cpppo.state / state_input / state_drop / dfa / octets_struct / decide / move_if objects and as a
        DSL value on the driver line; run on random input, random chunking, random limits / repeats
  lib   every parser machine of server/enip/parser.py (and the service machines registered on the
        device objects): its live object graph is walked and translated to the DSL (predicates and
        data-path limits are opaque: their values are recorded during the real run and handed to the
        model as an environment tape), run under a limit shorter / equal / longer than a valid encoding
        followed by tail bytes.

The oracle is written from the property statement and looks only at the real run (monitors on
`run`/`reset` of the real objects record where each limited parser started and stopped and how many
times each repeated sub-machine was started); it does not use the model.
"""
import itertools
import json
import struct

from framework import Suite

FUEL = 6000
ALPHA = [0, 1, 2, 3]


# ------------------------------------------------------------------------------------------------
# DSL  ->  driver line
# ------------------------------------------------------------------------------------------------
def spec_s(sp):
    if sp is None:
        return "-"
    if sp[0] == "c":
        return f"c{sp[1]}"
    if sp[0] == "f":
        return f"f{sp[1]}"
    return "t"


def pred_s(p):
    k = p[0]
    if k == "T":
        return "T"
    if k == "t":
        return "t"
    if k in ("q", "n"):
        return f"{k}{p[1]}={p[2]}"
    return f"{k}{p[1]}"


def idx_s(i):
    return "-" if i is None else str(i)


def target_s(t):
    if t[0] == "p":
        return "p" + idx_s(t[1])
    return "g" + pred_s(t[1]) + "." + idx_s(t[2])


def state_s(s):
    if s["k"] == "D":
        k = f"D{s['init']}.{spec_s(s.get('rep'))}.{idx_s(s.get('store'))}"
    else:
        k = s["k"]
    edges = "|".join(f"{lab}>{','.join(target_s(t) for t in tgts)}" for lab, tgts in s.get("edges", []))
    return f"{k}:{s.get('t', 0)}:{s.get('g', 1)}:{spec_s(s.get('lim'))}:{edges or '-'}"


def hexs(b):
    return bytes(b).hex() if len(b) else "-"


def eng_line(states, top, chunks, tape):
    return "eng %d %d %s %s %s" % (
        FUEL, top, "/".join(state_s(s) for s in states),
        ",".join(hexs(bytes.fromhex(c)) for c in chunks),
        ",".join(map(str, tape)) if tape else "-")


# ------------------------------------------------------------------------------------------------
# DSL  ->  real cpppo objects
# ------------------------------------------------------------------------------------------------
FMT = {1: "B", 2: "<H", 4: "<I", 8: "<Q"}


def vpath(k):
    return "r.v%d" % k


def build_real(states):
    """instantiate a DSL machine as real cpppo objects; returns (objects by index, index by id)"""
    import cpppo
    from cpppo.server.enip import parser

    def pred_fn(p):
        k = p[0]
        if k == "T":
            return None
        if k == "q":
            return lambda data=None, **kw: data.get(vpath(p[1]), 0) == p[2]
        if k == "n":
            return lambda data=None, **kw: data.get(vpath(p[1]), 0) != p[2]
        if k == "v":
            return lambda data=None, **kw: data.get(vpath(p[1]), 0) % 2 == 0
        if k == "o":
            return lambda data=None, **kw: data.get(vpath(p[1]), 0) % 2 == 1
        raise ValueError(p)

    def limit_of(s):
        sp = s.get("lim")
        if sp is None:
            return None
        if sp[0] == "c":
            return sp[1]
        if s.get("limcall") or s.get("store") is not None:
            return lambda data=None, **kw: data.get(vpath(sp[1]), 0)
        return ".v%d" % sp[1]

    def repeat_of(s):
        sp = s.get("rep")
        if sp is None:
            return None
        return sp[1] if sp[0] == "c" else ".v%d" % sp[1]

    objs = [None] * len(states)
    implicit = set()
    for s in states:
        if s["k"] == "D" and s.get("store") is not None:
            implicit.add(s["init"])
    kw_in = dict(alphabet=cpppo.type_bytes_iter, typecode=cpppo.type_bytes_array_symbol)

    def make(i):
        if objs[i] is not None or i in implicit:
            return objs[i]
        s = states[i]
        common = dict(terminal=bool(s.get("t", 0)), greedy=bool(s.get("g", 1)), limit=limit_of(s))
        name = "s%d" % i
        if s["k"] == "n":
            objs[i] = cpppo.state(name, **common)
        elif s["k"] == "i":
            objs[i] = cpppo.state_input(name, **kw_in, **common)
        elif s["k"] == "d":
            objs[i] = cpppo.state_drop(name, **kw_in, **common)
        elif s.get("store") is not None:
            n = s["rep"][1]
            objs[i] = parser.octets_struct(name, format=FMT[n], context="f%d" % s["store"], **common)
            objs[s["init"]] = objs[i].initial
        else:
            objs[i] = cpppo.dfa(name, initial=make(s["init"]), repeat=repeat_of(s), **common)
        return objs[i]

    for i in range(len(states)):
        make(i)
    for i, s in enumerate(states):
        if i in implicit:
            continue
        for lab, tgts in s.get("edges", []):
            key = True if lab == "a" else None if lab == "e" else lab
            for t in tgts:
                if t[0] == "p":
                    objs[i][key] = None if t[1] is None else objs[t[1]]
                else:
                    tgt = None if t[2] is None else objs[t[2]]
                    if t[1][0] == "T" and s.get("store") is not None:
                        # the library's idiom: harvest the parsed value out of its scratch context
                        objs[i][key] = parser.move_if("mv%d" % i, source=".f%d" % s["store"],
                                                     destination=".v%d" % s["store"], state=tgt)
                    else:
                        objs[i][key] = cpppo.decide("g%d" % i, state=tgt, predicate=pred_fn(t[1]))
    return objs, {id(o): i for i, o in enumerate(objs)}


# ------------------------------------------------------------------------------------------------
# running a real machine, with monitors for the oracle
# ------------------------------------------------------------------------------------------------
class Monitor:
    """records, for every monitored state, where each of its runs started and stopped (source.sent),
    the limit it was given, and how many times its sub-machine was started (dfa `reset` calls)"""

    def __init__(self):
        self.records = []

    def attach(self, node, key, limit_value, repeat_value, consumes):
        import cpppo
        orig_run = node.run
        mon = self
        is_dfa = isinstance(node, cpppo.dfa_base)
        if is_dfa:
            orig_reset = node.reset
            counter = {"n": 0}

            def reset():
                counter["n"] += 1
                return orig_reset()
            node.reset = reset

        def run(source, machine=None, path=None, data=None, ending=None):
            src = cpppo.peekable(source)
            rec = {"key": key, "start": src.sent, "ending": ending, "how": "raised",
                   "limit": limit_value(path, data) if limit_value else None,
                   "repeat": repeat_value(path, data) if repeat_value else None,
                   "consumes": consumes, "cycles": None, "end": None, "terminal": None}
            if is_dfa:
                counter["n"] = 0
            mon.records.append(rec)
            try:
                yield from orig_run(source=src, machine=machine, path=path, data=data, ending=ending)
                rec["how"] = "done"
            except GeneratorExit:
                rec["how"] = "closed"
                raise
            finally:
                rec["end"] = src.sent
                if is_dfa:
                    rec["cycles"] = counter["n"]
                    rec["terminal"] = bool(node.terminal)
        node.run = run


class Tape:
    """a caller's own source that follows the documented protocol of `cpppo.peekable` ("has (at least) the
    peek/sent methods": peek / push / sent / next / chain) WITHOUT deriving from cpppo.peeking.  `sent` is this
    object's own count of what was taken from it (net of what was pushed back)."""

    def __init__(self, block=b""):
        self.blocks = [list(block)]
        self.pushed = []
        self.sent = 0

    def chain(self, block):
        self.blocks.append(list(block))

    def __iter__(self):
        return self

    def peek(self):
        if self.pushed:
            return self.pushed[-1]
        for b in self.blocks:
            if b:
                return b[0]
        return None

    def push(self, item):
        self.pushed.append(item)
        self.sent -= 1

    def __next__(self):
        if self.pushed:
            self.sent += 1
            return self.pushed.pop()
        while self.blocks and not self.blocks[0] and len(self.blocks) > 1:
            self.blocks.pop(0)
        if self.blocks and self.blocks[0]:
            self.sent += 1
            return self.blocks[0].pop(0)
        raise StopIteration

    next = __next__


def run_real(top, chunks, data=None, path="r", on_none=None, cap=200000, duck=False):
    """drive the outermost generator exactly as server/enip/main.py does: on a (machine, None) event
    chain the next block of input (if any)"""
    import cpppo
    pend = [bytes.fromhex(c) for c in chunks]
    src = (Tape if duck else cpppo.chainable)(pend.pop(0) if pend else b"")
    data = cpppo.dotdict() if data is None else data
    out = "ok"
    n = 0
    try:
        with top:
            for m, s in top.run(source=src, data=data, path=path):
                n += 1
                if n > cap:
                    out = "reject:loop"
                    break
                if s is None and pend:
                    src.chain(pend.pop(0))
    except cpppo.NonTerminal:
        out = "reject:NonTerminal"
    except AssertionError:
        out = "reject:AssertionError"
    except Exception as exc:
        out = "reject:" + type(exc).__name__
    return out, src, pend, data


def show_peek(src):
    p = src.peek()
    return "-" if p is None else str(p)


def drain(src, pend):
    rest = []
    while True:
        try:
            rest.append(next(src))
        except StopIteration:
            break
    for b in pend:
        rest.extend(b)
    return bytes(rest)


def property_verdict(records, out, all_input, sent, rest, taken=None):
    """the property, checked on what the real run did (independent of the model)"""
    if taken is not None and records and records[0]["start"] == 0 and records[0]["end"] is not None \
            and records[0]["end"] != taken:
        # the caller handed in its own source object: what the outermost machine saw as consumed (`source.sent`
        # where it ran) against what was really taken from the caller's source
        return (f"the framework reports {records[0]['end']} symbols consumed, but {taken} symbols were taken from "
                f"the caller's source (a symbol beyond the parsed region was taken and not given back)")
    # the number of symbols reported as consumed equals the number actually taken from the input,
    # and nothing was skipped or reordered: what is left is exactly the input after `sent` symbols
    if not (0 <= sent <= len(all_input)):
        return f"sent={sent} outside 0..{len(all_input)}"
    if all_input[sent:] != rest:
        return f"after sent={sent} the source holds {rest.hex()} but the input continues {all_input[sent:].hex()}"
    ok = out.startswith("ok")
    for r in records:
        if r["end"] is None:
            continue
        took = r["end"] - r["start"]
        if took < 0:
            return f"state {r['key']} un-consumed input ({r['start']} -> {r['end']})"
        if r["how"] == "raised":
            continue                # "... or it fails"
        # a run that completed (by itself, or closed by its delegate) - whatever happens later
        if r["limit"] is not None:
            allowed = r["limit"] + (1 if r["consumes"] else 0)   # the limit applies after the state's own symbol
            if took > allowed:
                return (f"state {r['key']} completed ({r['how']}) having consumed {took} symbols "
                        f"with limit {r['limit']}")
        if r["ending"] is not None and r["end"] > max(r["ending"], r["start"]):
            return f"state {r['key']} completed ({r['how']}) at {r['end']} past the enclosing limit {r['ending']}"
        if not ok:
            continue
        if r["cycles"] is not None:
            want = 1 if r["repeat"] is None else r["repeat"]
            if r["cycles"] > max(want, 0):
                return f"dfa {r['key']} ran its sub-machine {r['cycles']} times with repeat {want}"
            if r["how"] == "done" and r["terminal"] and r["cycles"] != want:
                return f"dfa {r['key']} is terminal after {r['cycles']} of {want} repeats"
            if want == 0 and took != 0 and not r["consumes"]:
                return f"dfa {r['key']} consumed {took} symbols with repeat 0"
    return None


# ------------------------------------------------------------------------------------------------
# random programs
# ------------------------------------------------------------------------------------------------
class Gen:
    """builds a DSL machine (list of state dicts); sub-machines are disjoint (proper nesting)"""

    def __init__(self, rng):
        self.rng = rng
        self.states = []
        self.fields = []          # fields parsed so far (in generation order)

    def new(self, **kw):
        s = {"k": "n", "t": 0, "g": 1, "lim": None, "edges": []}
        s.update(kw)
        self.states.append(s)
        return len(self.states) - 1

    def field_template(self, k, n, t=1, lim=None):
        """dfa[ octets_struct(n) --None--> move_if --> done ] : parse an n-byte little-endian field k"""
        leaf = self.new(k="i", t=1)
        done = self.new(k="n", t=1)
        u = self.new(k="D", init=leaf, rep=["c", n], store=k, lim=lim,
                     edges=[["e", [["g", ["T"], done]]]])
        f = self.new(k="D", init=u, rep=None, store=None, t=t)
        self.fields.append(k)
        return f

    def spec(self, small=True):
        r = self.rng
        x = r.random()
        if x < 0.45 and self.fields:
            return ["f", r.choice(self.fields)]
        if x < 0.9:
            return ["c", r.choice([0, 0, 1, 1, 2, 2, 3, 4, 5] if small else [0, 1, 2, 3, 7])]
        return None

    def pred(self):
        r = self.rng
        k = r.choice(self.fields) if self.fields and r.random() < 0.9 else r.randint(0, 3)
        return r.choice([["q", k, r.choice([0, 0, 1, 2])], ["n", k, r.choice([0, 1])], ["v", k], ["o", k], ["T"]])

    def targets(self, pool, allow_none=True):
        r = self.rng
        tgts = []
        for _ in range(r.choice([0, 0, 0, 1, 1, 2])):
            tgts.append(["g", self.pred(), r.choice(pool) if r.random() < 0.9 else None])
        if not tgts or r.random() < 0.8:
            tgts.append(["p", r.choice(pool) if (r.random() < 0.93 or not allow_none) else None])
        return tgts

    def graph(self, depth, size=None):
        """a random sub-machine; returns its initial state"""
        r = self.rng
        n = size or r.choice([1, 1, 2, 2, 3, 4])
        nodes = []
        for _ in range(n):
            x = r.random()
            if depth > 0 and x < 0.22:
                inner = self.graph(depth - 1)
                nodes.append(self.new(k="D", init=inner, rep=self.spec() if r.random() < 0.6 else None,
                                      store=None, lim=self.spec() if r.random() < 0.6 else None,
                                      limcall=r.random() < 0.3))
            elif x < 0.34:
                nodes.append(self.field_template(r.randint(0, 3), r.choice([1, 1, 1, 2]),
                                                 lim=["c", r.choice([0, 1, 2])] if r.random() < 0.1 else None))
            elif x < 0.70:
                nodes.append(self.new(k="i"))
            elif x < 0.80:
                nodes.append(self.new(k="d"))
            else:
                nodes.append(self.new(k="n"))
        for i in nodes:
            s = self.states[i]
            s["t"] = int(r.random() < 0.6)
            s["g"] = int(r.random() < 0.8)
            if s["k"] != "D" and r.random() < 0.06:
                s["lim"] = ["c", r.choice([0, 1, 2])]
            labels = []
            for _ in range(r.choice([0, 1, 1, 2, 2, 3])):
                lab = r.choice(["a", "a", "e", "e", 0, 1, 2, 3])
                if lab not in labels:
                    labels.append(lab)
            s["edges"] = s.get("edges", []) + [[lab, self.targets(nodes)] for lab in labels]
        return nodes[0]

    # ---- shapes the library uses -------------------------------------------------------------
    def any_loop(self, kind="i", t=1):
        b = self.new(k=kind, t=t)
        self.states[b]["edges"] = [["a", [["p", b]]]]
        return b

    def regex_star(self, kind="i"):
        """what cpppo.regex builds for '.*': a non-terminal, non-consuming copy of the initial state"""
        b = self.any_loop(kind)
        return self.new(k="n", t=0, edges=[["a", [["p", b]]]])

    def sstring(self, k, n=1, greedy=0, pad=False, follow=None):
        """length field, then a body limited by it (SSTRING / STRING / EPATH symbolic)"""
        r = self.rng
        lenf = self.field_template(k, n, t=0)
        done = self.new(k="n", t=1)
        body = self.new(k="D", init=self.regex_star(), rep=None, store=None, lim=["f", k], t=1, g=greedy,
                        limcall=r.random() < 0.3)
        edges = [["g", ["q", k, 0], done], ["p", body]]
        self.states[lenf]["edges"] = [["e", edges]]
        if pad:
            padd = self.new(k="D", init=self.new(k="d", t=1), rep=["c", 1], store=None, t=1)
            self.states[body]["t"] = 0
            self.states[body]["edges"] = [["e", [["g", ["v", k], done], ["p", padd]]]]
        return self.new(k="D", init=lenf, rep=None, store=None, t=1)

    def counted(self, k, item):
        """count field, then `repeat=count` items (CPF, status ext, enip payload)"""
        cnt = self.field_template(k, 1, t=0)
        allx = self.new(k="D", init=item, rep=["f", k], store=None, t=1)
        self.states[cnt]["edges"] = [["e", [["p", allx]]]]
        return self.new(k="D", init=cnt, rep=None, store=None, t=1)


def split_chunks(rng, data, exhaustive_at=None):
    if exhaustive_at is not None:
        return [data[:exhaustive_at].hex(), data[exhaustive_at:].hex()]
    n = rng.choice([1, 1, 1, 2, 2, 3, 4])
    cuts = sorted(rng.randint(0, len(data)) for _ in range(n - 1))
    parts, prev = [], 0
    for c in cuts + [len(data)]:
        parts.append(data[prev:c].hex())
        prev = c
    return parts


class C10(Suite):
    id = "C10"
    props_module = "Cpppo.Props.C10"
    rule = ("src: random next/peek/push/chain sequences; eng: exhaustive grid of library-shaped machines "
            "(sub-machine shape x limit x repeat x input length x 2-way split) plus seeded random machine "
            "descriptions x random input x random chunking; lib: every parser machine of the library under a "
            "limit shorter/equal/longer than a valid encoding plus tail bytes; non-trivial = a limit or repeat "
            "was in force and input was consumed; distinct by driver line")
    assumptions = [
        "machines use the engine features listed in Model/Engine.lean (no recognizers, encoders, non-int limits)",
        "limits and repeats are non-negative (unsigned fields or constants)",
        "library predicates / data-path values enter the model as the values the real run observed (tape)"]
    trusted_extra = ["the DSL -> real-object instantiation and the object-graph -> DSL translation in harness/corr/c10.py"]

    def setup(self, tier, rng):
        import logging
        logging.disable(logging.CRITICAL)          # the library logs every failed parse
        self._why = {}
        self._line = {}
        self._valid = None
        self._fact = None

    # ---------------------------------------------------------------------------------------- cases
    def cases(self, tier, rng):
        quick = tier == "quick"
        yield from self.src_cases(rng, 400 if quick else 10000)
        yield from self.grid_cases(rng, quick)
        # every family also with the caller's OWN source object (duck-typed peek/push/sent, not a cpppo.peeking):
        # what is taken from it must be what the framework accounts for
        for c in self.random_programs(rng, 6000 if quick else 150000):
            yield c
            if rng.random() < 0.08:
                yield dict(c, duck=1)
        for c in itertools.chain(self.lib_cases(rng, quick), self.short_item_cases(rng, quick), self.cip_cases(rng, quick)):
            yield c
            if rng.random() < (0.15 if quick else 0.3):
                yield dict(c, duck=1)

    def src_cases(self, rng, n):
        for k in range(n):
            init = bytes(rng.randint(0, 9) for _ in range(rng.choice([0, 1, 2, 4])))
            mem = k % 3 == 0      # a `rememberable` source (as the server uses): forget() allowed, pushes give back
            q, taken = list(init), []      # what was taken last (its push() asserts exactly that)
            ops = []
            for _ in range(rng.randint(0, 14)):
                x = rng.random()
                if mem and x < 0.12:
                    ops.append("f")     # forget(): drops the memory only; must not touch `sent`
                    taken = []
                elif x < 0.4:
                    ops.append("n")
                    if q:
                        taken.append(q.pop(0))
                elif x < 0.6:
                    ops.append("k")
                elif x < 0.8:
                    if mem:
                        if not taken:
                            continue
                        v = taken.pop()
                        q.insert(0, v)
                        ops.append("u%d" % v)
                    else:
                        v = rng.randint(0, 9)
                        q.insert(0, v)
                        ops.append("u%d" % v)
                else:
                    blk = bytes(rng.randint(0, 9) for _ in range(rng.choice([0, 0, 1, 2, 3])))
                    q.extend(blk)
                    ops.append("c" + hexs(blk))
            yield {"op": "src", "init": init.hex(), "ops": ops, "mem": mem}

    def grid_cases(self, rng, quick):
        """exhaustive small scope: outer[ limited/repeated dfa over a shape, then a tail consumer ]"""
        shapes = ["star", "pair", "one", "eps_chain", "sym"]
        lims = [None, 0, 1, 2, 3]
        reps = [None, 0, 1, 2, 3] if not quick else [None, 0, 2]
        for shape, lim, rep, greedy, n in itertools.product(shapes, lims, reps, [0, 1], range(0, 6)):
            g = Gen(rng)
            if shape == "star":
                init = g.regex_star()
            elif shape == "pair":      # words: two bytes per cycle
                b1 = g.new(k="i", t=1)
                init = g.new(k="i", t=0, edges=[["a", [["p", b1]]]])
            elif shape == "one":       # octets: one byte per cycle
                init = g.new(k="i", t=1)
            elif shape == "eps_chain":
                last = g.new(k="i", t=1)
                mid = g.new(k="n", t=0, edges=[["e", [["p", last]]]])
                init = g.new(k="d", t=0, edges=[["e", [["p", mid]]]])
            else:                       # symbol edges: accepts 1 0* 2
                end = g.new(k="i", t=1)
                mid = g.new(k="i", t=0)
                g.states[mid]["edges"] = [[0, [["p", mid]]], [2, [["p", end]]]]
                init = g.new(k="n", t=0, edges=[[1, [["p", mid]]]])
            body = g.new(k="D", init=init, rep=None if rep is None else ["c", rep], store=None,
                         lim=None if lim is None else ["c", lim], t=1, g=greedy)
            tail = g.any_loop("d")
            g.states[body]["edges"] = [["a", [["p", tail]]]]
            top = g.new(k="D", init=body, rep=None, store=None, t=1)
            data = bytes([1, 0, 2, 3, 1, 2][:n]) if shape == "sym" else bytes(rng.choice(ALPHA) for _ in range(n))
            for cut in ([None] if quick else [None] + list(range(0, n + 1))):
                yield {"op": "eng", "states": g.states, "top": top, "fam": "grid:" + shape,
                       "chunks": [data.hex()] if cut is None else split_chunks(rng, data, cut)}

    def random_programs(self, rng, n):
        for j in range(n):
            g = Gen(rng)
            x = rng.random()
            if x < 0.25:
                fam = "sstring"
                k = rng.randint(0, 2)
                top = g.sstring(k, n=rng.choice([1, 1, 2]), greedy=rng.choice([0, 0, 1]), pad=rng.random() < 0.4)
                if rng.random() < 0.5:           # followed by something that eats the remainder
                    tail = g.any_loop(rng.choice("id"))
                    g.states[top]["edges"] = [["a", [["p", tail]]]]
                    top = g.new(k="D", init=top, rep=None, store=None, t=1, lim=g.spec() if rng.random() < 0.3 else None)
            elif x < 0.45:
                fam = "counted"
                inner = rng.random()
                if inner < 0.4:
                    item = g.sstring(1, pad=rng.random() < 0.3)
                elif inner < 0.7:
                    item = g.new(k="i", t=1)
                else:
                    item = g.graph(1)
                top = g.counted(0, item)
                if rng.random() < 0.4:
                    tail = g.any_loop("d")
                    g.states[top]["edges"] = [["a", [["p", tail]]]]
                    top = g.new(k="D", init=top, rep=None, store=None, t=1)
            elif x < 0.55:
                # a dfa re-entered with a different repeat (0 leaves `current` where the last run ended)
                fam = "reentry"
                kf = g.field_template(0, 1, t=0)
                sub = rng.random()
                if sub < 0.5:
                    b = g.new(k="i", t=1)
                    a = g.new(k="i", t=0, edges=[["a", [["p", b]]]])
                elif sub < 0.8:
                    b = g.new(k="i", t=1)
                    a = g.new(k="n", t=0, edges=[["a", [["p", b]]]])
                else:
                    a = g.graph(0)
                xx = g.new(k="D", init=a, rep=["f", 0], store=None, t=int(rng.random() < 0.9),
                           lim=g.spec() if rng.random() < 0.2 else None)
                g.states[kf]["edges"] = [["e", [["p", xx]]]]
                top = g.new(k="D", init=kf, rep=["c", rng.choice([2, 3, 4])], store=None, t=1)
                data = bytes(v for _ in range(4) for v in [rng.choice([0, 0, 1, 2])] + [rng.choice(ALPHA)] * rng.choice([0, 2, 2, 4]))
                yield {"op": "eng", "states": g.states, "top": top, "fam": fam,
                       "chunks": split_chunks(rng, data[:rng.randint(0, len(data))])}
                continue
            else:
                fam = "random"
                init = g.graph(rng.choice([0, 1, 1, 2]))
                top = g.new(k="D", init=init, rep=g.spec() if rng.random() < 0.4 else None, store=None,
                            lim=(["c", rng.randint(0, 6)] if rng.random() < 0.4 else None),
                            t=int(rng.random() < 0.8), g=int(rng.random() < 0.85))
            # mostly small symbols so that symbol edges fire and length fields are small
            ln = rng.choice([0, 1, 2, 3, 4, 5, 6, 8, 12])
            data = bytes(rng.choice(ALPHA) if rng.random() < 0.9 else rng.randint(0, 255) for _ in range(ln))
            yield {"op": "eng", "states": g.states, "top": top, "fam": fam, "chunks": split_chunks(rng, data)}

    # ---------------------------------------------------------------------------------------- library
    def lib_setup(self, rng):
        """which (machine, bytes) pairs are valid encodings: found by running the real machine without a
        limit (ok, terminal, everything consumed)"""
        from corr import c10_lib as L
        if getattr(self, "_valid", None) is not None:
            return
        self._fact = L.factories()
        self._inst = {}
        cands = {}
        for name, b in L.produced(rng):
            cands.setdefault(name, []).append(b)
        big = [n for n in self._fact if n in (
            "CPF", "CIP", "unconnected_send", "enip_machine", "enip_header", "send_data", "list_identity",
            "list_services", "list_interfaces", "legacy", "identity_object", "communications_service",
            "legacy_CPF_0x0001", "register", "connection_data", "connection_ID", "IFACEADDRS") or n in L.SHARED]
        corpus = L.corpus_bytes()
        derived = []
        for _, pkt in corpus:              # payloads of the captured frames
            if len(pkt) >= 24 and int.from_bytes(pkt[2:4], "little") == len(pkt) - 24:
                derived.append(pkt[24:])
        pool = [b for _, b in corpus] + derived + L.nested_inputs([b for _, b in corpus])
        self._valid = []
        seen = set()
        for name in sorted(self._fact):
            for b in cands.get(name, []) + (pool if name in big else []):
                if (name, b) in seen:
                    continue
                seen.add((name, b))
                c = {"op": "lib", "m": name, "mode": "wrap" if name in L.SHARED else "kw", "limit": None,
                     "chunks": [b.hex()]}
                out = self.impl_lib(c)
                t = out.split()
                made = b in cands.get(name, [])
                wv = L.wire_valid(name, b)
                # known to be exactly one element: made by produce()/from the wire format, or the
                # wire-format validator says so
                exact = bool(wv) if wv is not None else made
                if made or (t[0] == "ok" and t[3] == "1" and int(t[1]) == len(b) and len(b) > 0):
                    self._valid.append((name, b, exact))

    def lib_cases(self, rng, quick):
        from corr import c10_lib as L
        self.lib_setup(rng)
        per = 3 if quick else 40
        byname = {}
        for name, b, exact in self._valid:
            byname.setdefault(name, []).append((b, exact))
        # every encoding known to be exactly one element: followed by other bytes, without a limit, with the
        # exact limit, and with a limit one short
        for name in sorted(byname):
            mode = "wrap" if name in L.SHARED else "kw"
            for b, exact in byname[name]:
                if not exact:
                    continue
                tail = bytes(rng.randint(0, 255) for _ in range(rng.choice([1, 2, 3])))
                for lim in (None, len(b), max(len(b) - 1, 0)):
                    yield {"op": "lib", "m": name, "mode": mode, "limit": lim, "n": len(b),
                           "chunks": [(b + tail).hex()]}
                # followed by octets the element's own inner grammar would accept if it did not stop at its
                # boundary: path-segment-like octets, a copy of the element itself, a run of printable octets
                for tail in (b"\x20\x02\x24\x01", b, b"\xc1\xc2\xc3\xc4\xc5\xc6\xc7\xc8\xc9\xca\xcb"):
                    if tail:
                        yield {"op": "lib", "m": name, "mode": mode, "limit": None, "n": len(b),
                               "chunks": [(b + tail).hex()]}
        for name in sorted(byname):
            encs = byname[name]
            first = [x for x in encs if x[1]]
            other = [x for x in encs if not x[1]]
            picks = (first if len(first) <= per else rng.sample(first, per)) + \
                    (other if len(other) <= per // 3 + 1 else rng.sample(other, per // 3 + 1))
            for b, exact in picks:
                n = len(b)
                limits = sorted(set(x for x in (0, 1, n // 2, n - 1, n, n + 1, n + 4) if x >= 0))
                if quick and len(limits) > 4:
                    limits = sorted(set([limits[0], n - 1 if n else 0, n, n + 1] + [rng.choice(limits)]))
                for lim in [None] + limits:
                    for tail in ([b"", bytes(rng.randint(0, 255) for _ in range(3))] if not quick
                                 else [bytes(rng.randint(0, 255) for _ in range(rng.choice([0, 2])))]):
                        modes = ["wrap"] if name in L.SHARED else (["kw", "wrap"] if not quick else [rng.choice(["kw", "wrap"])])
                        for mode in modes:
                            yield {"op": "lib", "m": name, "mode": mode, "limit": lim, "n": n if exact else None,
                                   "chunks": split_chunks(rng, b + tail) if rng.random() < 0.3 else [(b + tail).hex()]}

    def short_item_cases(self, rng, quick):
        """CPF lists whose 0x00b2 item is short (1..6 octets) and begins like a reply (0xD2 / 0xD4 / 0xCC ...), with
        only 0..3 octets of input after it: the item parsers' look-ahead decisions are made with fewer symbols
        available than they would like, some of them beyond the item's own boundary"""
        for first in (0xD2, 0xD2, 0xD4, 0xCC, 0x52, 0x8E):
            for ln in range(1, 7):
                item = bytes([first]) + bytes(rng.choice([0, 0, 1, 4, 6, 0xD2]) for _ in range(ln - 1))
                for head in (b"\x01\x00", b"\x02\x00\x00\x00\x00\x00"):
                    b = head + struct.pack("<HH", 0xb2, ln) + item
                    for tl in ((0, 1, 2, 3) if not quick or first == 0xD2 else (rng.choice([1, 2]),)):
                        tail = bytes(rng.choice([0x41, 0x42, 0x43, 0xD2, 0x00]) for _ in range(tl))
                        if tl >= 2 and tail[0] == tail[1]:
                            tail = bytes([tail[0], tail[1] ^ 3]) + tail[2:]
                        for m in ("CPF",) if quick else ("CPF", "send_data"):
                            bb = (struct.pack("<IH", 0, 5) + b) if m == "send_data" else b
                            for lim in (None, len(bb)):
                                yield {"op": "lib", "m": m, "mode": "kw", "limit": lim, "n": None,
                                       "chunks": [(bb + tail).hex()]}

    def cip_cases(self, rng, quick):
        """the CIP command level: enip.command / enip.length come from the (already parsed) header in the data
        artifact, the source is a stream that continues past the frame (the next frame's octets).  enip.length
        is the limit the command parser is given: shorter than, equal to and longer than what the content asks"""
        from corr import c10_lib as L
        encs = L.cip_encodings(rng, L.corpus_bytes())
        if quick and len(encs) > 40:
            head = [x for x in encs if len(x[1]) <= 40][:30]
            encs = head + rng.sample([x for x in encs if x not in head], 10)
        for cmd, b in encs:
            n = len(b)
            follow = bytes([0x65, 0x00, 0x04, 0x00]) + bytes(rng.randint(0, 255) for _ in range(rng.choice([2, 4, 20])))
            lengths = sorted(set(x for x in (0, 1, 2, n // 2, n - 4, n - 1, n, n + 1, n + 3) if x >= 0))
            if quick and len(lengths) > 5:
                lengths = sorted(set([n - 1 if n else 0, n, n + 1] + rng.sample(lengths, 2)))
            for ln in lengths:
                stream = b + follow
                yield {"op": "lib", "m": "CIP", "mode": "kw", "limit": None, "n": None,
                       "pre": {"enip.command": cmd, "enip.length": ln}, "path": "enip", "bound": ln,
                       "chunks": split_chunks(rng, stream) if rng.random() < 0.3 else [stream.hex()]}

    def lib_instance(self, name, mode):
        from corr import c10_lib as L
        import cpppo
        key = (name, mode)
        if key not in self._inst:
            m = self._fact[name]()
            top = m if mode == "kw" else cpppo.dfa("wrap", initial=m, terminal=True)
            self._inst[key] = L.Instrumented(top)
        return self._inst[key]

    def impl_lib(self, c):
        from corr import c10_lib as L
        if getattr(self, "_fact", None) is None:
            self._fact, self._inst = L.factories(), {}
            self._valid = None
        inst = self.lib_instance(c["m"], c["mode"])
        top = inst.top
        top.limit = c["limit"]
        states = [dict(inst.states[0], lim=None if c["limit"] is None else ["c", c["limit"]])] + inst.states[1:]
        sess = L.CUR["s"] = L.Session()
        inst.reset()
        all_input = b"".join(bytes.fromhex(x) for x in c["chunks"])
        data0 = L.LogDict()
        for k, v in sorted((c.get("pre") or {}).items()):
            data0[k] = v
        out, src, pend, data = run_real(top, c["chunks"], data=data0, path=c.get("path"), duck=bool(c.get("duck")))
        sent, peek = src.sent, show_peek(src)
        key = json.dumps(c, sort_keys=True)
        tape = [v if isinstance(v, int) and not isinstance(v, bool) and v >= 0 else None for v in sess.tape]
        if sess.data_exception or (None in tape) or out.split()[0] not in (
                "ok", "reject:NonTerminal", "reject:AssertionError"):
            line = "reject:data"
            self._line[key] = "echo reject:data"
        else:
            if out == "ok":
                line = "ok %d %s %d %s" % (sent, peek, 1 if top.terminal else 0, inst.dfa_states())
            else:
                line = "%s %d %s" % (out, sent, peek)
            self._line[key] = eng_line(states, 0, c["chunks"], tape)
        why = property_verdict(sess.records, out, all_input, sent, drain(src, pend), taken=sent if c.get("duck") else None)
        if not why and out == "ok" and c["limit"] is not None and sent > c["limit"]:
            why = f"{c['m']} completed having consumed {sent} symbols with limit {c['limit']}"
        if (not why and out == "ok" and c.get("n") is not None and sent > c["n"]
                and L.self_delimiting(c["m"], all_input[:c["n"]])):
            why = (f"{c['m']} consumed {sent} symbols of a valid {c['n']}-byte encoding followed by other bytes: "
                   f"it read {sent - c['n']} past its own boundary")
        if not why and out == "ok" and c.get("bound") is not None and sent > c["bound"]:
            # a length field parsed earlier in the same message (the encapsulation header's) is the limit
            why = (f"{c['m']} command 0x{c['pre']['enip.command']:04x} completed having consumed {sent} symbols "
                   f"with enip.length {c['bound']}: {sent - c['bound']} taken from beyond the frame")
        if (not why and out == "ok" and c.get("n") is not None and sent < c["n"]
                and (c["limit"] is None or c["limit"] >= c["n"])
                and all(len(x) > 0 for x in c["chunks"])
                and (len(c["chunks"]) == 1 or c["m"] not in L.SHARED)   # service parsers may take a no-input
                                                                        # "minimal reply" exit when input pauses
                and L.self_delimiting(c["m"], all_input[:c["n"]])):
            # every count / size / length field of a well-formed element is honoured exactly: the counted
            # sub-grammars ran as often as their counts say iff the whole element was consumed
            why = (f"{c['m']} completed after {sent} symbols of a valid {c['n']}-byte encoding: a counted part "
                   f"was not run as often as its count demands ({c['n'] - sent} symbols left to the encloser)")
        self._why[key] = why
        return line

    # ---------------------------------------------------------------------------------------- lines
    def model_line(self, c):
        if c["op"] == "src":
            # `forget` is a no-op in the Source model (it has no memory): not sent to the driver
            return "src %s %s" % (hexs(bytes.fromhex(c["init"])), ",".join(o for o in c["ops"] if o != "f") or "-")
        if c["op"] == "eng":
            return eng_line(c["states"], c["top"], c["chunks"], [])
        if c["op"] == "lib":
            key = json.dumps(c, sort_keys=True)
            if key not in self._line:
                self.impl_lib(c)
            return self._line[key]
        raise ValueError(c["op"])

    # ---------------------------------------------------------------------------------------- impl
    def impl(self, c):
        if c["op"] == "src":
            return self.impl_src(c)
        if c["op"] == "eng":
            return self.impl_eng(c)
        if c["op"] == "lib":
            return self.impl_lib(c)
        raise ValueError(c["op"])

    def impl_src(self, c):
        import cpppo
        s = (cpppo.rememberable if c.get("mem") else cpppo.chainable)(bytes.fromhex(c["init"]))
        res = []
        for op in c["ops"]:
            if op == "f":
                s.forget()
            elif op == "n":
                try:
                    res.append(str(next(s)))
                except StopIteration:
                    res.append("-")
            elif op == "k":
                p = s.peek()
                res.append("-" if p is None else str(p))
            elif op[0] == "u":
                s.push(int(op[1:]))
                res.append("-")
            else:
                s.chain(b"" if op[1:] == "-" else bytes.fromhex(op[1:]))
                res.append("-")
        sent = s.sent
        rest = drain(s, [])
        return "%s %d %s" % (",".join(res) or "e", sent, hexs(rest))

    def impl_eng(self, c):
        import cpppo
        states = c["states"]
        objs, index = build_real(states)
        mon = Monitor()
        for i, s in enumerate(states):
            o = objs[i]
            if o is None:
                continue
            lim, rep = s.get("lim"), s.get("rep") if s["k"] == "D" else None
            if lim is None and s["k"] != "D":
                continue
            limv = None if lim is None else (
                (lambda path, data, v=lim[1]: v) if lim[0] == "c" else
                (lambda path, data, k=lim[1]: data.get(vpath(k), 0)))
            repv = None if rep is None else (
                (lambda path, data, v=rep[1]: v) if rep[0] == "c" else
                (lambda path, data, k=rep[1]: data.get(vpath(k), 0)))
            mon.attach(o, i, limv, repv, consumes=s["k"] in "id")
        all_input = b"".join(bytes.fromhex(x) for x in c["chunks"])
        out, src, pend, data = run_real(objs[c["top"]], c["chunks"], duck=bool(c.get("duck")))
        sent, peek = src.sent, show_peek(src)
        if out == "ok":
            dfas = ",".join("%d=%d.%d.%d" % (i, index[id(o.current)], o.cycle, o.final)
                            for i, o in enumerate(objs) if isinstance(o, cpppo.dfa_base))
            line = "ok %d %s %d %s" % (sent, peek, 1 if objs[c["top"]].terminal else 0, dfas or "-")
        else:
            line = "%s %d %s" % (out, sent, peek)
        why = property_verdict(mon.records, out, all_input, sent, drain(src, pend), taken=sent if c.get("duck") else None)
        key = self.model_line(c)
        if why:
            self._why[key] = why
        else:
            self._why.pop(key, None)
        return line

    # ---------------------------------------------------------------------------------------- oracle
    def oracle(self, c, out):
        if out.startswith("harness-exception"):
            return out
        if c["op"] == "src":
            return self.oracle_src(c, out)
        if c["op"] == "lib":
            return self._why.get(json.dumps(c, sort_keys=True))
        if out.split()[0] not in ("ok", "reject:NonTerminal", "reject:AssertionError"):
            return "unexpected outcome " + out
        return self._why.get(self.model_line(c))

    def oracle_src(self, c, out):
        """sent = symbols delivered by next - symbols pushed back; what was delivered, pushed and chained
        accounts exactly for the input (a plain list simulation written from the docstrings)"""
        res, sent, rest = out.split()
        res = [] if res == "e" else res.split(",")
        q = list(bytes.fromhex(c["init"]))
        n = 0
        for op, r in zip([o for o in c["ops"] if o != "f"], res):
            if op == "n":
                want = str(q.pop(0)) if q else "-"
                n += 1 if want != "-" else 0
            elif op == "k":
                want = str(q[0]) if q else "-"
            elif op[0] == "u":
                q.insert(0, int(op[1:]))
                n -= 1
                want = "-"
            else:
                q.extend(b"" if op[1:] == "-" else bytes.fromhex(op[1:]))
                want = "-"
            if r != want:
                return f"{op} returned {r}, expected {want}"
        if int(sent) != n:
            return f"sent={sent} but nexts-pushes={n}"
        if hexs(bytes(q)) != rest:
            return f"remaining {rest}, expected {hexs(bytes(q))}"
        return None

    # ---------------------------------------------------------------------------------------- stats
    def nontrivial(self, c, out):
        if c["op"] == "src":
            return self.model_line(c) if len(c["ops"]) >= 3 else None
        if c["op"] == "lib":
            return json.dumps(c, sort_keys=True) if (c["limit"] is not None or c.get("bound") is not None) \
                and out != "reject:data" else None
        toks = out.split()
        if len(toks) > 1 and toks[1].lstrip("-").isdigit() and int(toks[1]) > 0 and any(
                s.get("lim") or (s["k"] == "D" and s.get("rep")) for s in c["states"]):
            return self.model_line(c)
        return None

    def classify(self, c, out):
        if c["op"] == "src":
            return "src"
        if c["op"] == "lib":
            n = len(b"".join(bytes.fromhex(x) for x in c["chunks"]))
            rel = "nolimit" if c["limit"] is None and c.get("bound") is None else "limit"
            return "lib:%s:%s:%s" % (c["m"].split(":")[0].split(".")[0] if c["m"].startswith(("typed", "octets", "words")) else c["m"], rel, out.split()[0])
        return "%s:%s" % (c.get("fam", "eng"), out.split()[0])

    def shrink(self, c):
        if c["op"] == "src":
            for i in range(len(c["ops"])):
                yield {**c, "ops": c["ops"][:i] + c["ops"][i + 1:]}
            return
        if c["op"] == "lib":
            data = b"".join(bytes.fromhex(x) for x in c["chunks"])
            if len(c["chunks"]) > 1:
                yield {**c, "chunks": [data.hex()]}
            if c.get("n") is not None and len(data) > c["n"] + 1:
                yield {**c, "chunks": [data[:-1].hex()]}
            if c["mode"] == "wrap" and c["m"] not in ("Object.parser", "Message_Router.parser",
                                                      "Connection_Manager.parser", "Logix.parser"):
                yield {**c, "mode": "kw"}
            return
        if c["op"] != "eng":
            return
        data = b"".join(bytes.fromhex(x) for x in c["chunks"])
        if len(c["chunks"]) > 1:
            yield {**c, "chunks": [data.hex()]}
        for i in range(len(data)):
            yield {**c, "chunks": [(data[:i] + data[i + 1:]).hex()]}
        states = c["states"]
        for i, s in enumerate(states):
            for j in range(len(s.get("edges", []))):
                if s.get("store") is not None:
                    continue
                s2 = {**s, "edges": s["edges"][:j] + s["edges"][j + 1:]}
                yield {**c, "states": states[:i] + [s2] + states[i + 1:]}
            if s.get("lim") is not None and s.get("store") is None:
                yield {**c, "states": states[:i] + [{**s, "lim": None}] + states[i + 1:]}
            if s["k"] == "D" and s.get("rep") is not None and s.get("store") is None:
                yield {**c, "states": states[:i] + [{**s, "rep": None}] + states[i + 1:]}
