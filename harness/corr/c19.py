"""C19: remote/plc_modbus.py merge/shatter  vs  Cpppo.Merge (Lean)."""
import itertools
import json

from framework import Suite
from corr import c19_poll


def fmt(rs):
    rs = list(rs)
    return ",".join(f"{a}:{c}" for a, c in rs) if rs else "-"


def default_limit_bound(addr):
    """an upper bound on the default transfer limit for a piece at `addr`, from the Modbus bank layout"""
    return 1968 if addr // 10000 in (0, 1, 10, 11, 12, 13, 14, 15, 16) else 123


class C19(Suite):
    id = "C19"
    props_module = "Cpppo.Props.C19"
    rule = ("exhaustive multisets of small ranges x reach x limit (quick: <=3 ranges, thorough: <=4) plus seeded "
            "random ranges around every bank boundary; non-trivial = at least two input ranges that overlap, "
            "nest, touch or lie within reach (so that a merge decision is taken); distinct by input")
    assumptions = ["ranges have count >= 0 and (for the bank/disjointness clauses) lie inside one 10000-block",
                   "tightness is stated for non-empty input ranges (a zero-count range requests no register)"]

    def cases(self, tier, rng):
        amax, cmax, nmax = (7, 3, 3) if tier == "quick" else (9, 4, 4)
        uni = [(a, c) for a in range(1, amax + 1) for c in range(0, cmax + 1)]
        reaches = [0, 1, 2, 4]
        limits = [None, 1, 3]
        k = 0
        for n in range(1, nmax + 1):
            for combo in itertools.combinations_with_replacement(uni, n):
                # the full grid is large: reach x limit is rotated over the combos, every combo gets
                # every reach, limits rotate
                for reach in reaches:
                    k += 1
                    yield {"op": "merge", "ranges": [list(r) for r in combo], "reach": reach,
                           "limit": limits[k % 3]}
        yield {"op": "merge", "ranges": [], "reach": 1, "limit": None}
        # random, in real banks, across boundaries
        nrand = 3000 if tier == "quick" else 60000
        anchors = [0, 1, 990, 9990, 10000, 19995, 20000, 30001, 39990, 40001, 40990, 59990, 99990, 100001, 164990, 165500, 165536,
                   300990, 400001, 464990]      # bank boundaries, and multiples of 1000 / 5000 that are NOT bank boundaries
        for _ in range(nrand):
            n = rng.randint(1, 8)
            rs = []
            base = rng.choice(anchors)
            for _ in range(n):
                a = base + rng.randint(0, 40)
                c = rng.choice([0, 1, 1, 2, 3, 10, 125, 200, 2000, 5000])
                if rng.random() < 0.8 and c:   # mostly in-bank
                    c = min(c, (a // 10000 + 1) * 10000 - a)
                rs.append([a, c])
            rng.shuffle(rs)
            yield {"op": "merge", "ranges": rs, "reach": rng.choice([0, 1, 2, 5, 50, None]),
                   "limit": rng.choice([None, None, 0, 1, 7, 123, 125, 2000])}
        # the polling loop built on merge: the real poller thread, one turn at a time, against a scripted device
        for k in range(300 if tier == "quick" else 6000):
            yield c19_poll.gen(rng, big=(k % 10 == 0))
        for _ in range(nrand // 4):
            a = rng.choice(anchors) + rng.randint(0, 12)
            yield {"op": "shatter", "a": a, "c": rng.choice([0, 1, 2, 122, 123, 124, 1967, 1968, 1969, 5000]),
                   "limit": rng.choice([None, 0, 1, 2, 7, 123, 5000])}

    def model_line(self, c):
        if c["op"] == "poll":
            return f"poll {c['reach']} {';'.join(c['ops'])}"
        if c["op"] == "merge":
            lim = "-" if c["limit"] is None else str(c["limit"])
            reach = 0 if c["reach"] is None else c["reach"]
            return f"merge 1 {reach} {lim} {fmt(map(tuple, c['ranges']))}"
        lim = "-" if c["limit"] is None else str(c["limit"])
        return f"shatter {c['a']} {c['c']} {lim}"

    def impl(self, c):
        from cpppo.remote.plc_modbus import merge, shatter
        if c["op"] == "poll":
            return c19_poll.run_case(c)
        if c["op"] == "merge":
            try:
                return fmt(merge([tuple(r) for r in c["ranges"]], reach=c["reach"], limit=c["limit"]))
            except (RuntimeError, StopIteration):
                return "reject"
        return fmt(shatter(c["a"], c["c"], limit=c["limit"]))

    @staticmethod
    def parse(out):
        return [] if out == "-" else [tuple(map(int, p.split(":"))) for p in out.split(",")]

    def oracle(self, c, out):
        if out.startswith("harness-exception"):
            return out
        if c["op"] == "poll":
            return c19_poll.oracle(c, out)
        if c["op"] == "shatter":
            pieces = self.parse(out)
            pos = c["a"]
            for a, n in pieces:
                if a != pos or n < 1:
                    return f"pieces not consecutive/non-empty at {a}"
                if c["limit"] and n > c["limit"]:
                    return f"piece {a}:{n} longer than limit {c['limit']}"
                if not c["limit"] and n > default_limit_bound(c["a"]):
                    return f"piece {a}:{n} longer than the default limit"
                pos += n
            if pos != c["a"] + c["c"]:
                return f"pieces cover [{c['a']},{pos}) instead of [{c['a']},{c['a'] + c['c']})"
            return None
        rs = [tuple(r) for r in c["ranges"]]
        if not rs:
            return None if out == "reject" else "empty input accepted"
        if out == "reject":
            return "non-empty input rejected"
        pieces = self.parse(out)
        covered = set()
        for a, n in pieces:
            covered.update(range(a, a + n))
        requested = set()
        for a, n in rs:
            requested.update(range(a, a + n))
        missing = requested - covered
        if missing:
            return f"requested register {min(missing)} is not covered"
        inbank = all(n == 0 or a // 10000 == (a + n - 1) // 10000 for a, n in rs)
        for (a, n) in pieces:
            if n < 1:
                return f"empty output range {a}:{n}"
            if c["limit"] and n > c["limit"]:
                return f"range {a}:{n} longer than limit {c['limit']}"
            if not c["limit"] and n > (default_limit_bound(a) if inbank else 1968):
                return f"range {a}:{n} longer than the default limit"
            if inbank and a // 10000 != (a + n - 1) // 10000:
                return f"range {a}:{n} crosses a bank boundary"
        if inbank:
            for (a, n), (b, _m) in zip(pieces, pieces[1:]):
                if a + n > b:
                    return f"ranges {a}:{n} and {b} overlap or are out of order"
        if all(n >= 1 for _, n in rs):
            reach = c["reach"] or 1
            req = sorted(requested)
            import bisect
            for x in sorted(covered - requested):
                i = bisect.bisect_left(req, x)
                near = min([abs(x - req[j]) for j in (i - 1, i) if 0 <= j < len(req)])
                if near >= reach:
                    return f"register {x} is covered but not within reach {reach} of a requested one"
        return None

    def nontrivial(self, c, out):
        if c["op"] == "poll":
            # a turn that merged at least two known addresses into one request
            for step in out.split(";"):
                if step.startswith("data=") and "req=" in step:
                    if any(int(q.split(".")[2]) >= 2 for q in step.split("req=")[1].split(",") if q != "-"):
                        return json.dumps(c, sort_keys=True)
            return None
        if c["op"] != "merge" or len(c["ranges"]) < 2:
            return None
        rs = sorted(tuple(r) for r in c["ranges"])
        reach = c["reach"] or 1
        for (a, n), (b, _m) in zip(rs, rs[1:]):
            if b < a + n + reach:
                return json.dumps(c, sort_keys=True)
        return None

    def classify(self, c, out):
        if c["op"] == "poll":
            return "poll:" + ("fail" if "fail=-" not in out.replace("fail=-|", "", 0) and "|fail=" in out and any(
                "fail=-" not in s for s in out.split(";") if s.startswith("data=")) else "ok")
        if c["op"] == "shatter":
            return "shatter"
        rs = sorted(tuple(r) for r in c["ranges"])
        kinds = set()
        for (a, n), (b, m) in zip(rs, rs[1:]):
            if (a, n) == (b, m):
                kinds.add("dup")
            elif b + m <= a + n and b >= a:
                kinds.add("nested")
            elif b < a + n:
                kinds.add("overlap")
            elif b == a + n:
                kinds.add("adjacent")
            else:
                kinds.add("gap")
        return "merge:" + ("+".join(sorted(kinds)) or "single")

    def shrink(self, c):
        if c["op"] == "poll":
            ops = c["ops"]
            for i in range(len(ops)):
                yield {**c, "ops": ops[:i] + ops[i + 1:]}
            return
        if c["op"] != "merge":
            return
        rs = c["ranges"]
        for i in range(len(rs)):
            yield {**c, "ranges": rs[:i] + rs[i + 1:]}
        for i, (a, n) in enumerate(rs):
            if n > 1:
                yield {**c, "ranges": rs[:i] + [[a, n - 1]] + rs[i + 1:]}
        if c["limit"] is not None:
            yield {**c, "limit": None}
