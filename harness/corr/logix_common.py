"""
Shared by C03/C04/C05/C07: drive the real Logix simulator objects in-process and describe the same
device + request history to the Lean model (driver command `lgx`).

A case = {"budget": MAX_BYTES, "tags": [{"name","type","len","addr":[c,i,a]|None}], "reqs": [req, …]}
  req  = {"op":"rt","path":P,"n":N} | {"op":"rf","path":P,"n":N,"off":O}
       | {"op":"wt","path":P,"ty":T,"n":N,"vals":[…]} | {"op":"wf","path":P,"ty":T,"n":N,"off":O,"vals":[…]}
       | {"op":"gs","path":P} | {"op":"ss","path":P,"data":[bytes]} | {"op":"ga","path":P}
       | {"op":"mu","path":P,"reqs":[req…]}
  P    = list of segments: ["s",name] | ["c",n] | ["i",n] | ["a",n] | ["e",n]
  vals = ints / bools / floats given as bit patterns {"f32":bits} {"f64":bits} / strings (latin-1)

The request is encoded with cpppo's own client-side `produce`, parsed with the target object's parser
(so the request parsing glue is part of what is compared) and executed with `<Object>.request`.
Observables: the reply bytes (`data.input`) of every request and the bytes `produce()` of every Attribute.
"""
import logging
import struct

TYPES = {"BOOL": 0xc1, "SINT": 0xc2, "INT": 0xc3, "DINT": 0xc4, "LINT": 0xc5, "USINT": 0xc6, "UINT": 0xc7,
         "UDINT": 0xc8, "ULINT": 0xc9, "REAL": 0xca, "LREAL": 0xcb, "SSTRING": 0xda, "STRING": 0xd0}
CODE2NAME = {v: k for k, v in TYPES.items()}
SIZES = {"BOOL": 1, "SINT": 1, "INT": 2, "DINT": 4, "LINT": 8, "USINT": 1, "UINT": 2, "UDINT": 4, "ULINT": 8,
         "REAL": 4, "LREAL": 8}
RANGES = {"SINT": (-128, 127), "INT": (-2 ** 15, 2 ** 15 - 1), "DINT": (-2 ** 31, 2 ** 31 - 1),
          "LINT": (-2 ** 63, 2 ** 63 - 1), "USINT": (0, 255), "UINT": (0, 65535), "UDINT": (0, 2 ** 32 - 1),
          "ULINT": (0, 2 ** 64 - 1)}
FIXED = list(SIZES)


def hexs(b):
    b = bytes(b)
    return b.hex() if b else "-"


def pyval(v):
    """case value -> python value handed to cpppo's produce"""
    if isinstance(v, dict):
        if "f32" in v:
            return struct.unpack("<f", struct.pack("<I", v["f32"]))[0]
        return struct.unpack("<d", struct.pack("<Q", v["f64"]))[0]
    return v


def encode_vals(tyname, vals):
    """wire bytes of request data of type `tyname` (independent of cpppo: plain struct/tables)"""
    out = b""
    for v in vals:
        if tyname == "BOOL":
            out += b"\xff" if v else b"\x00"
        elif tyname == "REAL":
            out += struct.pack("<I", v["f32"])
        elif tyname == "LREAL":
            out += struct.pack("<Q", v["f64"])
        elif tyname == "SSTRING":
            s = v.encode("latin-1")
            out += bytes([len(s)]) + s
        elif tyname == "STRING":
            s = v.encode("latin-1")
            out += struct.pack("<H", len(s)) + s + (b"\x00" if len(s) % 2 else b"")
        else:
            k = SIZES[tyname]
            out += (v % (1 << (8 * k))).to_bytes(k, "little")
    return out


def seg_line(seg):
    k, v = seg
    if k == "s":
        return "s" + v.encode("latin-1").hex()
    return k + str(v)


def path_line(path):
    return "/".join(seg_line(s) for s in path) if path else "-"


def req_line(r):
    op = r["op"]
    p = path_line(r["path"])
    if op == "rt":
        return f"rt|{p}|{r['n']}"
    if op == "rf":
        return f"rf|{p}|{r['n']}|{r['off']}"
    if op == "wt":
        return f"wt|{p}|{r['ty']}|{r['n']}|{hexs(encode_vals(CODE2NAME[r['ty']], r['vals']))}"
    if op == "wf":
        return f"wf|{p}|{r['ty']}|{r['n']}|{r['off']}|{hexs(encode_vals(CODE2NAME[r['ty']], r['vals']))}"
    if op == "gs":
        return f"gs|{p}"
    if op == "ss":
        return f"ss|{p}|{hexs(bytes(r['data']))}"
    if op == "ga":
        return f"ga|{p}"
    if op == "mu":
        return f"mu|{p}|" + "&".join(req_line(m) for m in r["reqs"])
    raise ValueError(op)


CLASS_ATTRS = (1, 4)


def cip_path(path):
    segs = []
    for k, v in path:
        segs.append({{"s": "symbolic", "c": "class", "i": "instance", "a": "attribute", "e": "element"}[k]: v})
    return {"segment": segs}


def req_dotdict(r):
    import cpppo
    op = r["op"]
    d = cpppo.dotdict()
    d.path = cip_path(r["path"])
    if op == "rt":
        d.read_tag = {"elements": r["n"]}
    elif op == "rf":
        d.read_frag = {"elements": r["n"], "offset": r["off"]}
        if r.get("elide_n"):      # in-process callers may leave the count out: "the rest of the tag"
            del d.read_frag["elements"]
        if r.get("max_size") is not None:   # in-process callers may state the reply budget of THIS request
            d.read_frag["max_size"] = r["max_size"]
    elif op == "wt":
        d.write_tag = {"type": r["ty"], "elements": r["n"], "data": [pyval(v) for v in r["vals"]]}
    elif op == "wf":
        d.write_frag = {"type": r["ty"], "elements": r["n"], "offset": r["off"],
                        "data": [pyval(v) for v in r["vals"]]}
    elif op == "gs":
        d.get_attribute_single = True
    elif op == "ss":
        d.set_attribute_single = {"data": list(r["data"])}
    elif op == "ga":
        d.get_attributes_all = True
    elif op == "mu":
        d.multiple = {"request": [req_dotdict(m) for m in r["reqs"]]}
    return d


class Device:
    """the real simulator objects for one case"""

    def __init__(self, case):
        import cpppo
        from cpppo.server.enip import device, logix, parser
        self.cpppo, self.device, self.logix, self.parser = cpppo, device, logix, parser
        logging.disable(logging.CRITICAL)
        device.lookup_reset()
        logix.setup_reset()
        self.saved_max = logix.Logix.MAX_BYTES
        logix.Logix.MAX_BYTES = case["budget"]
        if case.get("budget_on") in ("instance", "request"):
            logix.Logix.MAX_BYTES = self.saved_max      # the class keeps its default: the serving object alone is scaled down
                                                        # / every request states its own budget (read_frag.max_size)
        if case.get("via_main"):
            tags = self.tags_via_main(case)
        else:
            tags = cpppo.dotdict()
            shared = {}
            for t in case["tags"]:
                cls = getattr(parser, t["type"])
                dflt = "" if "STRING" in t["type"] else (0.0 if "REAL" in t["type"] else 0)
                addr = tuple(t["addr"]) if t.get("addr") else None
                if addr and addr in shared:
                    attr = shared[addr]
                else:
                    attr = device.Attribute(t["name"], cls, default=(dflt if t["len"] == 1 else [dflt] * t["len"]))
                    if addr:
                        shared[addr] = attr
                e = cpppo.dotdict()
                e.attribute = attr
                e.path = ({"segment": [{"class": addr[0]}, {"instance": addr[1]}, {"attribute": addr[2]}]}
                          if addr else None)
                e.error = 0
                dict.__setitem__(tags, t["name"], e)
        logix.setup(tags=tags)
        self.router = device.lookup(2, 1)
        if case.get("budget_on") == "instance":
            self.router.MAX_BYTES = case["budget"]
        # actual addresses, as allocated by the real setup_tag
        self.addrs = {}
        for t in case["tags"]:
            self.addrs[t["name"]] = device.resolve_tag(t["name"])

    def tags_via_main(self, case):
        """let the simulator's own command line handling (server/enip/main.py) create the tags: `name[@c/i/a]=TYPE[len]`;
        main() runs on a thread just long enough to parse its arguments, then is told to stop"""
        import threading
        import time
        cpppo = self.cpppo
        from cpppo.server.enip import main as M
        argv = ["-a", "localhost:0"]
        for t in case["tags"]:
            spec = t["name"]
            if t.get("addr"):
                spec += "@%d/%d/%d" % tuple(t["addr"])
            spec += "=%s" % t["type"] + ("[%d]" % t["len"] if t["len"] != 1 else "")
            argv.append(spec)
        ctl = cpppo.dotdict()
        ctl.control = cpppo.apidict(timeout=0.1)
        for k, v in (("done", False), ("disable", False), ("latency", 0.01), ("timeout", 0.1)):
            ctl.control[k] = v
        if getattr(M, "tags", None):
            M.tags.clear()
        th = threading.Thread(target=lambda: M.main(argv=argv, server=ctl), daemon=True)
        th.start()
        want = {t["name"] for t in case["tags"]}
        t0 = time.time()
        while time.time() - t0 < 5:
            have = set(dict.keys(M.tags)) if getattr(M, "tags", None) is not None else set()
            if want <= have or not th.is_alive():
                break
            time.sleep(0.002)
        time.sleep(0.02)
        tags = cpppo.dotdict()
        for k, v in dict.items(M.tags):
            dict.__setitem__(tags, k, v)
        ctl.control["done"] = True
        th.join(2)
        return tags

    def close(self):
        self.logix.Logix.MAX_BYTES = self.saved_max

    def tag_line(self, case):
        parts = []
        for t in case["tags"]:
            c, i, a = self.addrs[t["name"]]
            parts.append(f"{t['name'].encode('latin-1').hex()}@{c}.{i}.{a}:{TYPES[t['type']]}:{t['len']}:"
                         f"{1 if t['len'] == 1 else 0}")
        return ",".join(parts) if parts else "-"

    def request(self, r):
        """-> reply hex, or 'X' when the request raised (the session would end)"""
        cpppo = self.cpppo
        obj = self.router
        try:
            if r.get("via_client") and r["op"] in ("rf", "wf", "rt", "wt") and r["path"][0][0] == "s":
                # the request as cpppo's own client builds it from a textual tag range and offset/elements arguments
                # (client.read / client.write with send=False), then through the wire form like any other
                from cpppo.server.enip import client as _client
                name = r["path"][0][1]
                idx = r["path"][1][1] if len(r["path"]) > 1 and r["path"][1][0] == "e" else None
                text = name if idx is None else "%s[%d-%d]" % (name, idx, idx + max(r["n"], 1) - 1)
                off = r.get("off") if r["op"] in ("rf", "wf") else None
                if r["op"] in ("rf", "rt"):
                    req = _client.client.read(None, text, elements=r["n"], offset=off, send=False)
                elif r["op"] == "wf" and idx is not None and CODE2NAME.get(r["ty"]) in ("SINT", "INT", "DINT", "LINT", "USINT", "UINT", "UDINT", "ULINT"):
                    # ... spelled as an operation text, as cpppo's command line and `parse_operations` take it
                    spelled = "%s+%d=(%s)%s" % (text, off, CODE2NAME[r["ty"]], ",".join(str(pyval(v)) for v in r["vals"]))
                    op = list(_client.parse_operations([spelled]))[0]
                    req = _client.client.write(None, send=False, **{k: v for k, v in op.items()
                                                                    if k in ("path", "data", "elements", "offset", "tag_type")})
                else:
                    req = _client.client.write(None, text, data=[pyval(v) for v in r["vals"]], elements=r["n"], offset=off,
                                               tag_type=r["ty"], send=False)
                encoded = obj.produce(req)
                data = cpppo.dotdict()
                source = cpppo.chainable(encoded)
                with obj.parser as machine:
                    for _m, _s in machine.run(source=source, data=data):
                        pass
                obj.request(data)
                return hexs(data.input)
            if r.get("direct"):
                # the in-process API: a request mapping handed straight to the object (no wire form in between)
                data = req_dotdict(r)
                obj.request(data)
                return hexs(data.input)
            encoded = obj.produce(req_dotdict(r))
            data = cpppo.dotdict()
            source = cpppo.chainable(encoded)
            with obj.parser as machine:
                for _m, _s in machine.run(source=source, data=data):
                    pass
            obj.request(data)
            return hexs(data.input)
        except Exception as exc:  # noqa
            self.last_exc = exc
            return "X"

    def dump(self, class_level=False):
        items = []
        seen = set()
        for name, (c, i, a) in sorted(self.addrs.items(), key=lambda kv: kv[1]):
            if (c, i, a) in seen:
                continue
            seen.add((c, i, a))
        # dump in object creation order as the model does: router first, then by first appearance
        order = []
        for t_addr in self.addrs.values():
            if t_addr not in order:
                order.append(t_addr)
        objs = [(2, 1)]
        for c, i, a in order:
            if (c, i) not in objs:
                objs.append((c, i))
        for c, i in objs:
            for (cc, ii, a) in order:
                if (cc, ii) == (c, i):
                    attr = self.device.lookup(c, i, a)
                    try:
                        items.append(f"{c}.{i}.{a}={hexs(attr.produce())}")
                    except Exception:
                        items.append(f"{c}.{i}.{a}=X")
        # the class-level instance (0) every CIP class gets: its static attributes Revision (1) and Optional Attributes (4)
        # (Max Instance / Num Instances depend on what the interpreter created before, see device.lookup_reset)
        classes = []
        for c, _i in (objs if class_level else []):
            if c not in classes:
                classes.append(c)
        for c in classes:
            for a in CLASS_ATTRS:
                attr = self.device.lookup(c, 0, a)
                try:
                    items.append(f"{c}.0.{a}={hexs(attr.produce())}")
                except Exception:
                    items.append(f"{c}.0.{a}=X")
        return ",".join(items) if items else "-"


def run_case(case):
    """-> output line `reply@dump;…` (as the driver prints it); records the allocated addresses and
    the tag spec line in the case (the model is told where the real setup put each tag)"""
    dev = Device(case)
    try:
        case["addrs"] = {k: list(v) for k, v in dev.addrs.items()}
        case["tagline"] = dev.tag_line(case)
        outs = []
        for r in case["reqs"]:
            rep = dev.request(r)
            outs.append(rep + "@" + dev.dump(class_level=True))
        return ";".join(outs) if outs else "-"
    finally:
        dev.close()


def model_line(case):
    if "tagline" not in case:      # replayed / corpus case: ask the real setup where the tags land
        try:
            dev = Device(case)
        except Exception:
            return "lgx-setup-failed"
        case["addrs"] = {k: list(v) for k, v in dev.addrs.items()}
        case["tagline"] = dev.tag_line(case)
        dev.close()
    reqs = ";".join(req_line(r) for r in case["reqs"]) if case["reqs"] else "-"
    return f"lgx {case['budget']} {case['tagline']} {reqs}"
