"""C10, library part: every parser machine of cpppo.server.enip.parser (and the service machines of the
CIP objects) run under limits, translated to the model's DSL from the live object graph.

  translate(top)   walk the real state graph (state.nodes-like, plus dfa sub-machines) -> DSL states
  Instrument       wraps, per real object, `decide.predicate`/`execute`, callable limits, `terminate`, and
                   `run`/`reset` (oracle monitors); the data artifact logs the `data.get` of str limits and
                   repeats made by automata.py's `run`/`delegate`.  Values go on the environment tape in
                   evaluation order.
"""
import struct
import sys

import cpppo
from cpppo.automata import dfa_base, state, state_input, state_drop

FMT_OK = (int, type(None))


class Unsupported(Exception):
    pass


def translate(top):
    """real graph -> (DSL states, objects in index order, decide objects)"""
    idx, order, decides = {}, [], {}

    def visit(n):
        if id(n) in idx:
            return idx[id(n)]
        idx[id(n)] = len(order)
        order.append(n)
        if n.recognizers or n.encoder is not None:
            raise Unsupported("recognizers/encoder on %s" % n)
        if isinstance(n, state_input) and n.alphabet is not None and n.alphabet is not int:
            raise Unsupported("alphabet on %s" % n)
        if isinstance(n, dfa_base):
            if isinstance(n, state_input):
                raise Unsupported("dfa_input/dfa_drop %s" % n)
            visit(n.initial)
        for k, v in dict.items(n):
            if not isinstance(k, int):
                raise Unsupported("key %r" % (k,))
            for t in (v if type(v) is list else [v]):
                if t is None:
                    continue
                if isinstance(t, state):
                    visit(t)
                elif hasattr(t, "state") and hasattr(t, "predicate"):
                    decides[id(t)] = t
                    if t.state is not None:
                        visit(t.state)
                else:
                    raise Unsupported("target %r" % (t,))
        return idx[id(n)]

    visit(top)

    def spec(v):
        if v is None:
            return None
        if isinstance(v, bool) or not isinstance(v, int):
            return ["t"]
        if v < 0:
            raise Unsupported("negative constant")
        return ["c", v]

    states = []
    for n in order:
        s = {"t": int(bool(n._terminal)), "g": int(bool(n.greedy)), "lim": spec(n.limit), "edges": []}
        if isinstance(n, dfa_base):
            s.update(k="D", init=idx[id(n.initial)], rep=spec(n.repeat), store=None)
        elif isinstance(n, state_drop):
            s["k"] = "d"
        elif isinstance(n, state_input):
            s["k"] = "i"
        else:
            s["k"] = "n"
        for k, v in sorted(dict.items(n)):
            lab = "a" if k == state.ANY else "e" if k == state.NON else k
            if isinstance(lab, int) and lab < 0:
                raise Unsupported("negative symbol key")
            tg = []
            for t in (v if type(v) is list else [v]):
                if t is None:
                    tg.append(["p", None])
                elif isinstance(t, state):
                    tg.append(["p", idx[id(t)]])
                else:
                    tg.append(["g", ["t"], None if t.state is None else idx[id(t.state)]])
            s["edges"].append([lab, tg])
        states.append(s)
    return states, order, list(decides.values())


class Session:
    """what one real run records"""

    def __init__(self):
        self.tape = []
        self.records = []
        self.open = {}            # id(node) -> its latest monitor record
        self.data_exception = None

    def fail(self, exc):
        self.data_exception = self.data_exception or type(exc).__name__


CUR = {"s": Session()}


class LogDict(cpppo.dotdict):
    """the data artifact: logs the values automata.py's `run` (str limits) and `delegate` (str repeats)
    read from it"""

    def get(self, key, default=None):
        v = cpppo.dotdict.get(self, key, default)
        f = sys._getframe(1)
        if f.f_code.co_name in ("run", "delegate") and f.f_code.co_filename.endswith("automata.py"):
            CUR["s"].tape.append(v)
        return v


def wrap_decide(d):
    if getattr(d, "_c10", False):
        return
    d._c10 = True
    pred, execute = d.predicate, d.execute

    def predicate(**kw):
        try:
            truth = pred(**kw)
        except Exception as exc:
            CUR["s"].fail(exc)
            raise
        CUR["s"].tape.append(1 if truth else 0)
        return truth

    def execute_(truth, **kw):
        try:
            return execute(truth, **kw)
        except Exception as exc:
            CUR["s"].fail(exc)
            raise
    d.predicate = predicate
    d.execute = execute_


def wrap_node(n):
    """callable limit -> tape; exceptions of `terminate` (data post-processing) are flagged"""
    if "_c10" in n.__dict__:
        return
    n._c10 = True
    if n.limit is not None and not isinstance(n.limit, (int, str)):
        orig_limit = n.limit

        def limit(**kw):
            try:
                v = orig_limit(**kw)
            except Exception as exc:
                CUR["s"].fail(exc)
                raise
            CUR["s"].tape.append(v)
            rec = CUR["s"].open.get(id(n))
            if rec is not None:
                rec["limit"] = v
            return v
        n.limit = limit
    orig_terminate = n.terminate

    def terminate(exception, **kw):
        try:
            return orig_terminate(exception, **kw)
        except Exception as exc:
            if exception is None:
                CUR["s"].fail(exc)
            raise
    n.terminate = terminate


def monitor(node, key):
    """oracle monitor: where each run of `node` started and stopped, its limit and repeat values, how many
    times its sub-machine was started"""
    if "_c10m" in node.__dict__:
        return
    node._c10m = True
    orig_run = node.run
    is_dfa = isinstance(node, dfa_base)
    counter = {"n": 0}
    if is_dfa:
        orig_reset = node.reset

        def reset():
            counter["n"] += 1
            return orig_reset()
        node.reset = reset

    def run(source, machine=None, path=None, data=None, ending=None):
        src = cpppo.peekable(source)
        lim = node.limit
        if isinstance(lim, str):
            lim = cpppo.dotdict.get(data, node.context(path, lim), 0)          # not logged
        elif lim is not None and not isinstance(lim, int):
            lim = None                                                          # filled in by the wrapper
        rep = node.repeat if is_dfa else None
        if isinstance(rep, str):
            rep = cpppo.dotdict.get(data, node.context(path, rep), 0)
        rec = {"key": key, "start": src.sent, "ending": ending, "how": "raised", "limit": lim,
               "repeat": rep, "consumes": isinstance(node, state_input), "cycles": None, "end": None,
               "terminal": None}
        counter["n"] = 0
        CUR["s"].records.append(rec)
        CUR["s"].open[id(node)] = rec
        try:
            yield from orig_run(source=src, machine=machine, path=path, data=data, ending=ending)
            rec["how"] = "done"
        except GeneratorExit:
            rec["how"] = "closed"
            raise
        finally:
            rec["end"] = src.sent
            if is_dfa:
                rec["cycles"] = counter["n"]
                rec["terminal"] = bool(node.terminal)
    node.run = run


class Instrumented:
    """a real machine, translated, with the logging wrappers and oracle monitors attached"""

    def __init__(self, top):
        self.top = top
        self.states, self.order, self.decides = translate(top)
        self.index = {id(o): i for i, o in enumerate(self.order)}
        for d in self.decides:
            wrap_decide(d)
        for i, n in enumerate(self.order):
            wrap_node(n)
            if n.limit is not None or (isinstance(n, dfa_base) and n.repeat is not None) or n is top:
                monitor(n, i)

    def reset(self):
        for n in self.order:
            if isinstance(n, dfa_base):
                n.current, n.cycle, n.final = n.initial, 0, 1

    def dfa_states(self):
        return ",".join("%d=%d.%d.%d" % (i, self.index.get(id(o.current), 9999), o.cycle, o.final)
                        for i, o in enumerate(self.order) if isinstance(o, dfa_base)) or "-"


# ------------------------------------------------------------------------------------------------
# the machines and their valid encodings
# ------------------------------------------------------------------------------------------------
def factories():
    """name -> zero-argument constructor of a fresh library machine"""
    from cpppo.server.enip import parser, device, logix
    f = {}
    for name in ("BOOL USINT SINT UINT INT WORD UDINT DWORD DINT ULINT LINT REAL LREAL UINT_network INT_network "
                 "UDINT_network DINT_network REAL_network IPADDR IPADDR_network SSTRING STRING STRUCT IFACEADDRS "
                 "EPATH EPATH_padded EPATH_single route_path status CPF unconnected_send communications_service "
                 "identity_object legacy_CPF_0x0001 connection_ID connection_data send_data register unregister "
                 "list_interfaces list_identity list_services legacy CIP enip_header enip_machine").split():
        cls = getattr(parser, name, None)
        if cls is not None:
            f[name] = (lambda c=cls: c(terminal=True))
    for tname, cls in sorted((c.__name__, c) for c in parser.typed_data.TYPES_SUPPORTED.values()):
        if tname == "STRUCT":
            f["typed_data:STRUCT"] = lambda: parser.typed_data(tag_type=parser.STRUCT.tag_type, terminal=True)
        else:
            f["typed_data:" + tname] = (lambda c=cls: parser.typed_data(tag_type=c.tag_type, terminal=True))
    for r in (0, 1, 3, 5):
        f["octets:%d" % r] = (lambda r=r: parser.octets(repeat=r, terminal=True))
        f["octets_drop:%d" % r] = (lambda r=r: parser.octets_drop(repeat=r, terminal=True))
    for r in (0, 1, 2):
        f["words:%d" % r] = (lambda r=r: parser.words(repeat=r, terminal=True))
    # the service request/reply machines registered on the CIP objects (class-level, shared)
    for cls in (device.Object, device.Message_Router, device.Connection_Manager, logix.Logix):
        f[cls.__name__ + ".parser"] = (lambda c=cls: c.parser)
    return f


def self_delimiting(name, encoding):
    """machines whose wire format carries its own length (fixed size, size/length/count prefixed): parsing
    a valid encoding followed by other bytes must leave those bytes alone (written from the wire formats)"""
    base = name.split(":")[0]
    if base in ("BOOL USINT SINT UINT INT WORD UDINT DWORD DINT ULINT LINT REAL LREAL UINT_network INT_network "
                "UDINT_network DINT_network REAL_network IPADDR IPADDR_network SSTRING STRING IFACEADDRS EPATH "
                "EPATH_padded EPATH_single route_path status CPF enip_header enip_machine send_data register "
                "list_interfaces list_identity list_services legacy connection_ID octets octets_drop words").split():
        return True
    if base == "unconnected_send":      # only the Unconnected Send service itself (0x52) carries lengths
        return encoding[:1] == b"\x52"
    if base == "Connection_Manager.parser":
        # a successful Forward Open reply (0xD4 / Large 0xDB, status 0, no extended status) ends with its
        # application reply size (words), a reserved octet and exactly that many words
        return len(encoding) >= 30 and encoding[0] in (0xD4, 0xDB) and encoding[2] == 0 and encoding[3] == 0
    return False


def u16(b, i):
    return b[i] | (b[i + 1] << 8)


def wire_valid(name, b):
    """is `b` exactly one well-formed element of this kind?  Decided from the wire format alone (length /
    count fields consistent with the content), without the library.  None = no validator for this kind."""
    base = name.split(":")[0]

    def cpf(b):
        if len(b) < 2:
            return False
        p = 2
        for _ in range(u16(b, 0)):
            if p + 4 > len(b):
                return False
            p += 4 + u16(b, p + 2)
        return p == len(b)

    if base in ("CPF", "list_interfaces", "list_identity", "list_services", "legacy"):
        return cpf(b)
    if base == "send_data":
        return len(b) >= 6 and cpf(b[6:])
    if base == "enip_machine":
        return len(b) >= 24 and u16(b, 2) == len(b) - 24
    if base == "enip_header":
        return len(b) == 24
    if base == "register":
        return len(b) == 4
    if base == "connection_ID":
        return len(b) == 4
    if base == "unconnected_send":
        if b[:1] != b"\x52" or len(b) < 2:
            return False
        p = 2 + 2 * b[1] + 2                 # service, path size (words), path, priority, timeout ticks
        if p + 2 > len(b):
            return False
        p += 2 + u16(b, p)                   # message length, message
        p += p % 2                           # pad to an even offset
        if p + 2 > len(b):
            return False
        return p + 2 + 2 * b[p] == len(b)    # route path size (words), pad, route path
    return None


def forward_open_replies():
    """successful Forward Open replies assembled from the wire format, with 0, 1, 2 and 5 words of
    application reply data"""
    out = []
    for service in (0xD4, 0xDB):
        for words in (0, 1, 2, 5):
            app = bytes(range(0x0A, 0x0A + 2 * words))
            out.append(struct.pack("<BBBBIIHHIIIBB", service, 0, 0, 0, 0x11111111, 0x22222222, 0x3333, 0x4444,
                                   0x55555555, 1000, 2000, words, 0) + app)
    return out


def cpf_encodings(rng):
    """CPF lists assembled from the wire format (count, then type_id/length/data items), including item
    types the library does not recognize"""
    req = bytes([0x4c, 0x02, 0x20, 0x02, 0x24, 0x01, 0x01, 0x00])      # a small CIP request (any octets do)
    items = [
        (0x0000, b""),
        (0x00b2, req),
        (0x00a1, struct.pack("<I", 0x12345678)),
        (0x00b1, struct.pack("<H", 7) + req),
        (0x9999, b""),
        (0x9999, b"\xaa\xbb"),
        (0x0123, b"\x01\x02\x03"),
    ]
    out = []
    combos = [[0], [0, 1], [2, 3], [5], [4], [0, 5], [5, 0], [6, 1], [1, 6], [0, 5, 1], []]
    for combo in combos:
        b = struct.pack("<H", len(combo))
        for k in combo:
            t, d = items[k]
            b += struct.pack("<HH", t, len(d)) + d
        out.append(b)
    return out


def cip_encodings(rng, corpus):
    """(enip.command, command-specific data) pairs for the CIP machine: assembled from the wire format, and
    the payloads of the captured frames (header length consistent with the frame)"""
    out = []
    out.append((0x0065, struct.pack("<HH", 1, 0)))
    out.append((0x0066, b""))
    for b in cpf_encodings(rng):
        for cmd in (0x0001, 0x0004, 0x0063, 0x0064):
            out.append((cmd, b))
        out.append((0x006f, struct.pack("<IH", 0, 5) + b))
        out.append((0x0070, struct.pack("<IH", 0, 5) + b))
    known = (0x0001, 0x0004, 0x0063, 0x0064, 0x0065, 0x0066, 0x006f, 0x0070)
    for _, pkt in corpus:
        if len(pkt) >= 24 and u16(pkt, 2) == len(pkt) - 24 and u16(pkt, 0) in known:
            out.append((u16(pkt, 0), pkt[24:]))
    seen, uniq = set(), []
    for x in out:
        if x not in seen:
            seen.add(x)
            uniq.append(x)
    return uniq


SHARED = ("Object.parser", "Message_Router.parser", "Connection_Manager.parser", "Logix.parser")


def produced(rng):
    """valid encodings made with the library's own produce() methods: (machine name, bytes)"""
    from cpppo.server.enip import parser
    dd = cpppo.dotdict
    out = []
    ints = {"USINT": (0, 255), "SINT": (-128, 127), "UINT": (0, 65535), "INT": (-32768, 32767), "WORD": (0, 65535),
            "UDINT": (0, 2**32 - 1), "DWORD": (0, 2**32 - 1), "DINT": (-2**31, 2**31 - 1), "ULINT": (0, 2**64 - 1),
            "LINT": (-2**63, 2**63 - 1), "UINT_network": (0, 65535), "INT_network": (-32768, 32767),
            "UDINT_network": (0, 2**32 - 1), "DINT_network": (-2**31, 2**31 - 1)}
    for name, (lo, hi) in ints.items():
        cls = getattr(parser, name)
        for v in (lo, hi, rng.randint(lo, hi)):
            out.append((name, cls.produce(v)))
    for name in ("REAL", "LREAL", "REAL_network"):
        for v in (0.0, 1.5, -2.25e10):
            out.append((name, getattr(parser, name).produce(v)))
    out.append(("BOOL", parser.BOOL.produce(True)))
    out.append(("BOOL", parser.BOOL.produce(False)))
    out.append(("IPADDR", parser.IPADDR.produce("10.1.2.3")))
    out.append(("IPADDR_network", parser.IPADDR_network.produce("10.1.2.3")))
    for s in ("", "a", "ab", "abc", "hello", "x" * 11):
        out.append(("SSTRING", parser.SSTRING.produce(s)))
        out.append(("STRING", parser.STRING.produce(s)))
    out.append(("STRUCT", parser.UINT.produce(0x1234) + b"\x01\x02\x03"))
    paths = [
        [],
        [dd({"class": 2}), dd({"instance": 1})],
        [dd({"class": 0x102}), dd({"instance": 1}), dd({"attribute": 7})],
        [dd({"symbolic": "SCADA"}), dd({"element": 12})],
        [dd({"symbolic": "ab"}), dd({"element": 70000})],
        [dd({"port": 1, "link": 0})],
        [dd({"port": 0x1234, "link": 9})],
        [dd({"port": 2, "link": "1.2.3.4"})],
        [dd({"port": 0x20, "link": "10.0.0.12"}), dd({"class": 6}), dd({"instance": 1})],
        [dd({"connection": 100}), dd({"instance": 300})],
    ]
    for p in paths:
        for name in ("EPATH", "EPATH_padded", "route_path"):
            out.append((name, getattr(parser, name).produce(dd(segment=[dd(s) for s in p]))))
        if len(p) == 1:
            out.append(("EPATH_single", parser.EPATH_single.produce(dd(segment=[dd(s) for s in p]))))
    for st in (dd(status=0), dd({"status": 5, "status_ext": {"size": 0, "data": []}}),
               dd({"status": 1, "status_ext": {"size": 1, "data": [0x2211]}}),
               dd({"status": 0xff, "status_ext": {"size": 2, "data": [0x2107, 1]}}),
               dd({"status": 1, "status_ext": {"size": 3, "data": [0x2211, 0x4433, 0x6655]}})):
        out.append(("status", parser.status.produce(st)))
    vals = {"BOOL": [True, False, True], "SINT": [-1, 2, 3], "USINT": [1, 2, 3, 4], "INT": [-300, 5],
            "UINT": [1, 65535, 7], "DINT": [-70000, 1], "UDINT": [70000, 2], "LINT": [-2**40], "ULINT": [2**40, 3],
            "REAL": [1.5, -2.0], "LREAL": [3.25], "SSTRING": ["ab", "", "xyz"], "STRING": ["abc", "de"]}
    for tname, vs in vals.items():
        cls = getattr(parser, tname)
        for k in range(0, len(vs) + 1):
            try:
                out.append(("typed_data:" + tname, parser.typed_data.produce(dd(data=vs[:k]), tag_type=cls.tag_type)))
            except Exception:
                pass
    for b in forward_open_replies():
        out.append(("Connection_Manager.parser", b))
    for b in cpf_encodings(rng):
        for name in ("CPF", "list_identity", "list_services", "list_interfaces", "legacy"):
            out.append((name, b))
        out.append(("send_data", struct.pack("<IH", 0, 5) + b))
    for r in (0, 1, 3, 5):
        out.append(("octets:%d" % r, bytes(range(10, 10 + r))))
        out.append(("octets_drop:%d" % r, bytes(range(10, 10 + r))))
    for r in (0, 1, 2):
        out.append(("words:%d" % r, bytes(range(20, 20 + 2 * r))))
    return out


def nested_inputs(frames):
    """the encapsulated byte strings inside captured frames (enip payload, CPF item payloads, requests):
    parse each frame the way server/enip_test.py does and collect every `...input` octet array"""
    import array
    from cpppo.server.enip import parser
    found = []
    for pkt in frames:
        data = cpppo.dotdict()
        try:
            with parser.enip_machine(context="enip") as m:
                for _ in m.run(source=cpppo.chainable(pkt), data=data):
                    pass
            with parser.CIP() as m:
                for _ in m.run(path="enip", source=cpppo.peekable(data.enip.get("input", b"")), data=data):
                    pass
        except Exception:
            pass
        for k, v in list(data.items()):
            if k.endswith("input") and isinstance(v, (array.array, bytes, bytearray)):
                try:
                    b = parser.octets_encode(v)
                except Exception:
                    continue
                if 0 < len(b) <= 400:
                    found.append(b)
    return found


def corpus_bytes():
    """the captured packets of server/enip_test.py (module-level bytes objects)"""
    out = []
    try:
        import logging
        lvl = logging.getLogger().level
        from cpppo.server import enip_test
        logging.getLogger().setLevel(lvl)
    except Exception:
        return out
    for k, v in sorted(vars(enip_test).items()):
        if isinstance(v, bytes) and 0 < len(v) <= 400:
            out.append((k, v))
    return out
