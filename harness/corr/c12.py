"""C12: server/enip/client.py (parse_operations, format_path, connector.issue/collect/harvest/pipeline/
synchronous/operate), device.parse_path*, get_attribute.attribute_operations/proxy  vs  Cpppo.Client (Lean).

Two ties:
 (a) grammar  - parse_operations / attribute_operations / parse_path_elements / format_path on generated
                text and segment lists (structured spellings with a known meaning, exhaustive short strings,
                mutated strings); canonical one-line rendering on both sides.
 (b) bookkeeping - an in-process simulator (cpppo.server.enip.main in a thread, 127.0.0.1, ephemeral port)
                and a real client.connector: every operation list is executed from identical starting states
                under depth x multiple x fragment x {synchronous, pipeline, operate, proxy}; the packets
                really sent (captured at connector.unconnected_send) and the yielded (index, status, value)
                sequence are compared with the model's `issue` + `pipeline`/`synchronous`, whose abstract
                in-order device answers with the tokens of the synchronous unbundled baseline run.
"""
import copy
import hashlib
import itertools
import json
import logging
import re
import threading
import time
from decimal import Decimal

from framework import Suite

DEPTHS = [0, 1, 2, 5, 20]
MULTIPLES = [0, 100, 250, 500, 4000]
CTX_LIMIT = 10 ** 8


class Unmodelled(BaseException):
    """raised at a stdlib boundary (json.loads, csv.reader, float) for input outside the modelled fragment;
    a BaseException so that the code's own `except Exception` clauses do not swallow it"""


# ------------------------------------------------------------------------------------------------
# canonical rendering (the driver prints the same syntax)
# ------------------------------------------------------------------------------------------------
def hx(s):
    return s.encode("latin-1").hex() or "-"


def seg_str(seg):
    if len(seg) == 1 and "symbolic" in seg and isinstance(seg["symbolic"], str):
        return "S" + hx(seg["symbolic"])
    for v in seg.values():
        if not isinstance(v, int) or isinstance(v, bool):
            raise TypeError("segment value not an int: %r" % (seg,))
    return "D" + ";".join("%s:%d" % (hx(k), v) for k, v in seg.items())


def segs_str(segs):
    return ",".join(seg_str(s) for s in segs) if segs else "-"


def real_str(f):
    sign, digits, exp = Decimal(repr(float(f))).as_tuple()
    mant = int("".join(map(str, digits)))
    e = 0
    if exp >= 0:
        mant *= 10 ** exp
    else:
        e = -exp
    while e > 0 and mant % 10 == 0:
        mant //= 10
        e -= 1
    if mant == 0:
        e = 0
    return "r%s%de%d" % ("-" if sign else "", mant, e)


def val_str(v):
    if isinstance(v, bool):
        return "bT" if v else "bF"
    if isinstance(v, int):
        return "i%d" % v
    if isinstance(v, float):
        return real_str(v)
    if isinstance(v, str):
        return "s" + hx(v)
    raise TypeError("value %r" % (v,))


def data_str(d):
    if d is None:
        return "-"
    if not d:
        return "()"
    return ";".join(val_str(v) for v in d)


def opt(v):
    return "-" if v is None else str(v)


def op_line(op, write=None):
    w = (1 if op.get("method") == "write" else 0) if write is None else write
    return "w=%d off=%s p=%s el=%s tt=%s d=%s" % (
        w, opt(op.get("offset")), segs_str(op["path"]), opt(op.get("elements")), opt(op.get("tag_type")),
        data_str(op.get("data")))


# ------------------------------------------------------------------------------------------------
# the stdlib boundary: json.loads / csv.reader / float outside the modelled fragment -> Unmodelled
# ------------------------------------------------------------------------------------------------
_WS = r"[ \t\n\r]*"
_ITEM = _WS + r'"[^"\\,:\x00-\x1f]*"' + _WS + ":" + _WS + r"-?(?:0|[1-9][0-9]*)" + _WS
JSON_FRAG = re.compile(r"\{(?:" + _WS + "|" + _ITEM + "(?:," + _ITEM + r")*)\}" + _WS, re.S)


class _Shim(object):
    def __init__(self, real, **over):
        self._real = real
        self.__dict__.update(over)

    def __getattr__(self, name):
        return getattr(self._real, name)


def _float_cast(x):
    if isinstance(x, str) and (any(c.isascii() and c.isalpha() for c in x) or sum(c in "0123456789" for c in x) > 15):
        raise Unmodelled("float(%r)" % (x,))
    return float(x)


class Boundary(object):
    """install the boundary shims around one call into the grammar code"""

    def __enter__(self):
        import csv as real_csv
        import json as real_json
        from cpppo.server.enip import client, device

        def loads(text, *a, **k):
            if not isinstance(text, str) or not JSON_FRAG.fullmatch(text):
                raise Unmodelled("json.loads(%r)" % (text,))
            return real_json.loads(text, *a, **k)

        def reader(lines, *a, **k):
            lines = list(lines)
            for ln in lines:
                if any(c == '"' or (ord(c) < 32 and c != "\t") for c in ln):
                    raise Unmodelled("csv.reader(%r)" % (ln,))
            return real_csv.reader(lines, *a, **k)

        self.client, self.device = client, device
        self.saved = (device.json, client.csv, dict(client.CIP_TYPES))
        device.json = _Shim(real_json, loads=loads)
        client.csv = _Shim(real_csv, reader=reader)
        for name in ("REAL", "LREAL"):
            tt, sz, cast = client.CIP_TYPES[name]
            if cast is float:
                client.CIP_TYPES[name] = (tt, sz, _float_cast)
        return self

    def __exit__(self, *exc):
        self.device.json, self.client.csv, types = self.saved
        self.client.CIP_TYPES.clear()
        self.client.CIP_TYPES.update(types)
        return False


def guarded(fn):
    """run a grammar call: ('ok', result) | ('reject', None) | ('unmodelled', None)"""
    try:
        with Boundary():
            return "ok", fn()
    except Unmodelled:
        return "unmodelled", None
    except Exception:
        return "reject", None


# ------------------------------------------------------------------------------------------------
# structured spellings with a known meaning (the oracle's side of "denotes exactly what it spells")
# ------------------------------------------------------------------------------------------------
TYPES = {  # name -> (tag_type, size, kind, lo, hi): the documented CIP types (oracle side, independent table)
    "BOOL": (0xC1, 1, "bool", 0, 0), "SINT": (0xC2, 1, "int", -2 ** 7, 2 ** 8 - 1), "INT": (0xC3, 2, "int", -2 ** 15, 2 ** 16 - 1),
    "DINT": (0xC4, 4, "int", -2 ** 31, 2 ** 32 - 1), "LINT": (0xC5, 8, "int", -2 ** 63, 2 ** 64 - 1),
    "USINT": (0xC6, 1, "int", 0, 2 ** 8 - 1), "UINT": (0xC7, 2, "int", 0, 2 ** 16 - 1), "UDINT": (0xC8, 4, "int", 0, 2 ** 32 - 1),
    "ULINT": (0xC9, 8, "int", 0, 2 ** 64 - 1), "REAL": (0xCA, 4, "real", 0, 0), "LREAL": (0xCB, 8, "real", 0, 0),
    "STRING": (0xD0, 0, "str", 0, 0), "SSTRING": (0xDA, 0, "str", 0, 0),
}
NAMES = ["TAG", "Tag", "a", "B_2", "SCADA", "Motor_7", "x", "Zz9"]
WS = ["", "", "", " ", "  ", "\t"]


def spell_nat(rng, v, allow_base=True):
    """a spelling of the non-negative integer v that parse_int documents (decimal, leading zeros, 0x/0o/0b)"""
    r = rng.random()
    if not allow_base or r < 0.55:
        return str(v)
    if r < 0.65:
        return "0" * rng.randint(1, 3) + str(v)
    if r < 0.8:
        return rng.choice(["0x%x", "0x%X", "0X%x", "0x%04X"]) % v
    if r < 0.87:
        return "0o%o" % v
    if r < 0.94:
        return "0b" + bin(v)[2:]
    s = str(v)
    return s[:1] + "_" + s[1:] if len(s) > 1 else s


def gen_spelled(rng):
    """-> (text, fragment, int_type, expected) with expected = dict of the operation, or 'reject'"""
    fragment = rng.random() < 0.3
    int_type = rng.choice(["INT", "INT", "INT", "DINT", "SINT", "dint", " UINT "])
    segs = []
    if rng.random() < 0.6:
        levels = rng.choice([1, 1, 1, 2, 3])
        parts = []
        for lv in range(levels):
            nm = rng.choice(NAMES)
            segs.append({"symbolic": nm})
            if lv < levels - 1 and rng.random() < 0.4:
                e = rng.choice([0, 1, 7, 99])
                parts.append("%s[%s]" % (nm, spell_nat(rng, e, False)))
                segs.append({"element": e})
            else:
                parts.append(nm)
        tag = ".".join(parts)
    else:
        n = rng.choice([1, 2, 3, 3, 3, 4])
        keys = ["class", "instance", "attribute", "element"]
        terms = []
        for i in range(n):
            v = rng.choice([0, 1, 2, 7, 26, 0x99, 255, 511, 65535])
            if rng.random() < 0.2:
                terms.append(json.dumps({keys[i]: v}, separators=rng.choice([(",", ":"), (", ", ": ")])))
            else:
                terms.append(spell_nat(rng, v))
            segs.append({keys[i]: v})
        if rng.random() < 0.15:
            v = rng.choice([1, 100, 4096])
            terms.append('{"connection":%d}' % v)
            segs.append({"connection": v})
        tag = "@" + "/".join(terms)
    elm = cnt = None
    r = rng.random()
    if r < 0.35:
        elm = rng.choice([0, 1, 2, 5, 17, 99, 1000])
        tag += "[%s%s%s]" % (rng.choice(WS), spell_nat(rng, elm, False), rng.choice(WS))
    elif r < 0.7:
        elm = rng.choice([0, 1, 2, 5, 17, 99])
        cnt = rng.choice([1, 2, 3, 4, 5, 10])
        tag += "[%s%s-%s%s]" % (spell_nat(rng, elm, False), rng.choice(WS), rng.choice(WS), spell_nat(rng, elm + cnt - 1, False))
    if cnt is None and rng.random() < 0.25:
        cnt = rng.choice([1, 2, 3, 4, 8])
        tag += "*" + spell_nat(rng, cnt)
    if elm is not None:
        if "element" in segs[-1]:
            segs[-1] = dict(segs[-1], element=elm)
        else:
            segs.append({"element": elm})
    exp = {"path": segs}
    if cnt is not None:
        exp["elements"] = cnt
    text = tag
    off = None
    if rng.random() < 0.3:
        off = rng.choice([0, 0, 2, 4, 8, 12, 16])
        text = tag + rng.choice(WS) + "+" + rng.choice(WS) + str(off)
        exp["offset"] = off
    if rng.random() < 0.55:
        # a write: = [ (TYPE) ] v, v, ...
        tname = rng.choice(["", "", "", "INT", "DINT", "SINT", "USINT", "UINT", "UDINT", "LINT", "ULINT", "REAL", "LREAL", "BOOL", "SSTRING", "STRING"])
        if tname:
            ty = TYPES[tname]
        elif rng.random() < 0.25:
            ty = TYPES["REAL"]                       # decided by a '.' among the values
        else:
            ty = TYPES[int_type.strip().upper()]
        tt, size, kind, lo, hi = ty
        n = rng.choice([1, 1, 2, 3, 4, 5])
        if cnt is not None and rng.random() < 0.8:
            n = cnt if off is None else max(1, cnt - (off // size if size else 0))
        vals, toks = [], []
        for j in range(n):
            lead = rng.choice(["", "", " ", "  "]) if j else ""
            if kind == "int":
                v = rng.choice([lo, hi, 0, 1, -1 if lo < 0 else 2, rng.randint(lo, hi)])
                vals.append(v)
                toks.append(lead + rng.choice(["", "", "\t"]) + str(v) + rng.choice(["", "", " "]))
            elif kind == "real":
                m = rng.choice([0, 1, 5, 25, 125, 314159, 99999])
                e = rng.choice([1, 2, 3])
                s = ("-" if rng.random() < 0.3 else "") + ("%d.%0*d" % (m // 10 ** e, e, m % 10 ** e))
                vals.append(float(s))
                toks.append(lead + s)
            elif kind == "bool":
                b = rng.random() < 0.5
                vals.append(b)
                toks.append(lead + rng.choice(["1", "7", "true", "True", "TRUE"] if b else ["0", "00", "false", "False"]))
            else:
                s = rng.choice(["abc", "x", "Hello World", "a b", "3", "A-1"])
                vals.append(s)
                toks.append(lead + s)
        cast = ("(" + rng.choice(WS[:4]) + rng.choice([tname, tname.lower(), tname.capitalize()]) + rng.choice(WS[:4]) + ")") if tname else ""
        text = text + rng.choice(WS) + "=" + rng.choice(WS) + cast + ",".join(toks)
        exp["method"] = "write"
        exp["tag_type"] = tt
        exp["data"] = vals
        if off is None and not fragment:
            if "elements" not in exp:
                exp["elements"] = len(vals)
            if len(vals) != exp["elements"]:
                exp = "reject"
        elif not size or "elements" not in exp:
            exp = "reject"
        elif off and (off % size != 0 or off // size + len(vals) > exp["elements"]):
            exp = "reject"
        elif not off and len(vals) > exp["elements"]:
            exp = "reject"
    return {"k": "parse", "text": text, "frag": fragment, "ity": int_type, "spec": exp}


ALPHABET = "=+*[]-.,()@/{}\":_ \t0123456789abcdefxXoOtruelsINTDREAL"


def mutate(rng, text):
    for _ in range(rng.choice([1, 1, 2, 3])):
        r = rng.random()
        i = rng.randint(0, len(text))
        if r < 0.35 and text:
            i = min(i, len(text) - 1)
            text = text[:i] + text[i + 1:]
        elif r < 0.7:
            text = text[:i] + rng.choice(ALPHABET) + text[i:]
        elif text:
            i = min(i, len(text) - 1)
            text = text[:i] + rng.choice(ALPHABET) + text[i + 1:]
    return text


HAND = [  # documented examples and boundary spellings
    "TAG", "TAG[0]", "TAG[1-5]", "TAG[1-5]+4", "TAG[4-7]=1,2,3,4", "@0x1FF/01/0x1A[99]", "Tag[1]*3", "Tag*3", "Tag*-3",
    "Tag[5-4]", "Tag[5-5]", "Tag[-1]", "Tag[1--2]", "Tag[1]x", "Tag[1", "Tag]", "Tag[]", "Tag[a]", "Tag[1-]", "Tag[-]",
    "Foo[1].Boo[123-456]", "Foo[1-2].Boo", "Foo[1-1].Boo", "Foo*1.Boo", "Foo*2.Boo", "a..b", ".", "", " ", "@", "@/", "@1//2",
    "@1/2/3/4/5", "@1/2/3/4/{\"x\":1}", "@{\"class\":4}/5/{\"connection\":100}", "@{\"class\": 4 , \"instance\" :5}", "@{}", "@{}[3]",
    "@{\"element\":4}[7]", "@1/2/3/4[7]", "@{\"a\":1,\"a\":2}", "@{\"a\":01}", "@{\"a\":-0}", "@{\"a\":1.5}", "@{\"a\":\"b\"}", "@{\"a\":[1]}",
    "@{\"a\":1e3}", "@{\"a\":true}", "@{\"a\\n\":1}", "@ {\"a\":1}", "@{\"a\":1} ", "@0x", "@0x_1", "@0x__1", "@0b102", "@0o8", "@1_0", "@_1",
    "@1_", "@+5", "@-5", "@ 5 ", "@+ 5", "@012", "@0x1g", "@0X1F", "@0B11", "@0O17", "T=", "T= ", "T=1", "T=(DINT)", "T=(DINT) ", "T=()1",
    "T=(XYZ)1", "T=( dint )1", "T=(DINT)1,2", "T=1,,2", "T=1, 2", "T=1 ,2", "T=\t1", "T=1.5", "T=1.", "T=.5", "T=.", "T=1.5.2", "T=1_0.5",
    "T=1e5", "T=inf", "T=nan", "T=(REAL)1", "T=(REAL)1_000", "T=(REAL)-0", "T=(REAL)+.5", "T=(REAL)1234567890123456", "T=(BOOL)true",
    "T=(BOOL)True ", "T=(BOOL)2", "T=(BOOL)yes", "T=(SINT)255", "T=(SINT)256", "T=(SINT)-128", "T=(SINT)-129", "T=(USINT)-1",
    "T=(LINT)18446744073709551615", "T=(LINT)18446744073709551616", "T=(ULINT)-1", "T=(SSTRING)abc", "T=(SSTRING)a, b,c ", "T=(STRING)",
    "T=\"abc\"", "T=(SSTRING)\"a,b\"", "T[0-2]=1,2", "T[0-2]=1,2,3", "T[0-2]+2=(INT)5,6", "T[0-2]+2=(INT)5,6,7", "T[0-2]+1=(INT)5",
    "T[0-3]+-4=(DINT)1", "T+4=(DINT)1", "T[0-1]+=1,2", "T+", "T+x", "T+ 4 ", "T+0x4", "T+4+4", "T=1=2", "T = 1", " T ", " T", "T ", "T [1]",
    "T[ 1 ]", "T[1 - 3]", "T*0x10", "T* 3", "T*", "T*3[1]", "T[1]*3*4", "T=(INT)1)2", "T=(INT(DINT)1", "T=x(INT)1", "T= (INT)1", "T=(INT) 1 , 2 ",
    "T=+1", "T=-1", "T=- 1", "T=1_0", "T=_1", "T=0x10", "T=(dint)0x10",
]


# ------------------------------------------------------------------------------------------------
# segment lists for format_path
# ------------------------------------------------------------------------------------------------
def wf_path(segs):
    """the shape format_path documents: [{'symbolic': tag}, ...] or [{'class':..},{'instance':..},{'attribute':..}]
    (a prefix of it, optionally continued by other single-key integer segments), optionally followed by one
    {'element': ...}; names non-empty without '.', '[', '*', and not starting with '@'; values >= 0"""
    if not segs:
        return False
    body = segs[:-1] if set(segs[-1]) == {"element"} else segs
    if not body:
        return False
    for s in segs:
        if len(s) != 1:
            return False
    if all("symbolic" in s for s in body):
        return all(isinstance(s["symbolic"], str) and s["symbolic"] and not any(c in s["symbolic"] for c in ".[*")
                   and not s["symbolic"].startswith("@") for s in body) and \
            (segs is body or segs[-1]["element"] >= 0)
    if any("symbolic" in s or "element" in s for s in body):
        return False
    for s in segs:
        (k, v), = s.items()
        if not isinstance(v, int) or v < 0 or not re.fullmatch(r"[A-Za-z_][A-Za-z0-9_]*", k):
            return False
    return True


def gen_segs(rng):
    r = rng.random()
    big = lambda: rng.choice([0, 1, 2, 9, 10, 15, 16, 255, 256, 0x99, 4095, 4096, 65535, 65536, 10 ** 6, rng.randint(0, 2 ** 33)])
    if r < 0.3:
        segs = [{"symbolic": rng.choice(NAMES + ["A1", "long_tag_name_0123456789"])} for _ in range(rng.choice([1, 1, 2, 3]))]
    elif r < 0.7:
        keys = ["class", "instance", "attribute"]
        n = rng.choice([1, 2, 3, 3])
        segs = [{keys[i]: big()} for i in range(n)]
        while rng.random() < 0.25:
            segs.append({rng.choice(["connection", "class", "instance", "attribute", "member", "x_1"]): big()})
    else:
        pal = [{"symbolic": rng.choice(NAMES)}, {"class": big()}, {"instance": big()}, {"attribute": big()}, {"element": big()},
               {"connection": big()}, {"port": 1, "link": big()}, {}, {"class": -big()}, {"element": -1}, {"symbolic": ""},
               {"symbolic": "a.b"}, {"symbolic": "@x"}, {"symbolic": "a[1]"}, {"symbolic": "a*2"}, {"instance": 1, "class": 2},
               {"a b": 3}, {"": 1}]
        segs = [copy.deepcopy(rng.choice(pal)) for _ in range(rng.randint(0, 4))]
    if rng.random() < 0.5:
        segs.append({"element": big() if rng.random() < 0.9 else -big()})
    count = rng.choice([None, None, 1, 2, 5, 100, 0, -1, big()])
    return segs, count


# ------------------------------------------------------------------------------------------------
# the simulator and the operation palette for the bookkeeping tie
# ------------------------------------------------------------------------------------------------
TAGS = [("A", "DINT", 20), ("B", "INT", 10), ("S", "SINT", 8), ("R", "REAL", 6), ("Sc", "DINT", 1), ("Big", "DINT", 300),
        ("X@0x99/1/1", "INT", 4), ("Y@0x99/1/2", "DINT", 3)]
PATHS = [  # identity -> (route_path, send_path) as given in the operation dict; 0 = neither key present
    {}, {"route_path": [{"port": 1, "link": 0}]}, {"route_path": [{"port": 1, "link": 1}]}, {"send_path": "@6/1"},
    {"route_path": False, "send_path": ""}, {"route_path": [{"port": 1, "link": 0}], "send_path": "@6/1"},
]
ROUTES = [None, [{"port": 1, "link": 0}], [{"port": 1, "link": 1}], False]
SENDS = [None, "@6/1", ""]


def path_ids(op):
    rp, sp = op.get("route_path"), op.get("send_path")
    return (ROUTES.index(rp) if rp is not False else 3), SENDS.index(sp)


def gen_opspec(rng):
    """one operation: {'t': text, 'a': attribute-service?, 'x': extra keys} or {'d': dict-op}; all answerable by the
    simulator with a CIP status (none ends the session); writes only with values representable in the tag's type"""
    r = rng.random()
    x = {}
    if rng.random() < 0.25:
        x.update(copy.deepcopy(rng.choice(PATHS)))
    if r < 0.30:      # reads: in range, at the end, beyond the end (refused), big (partial, status 6)
        name, ty, n = rng.choice(TAGS[:6])
        form = rng.random()
        if n == 1:
            t = rng.choice([name, name + "[0]", name + "[1]"])
        elif form < 0.6:
            a = rng.randint(0, n - 1)
            b = rng.randint(a, min(n - 1, a + 12))
            t = "%s[%d-%d]" % (name, a, b)
        elif form < 0.75:
            t = "%s[%d]" % (name, rng.choice([0, n - 1, n, n + 5]))
        elif form < 0.9:
            a = rng.randint(max(0, n - 3), n - 1)
            t = "%s[%d-%d]" % (name, a, a + rng.randint(0, 4))          # may cross the end: refused
        else:
            t = rng.choice([name, name + "*2", name + "[0]*%d" % min(n, 200)])
        if rng.random() < 0.3:
            x[rng.choice(["data_size", "data_size", "tag_type"])] = rng.choice([4, 8, 40, 400, 0xC4, 0xC3])
            if "tag_type" in x and x["tag_type"] not in (0xC3, 0xC4):
                x["tag_type"] = 0xC4
        if rng.random() < 0.15 and x.get("send_path") != "":
            t += "+%d" % rng.choice([0, 4, 8])
        return {"t": t, "x": x}
    if r < 0.60:      # writes
        name, ty, n = rng.choice(TAGS[:5])
        lim = {"DINT": (-2 ** 31, 2 ** 31 - 1), "INT": (-2 ** 15, 2 ** 15 - 1), "SINT": (-128, 127)}
        form = rng.random()
        if n == 1:
            a, k = 0, 1
            loc = rng.choice(["", "[0]"])
        else:
            a = rng.randint(0, n - 1)
            k = rng.randint(1, min(5, n - a))
            loc = "[%d-%d]" % (a, a + k - 1) if k > 1 or rng.random() < 0.5 else "[%d]" % a
        if form < 0.70:                      # well typed, in range
            if ty == "REAL":
                vals = ["%d.%s" % (rng.randint(-99, 99), rng.choice(["0", "5", "25", "125"])) for _ in range(k)]
            else:
                lo, hi = lim[ty]
                vals = [str(rng.choice([lo, hi, 0, 1, -1, rng.randint(lo, hi)])) for _ in range(k)]
            t = "%s%s=(%s)%s" % (name, loc, ty, ",".join(vals))
        elif form < 0.85:                    # wrong type: refused
            other = rng.choice([o for o in ("DINT", "INT", "SINT", "REAL") if o != ty])
            vals = ["1.5" if other == "REAL" else "1"] * k
            t = "%s%s=(%s)%s" % (name, loc, other, ",".join(vals))
        else:                                # beyond the end: refused
            vals = ["1.5" if ty == "REAL" else "1"] * 2
            t = "%s[%d-%d]=(%s)%s" % (name, n - 1, n, ty, ",".join(vals))
        return {"t": t, "x": x}
    if r < 0.80:      # attribute services
        t = rng.choice(["@0x99/1/1", "@0x99/1/2", "@0x99/1", "@0x99/1/9", "@0x99/1/1=(INT)%d,%d,%d,%d" % tuple(rng.randint(-9, 9) for _ in range(4)),
                        "@0x99/1/1=(INT)1,2", "@0x99/1/2=(DINT)%d,%d,%d" % tuple(rng.randint(-9, 9) for _ in range(3)),
                        "@0x99/1/9=(SINT)1", "X", "A", "@1/1", "@1/1/7", "@2/1/1"])
        if rng.random() < 0.4 and "=" not in t:
            x[rng.choice(["data_size", "tag_type"])] = rng.choice([8, 12, 60]) if rng.random() < 0.5 else 0xC6
            if "tag_type" in x:
                x["tag_type"] = rng.choice([0xC6, 0xC3])
                if rng.random() < 0.5:
                    x["elements"] = rng.choice([1, 4, 8, 40])
            if "data_size" in x and x["data_size"] == 0xC6:
                x["data_size"] = 8
        return {"t": t, "a": 1, "x": x}
    # generic service codes (Get/Set Attribute Single, Get Attributes All by number)
    d = rng.choice([
        {"method": "service_code", "code": 0x0E, "path": "@0x99/1/2"},
        {"method": "service_code", "code": 0x0E, "path": "@0x99/1/2", "data_size": 12},
        {"method": "service_code", "code": 0x0E, "path": "@0x99/1/9", "data_size": 2},
        {"method": "service_code", "code": 0x01, "path": "@0x99/1", "data_size": rng.choice([20, 200])},
        {"method": "service_code", "code": 0x10, "path": "@0x99/1/1", "data": [rng.randint(0, 255) for _ in range(8)], "data_size": 1},
        {"method": "service_code", "code": 0x10, "path": "@0x99/1/1", "data": [rng.randint(-9, 9) for _ in range(4)], "tag_type": 0xC3},
        {"method": "service_code", "code": 0x10, "path": "@0x99/1/1", "data": [1, 2], "tag_type": 0xC3, "data_size": 4},
    ])
    d = copy.deepcopy(d)
    d.update(x)
    return {"d": d}


# (attribute address, declared type): the declared type need not be the tag's own (raw octets are re-read with it);
# a list of types reads the octets type by type; @0x99/1/9 does not exist (refused), @1/1/7 is the Identity's name
TYPED_ATTRS = [("@0x99/1/1", "INT"), ("@0x99/1/1", "SINT"), ("@0x99/1/1", "DINT"), ("@0x99/1/1", ["INT", "SINT", "SINT", "DINT"]),
               ("@0x99/1/2", "DINT"), ("@0x99/1/2", "REAL"), ("@0x99/1/2", "INT"), ("@0x99/1/2", ["SINT", "SINT", "INT", "DINT", "REAL"]),
               ("@0x99/1/9", "INT"), ("@1/1/7", "SSTRING"), ("@1/1/1", "INT"), ("@1/1/6", "DINT")]


SETTINGS = [(via, d, m) for via in "spo" for d in DEPTHS for m in MULTIPLES]


class Sim(object):
    """the simulator (one per check run) and one connector, re-made after a failed run"""

    def __init__(self):
        import cpppo
        from cpppo.server import enip
        from cpppo.server.enip import main as enip_main_module
        from cpppo.dotdict import apidict
        logging.getLogger().setLevel(logging.ERROR)
        self.control = apidict(enip.timeout, {"done": False})
        argv = ["-a", "127.0.0.1:0", "--no-udp", "--no-config"] + ["%s=%s[%d]" % t if t[2] > 1 else "%s=%s" % t[:2] for t in TAGS]
        self.thread = threading.Thread(target=enip_main_module.main, kwargs={"argv": argv, "server": {"control": self.control}})
        self.thread.daemon = True
        self.thread.start()
        for _ in range(400):
            if self.control.get("address") and self.control["address"][1]:
                break
            time.sleep(0.025)
        else:
            raise RuntimeError("simulator did not start")
        self.addr = tuple(self.control["address"])[:2]
        self.module = enip_main_module
        self.conn = None
        self.initial = None
        logging.getLogger().setLevel(logging.ERROR)

    def connect(self):
        from cpppo.server.enip import client
        if self.conn is not None:
            try:
                self.conn.close()
            except Exception:
                pass
        self.conn = client.connector(host=self.addr[0], port=self.addr[1], timeout=10.0)
        return self.conn

    def attributes(self):
        return [(name, ent.attribute) for name, ent in dict.items(self.module.tags)]

    def reset(self):
        """identical starting state: every tag back to its initial value"""
        if self.initial is None:
            self.initial = {name: copy.deepcopy(att.default) for name, att in self.attributes()}
        for name, att in self.attributes():
            init = self.initial[name]
            if isinstance(init, list):
                att.default[:] = copy.deepcopy(init)
            else:
                att.default = copy.deepcopy(init)

    def stop(self):
        try:
            if self.conn is not None:
                self.conn.close()
        except Exception:
            pass
        self.control["done"] = True
        self.thread.join(timeout=3.0)


KIND_LETTER = [("read_tag", "t"), ("read_frag", "f"), ("write_tag", "w"), ("write_frag", "x"), ("set_attribute_single", "s"),
               ("get_attribute_single", "g"), ("get_attributes_all", "a"), ("service_code", "c")]


def req_letter(req):
    for key, letter in KIND_LETTER:
        if key in req:
            return letter
    return "?"


def canon_value(v):
    if v is None:
        return "N"
    if v is True:
        return "T"
    out = []
    for e in v:
        out.append(repr(float(e)) if isinstance(e, float) else repr(e))
    return "[" + " ".join(out) + "]"


def token(sts, val):
    if isinstance(sts, tuple):
        s = "%dx%s" % (sts[0], "x".join(str(e) for e in sts[1]))
    else:
        s = str(sts)
    c = canon_value(val)
    if len(c) > 12:
        c = "h" + hashlib.sha1(c.encode()).hexdigest()[:10]
    return (s + "~" + c).replace(" ", "_").replace(",", ";").replace(":", ";")


def build_ops(specs, fragment):
    """the real operation dicts for a case (fresh objects each time)"""
    from cpppo.server.enip import client, get_attribute
    ops = []
    for sp in specs:
        if "d" in sp:
            ops.append(copy.deepcopy(sp["d"]))
            continue
        parse = get_attribute.attribute_operations if sp.get("a") else client.parse_operations
        op, = parse([sp["t"]], **({} if sp.get("a") else {"fragment": fragment}))
        op.update(copy.deepcopy(sp.get("x") or {}))
        ops.append(op)
    return ops


METHOD_LETTER = {"read": "r", "write": "w", "set_attribute_single": "s", "get_attribute_single": "g",
                 "get_attributes_all": "a", "service_code": "c"}


def op_fields(op):
    """what issue() looks at, for the model line"""
    method = op.get("method", "write" if "data" in op else "read")
    nd = len(op["data"]) if op.get("data") is not None else 0
    if "offset" not in op:
        off = "a"
    elif op["offset"] is None:
        off = "n"
    else:
        off = str(op["offset"])
    ro, se = path_ids(op)
    return "%s:%s:%d:%s:%s:%s:%d:%d" % (METHOD_LETTER[method], opt(op.get("tag_type")), nd, opt(op.get("elements")),
                                        opt(op.get("data_size")), off, ro, se)


class C12(Suite):
    id = "C12"
    props_module = "Cpppo.Props.C12"
    rule = ("grammar: structured spellings with a known meaning (symbolic/numeric/JSON paths, hex/octal/binary/decimal, "
            "element, range, *count, +offset, casts, value lists), hand-written boundary strings, every string of length "
            "<=3 (thorough <=4) over a 13-letter alphabet, mutated strings; random segment lists for format_path. "
            "bookkeeping: random operation lists (reads, writes, attribute services, service codes, refused operations, "
            "size hints, 6 route/send path combinations) x {synchronous, pipeline, operate} x depth {0,1,2,5,20} x multiple "
            "{0,100,250,500,4000 + random} x fragment, plus proxy.read. non-trivial = a grammar case that is accepted with "
            "a path and at least one optional part, or a run with a bundle of >=2 members / >=2 packets in flight")
    assumptions = [
        "the device answers every request of every packet, in order, one reply each, echoing the sender context (C06/C07)",
        "packet indices stay below 10^8 (the 8-byte sender context holds str(index)); beyond that harvest's context assertion fires",
        "ASCII text; quoted CSV values, float literals with letters or more than 15 digits and JSON beyond flat integer objects are outside the modelled fragment",
    ]
    trusted_extra = ["Python's json.loads/json.dumps, csv.reader, float(), repr(float) (called at a shimmed boundary, not modelled beyond the stated fragment)",
                     "the in-process simulator (cpppo.server.enip.main) as the device for the bookkeeping tie"]

    def __init__(self):
        self.sim = None
        self.baseline = {}
        self.runs = 0

    # -- cases ---------------------------------------------------------------------------------
    def cases(self, tier, rng):
        quick = tier == "quick"
        for t in HAND:
            yield {"k": "parse", "text": t, "frag": False, "ity": "INT"}
            yield {"k": "parse", "text": t, "frag": True, "ity": "DINT"}
            yield {"k": "attr", "text": t}
            yield {"k": "ppath", "text": t.split("=")[0], "elm": None, "cnt": None}
        for t in ["Foo", "Foo[1]", "Foo[1]*3", "@1/2/3", "@1/2/3[4-9]*3", "@1/2/3/4"]:
            yield {"k": "ppath", "text": t, "elm": 2, "cnt": 5}
        small = "a1[]-*+=.@/ ,"
        for n in range(0, 4 if quick else 5):
            for tup in itertools.product(small, repeat=n):
                yield {"k": "parse", "text": "".join(tup), "frag": False, "ity": "INT"}
        nspell = 6000 if quick else 60000
        for i in range(nspell):
            c = gen_spelled(rng)
            if c is None:
                continue
            yield c
            if i % 3 == 0:
                yield {"k": "parse", "text": mutate(rng, c["text"]), "frag": c["frag"], "ity": c["ity"]}
            if i % 7 == 0:
                yield {"k": "attr", "text": c["text"]}
            if i % 5 == 0:
                yield {"k": "ppath", "text": mutate(rng, c["text"].split("=")[0]) if i % 2 else c["text"].split("=")[0],
                       "elm": rng.choice([None, None, 0, 3]), "cnt": rng.choice([None, None, 1, 4])}
        nseg = 4000 if quick else 40000
        for i in range(nseg):
            segs, count = gen_segs(rng)
            yield {"k": "fmtparse" if i % 4 else "fmt", "segs": segs, "count": count}
        for c in self.pipe_cases(tier, rng):
            yield c
        for c in self.seq_cases(tier, rng):
            yield c

    def seq_cases(self, tier, rng):
        """the same operation list OBJECT (built once: parsed texts, attribute-service dicts with an explicit
        'method', service-code dicts) handed to the client under several settings, one after the other"""
        quick = tier == "quick"
        fixed = [{"t": "@0x99/1/2=(DINT)5,6,7", "a": 1}, {"t": "@0x99/1/1", "a": 1}, {"t": "@0x99/1", "a": 1},
                 {"t": "@0x99/1/2", "a": 1}, {"t": "@0x99/1/9", "a": 1}]
        yield {"k": "seq", "ops": fixed, "index": 0,
               "passes": [["o", 0, 0, False], ["o", 2, 0, False], ["o", 0, 500, False], ["o", 1, 0, True]]}
        yield {"k": "seq", "ops": [{"t": "A[0-2]=(DINT)1,2,3"}, {"t": "A[0-3]"}, {"t": "@0x99/1/1", "a": 1}], "index": 0,
               "passes": [["s", 0, 0, True], ["p", 1, 100, False], ["s", 0, 0, False]]}
        for li in range(12 if quick else 120):
            n = rng.choice([1, 2, 3, 4, 6])
            specs = []
            for _ in range(n):
                sp = gen_opspec(rng)
                if rng.random() < 0.5:      # favour operations that carry an explicit 'method'
                    for _try in range(20):
                        sp = gen_opspec(rng)
                        if sp.get("a") or "d" in sp:
                            break
                specs.append(sp)
            try:
                built = build_ops(specs, False)
            except Exception:
                continue
            bare = any(op.get("send_path") == "" and op.get("method", "read" if "data" not in op else "write") == "read"
                       for op in built)
            passes = []
            for _ in range(rng.choice([2, 2, 3, 4])):
                passes.append([rng.choice("spo"), rng.choice(DEPTHS), rng.choice(MULTIPLES + [rng.randint(70, 400)]),
                               (rng.random() < 0.3) and not bare])
            yield {"k": "seq", "ops": specs, "passes": passes, "index": rng.choice([0, 0, 0, 5])}

    def pipe_cases(self, tier, rng):
        quick = tier == "quick"
        nlists = 24 if quick else 130
        # the context limit, exactly at the boundary (model and code must agree on where harvest fails)
        two = [{"t": "A[0-1]"}, {"t": "B[2]=(INT)7"}, {"t": "B[0-3]"}]
        for via, d, m, idx in [("s", 0, 0, CTX_LIMIT - 2), ("p", 1, 0, CTX_LIMIT - 2), ("p", 2, 0, CTX_LIMIT - 1), ("o", 0, 500, CTX_LIMIT - 1),
                               ("p", 1, 100, CTX_LIMIT - 1), ("o", 5, 0, CTX_LIMIT), ("p", 0, 4000, CTX_LIMIT), ("p", 1, 0, 7)]:
            yield {"k": "pipe", "ops": two, "via": via, "depth": d, "multiple": m, "fragment": False, "index": idx}
        # large replies: a Multiple Service Packet reply of more than 4 KiB, or more than 4 KiB of pipelined replies
        # waiting when harvesting starts, reaches the client in several recv() pieces (a response frame is then
        # completed by a later recv); the results must not depend on that either
        for li in range(1 if quick else 6):
            n = (14 if quick else 20) if li == 0 else rng.randint(12, 30)
            specs = [{"t": "Big[0-2]=(DINT)7,8,9", "x": {}}]
            for j in range(n):
                a = 0 if li == 0 else rng.choice([0, 0, 50, 100, 199])
                specs.append({"t": "Big[%d-%d]" % (a, a + (99 if li == 0 else rng.choice([99, 99, 80, 100]))), "x": {}}
                             if rng.random() < 0.9 or li == 0 else {"t": "A[0-3]", "x": {}})
            big = [("o", 0, 30000), ("p", 50, 0), ("o", 20, 30000)]
            if not quick:
                big += [("p", 5, 4000), ("s", 0, 30000), ("p", 2, 30000), ("o", 50, 500), ("p", 20, 0), ("o", 5, 12000)]
            for via, d, m in big:
                yield {"k": "pipe", "ops": specs, "via": via, "depth": d, "multiple": m, "fragment": False, "index": 0}
            if not quick:
                yield {"k": "pipe", "ops": specs, "via": "o", "depth": 1, "multiple": 30000, "fragment": True, "index": 0}
        for li in range(nlists):
            n = rng.choice([1, 2, 3, 4, 5, 6, 8, 10, 14]) if not quick else rng.choice([1, 2, 3, 4, 5, 6, 8, 10])
            specs = [gen_opspec(rng) for _ in range(n)]
            for fragment in (False, True):
                try:
                    built = build_ops(specs, fragment)
                except Exception:
                    continue        # a text that parse_operations refuses under this fragment setting
                if fragment and any(op.get("send_path") == "" and op.get("method", "read" if "data" not in op else "write") == "read"
                                    for op in built):
                    # a bare Read Tag Fragmented (service 0x52, no Unconnected Send around it) is taken for an
                    # Unconnected Send by the device and ends the session: not an operation "refused with a CIP status"
                    continue
                settings = list(SETTINGS)
                if quick:
                    # all depth x multiple once per list, the entry point rotating; thorough: the full grid
                    settings = [((("s", "p", "o")[(i + li) % 3]), d, m) for i, (d, m) in enumerate(itertools.product(DEPTHS, MULTIPLES))]
                for via, d, m in settings:
                    if via == "s" and d != DEPTHS[li % len(DEPTHS)]:
                        continue    # depth is not a parameter of synchronous: one depth value is enough
                    yield {"k": "pipe", "ops": specs, "via": via, "depth": d, "multiple": m, "fragment": fragment, "index": 0}
                for _ in range(3 if quick else 6):
                    yield {"k": "pipe", "ops": specs, "via": rng.choice("po"), "depth": rng.choice([0, 1, 2, 3, 4, 7, 50]),
                           "multiple": rng.choice([1, 69, 90, 91, 112, 113, 114, 135, 150, 200, 300, 1000, rng.randint(70, 700)]),
                           "fragment": fragment, "index": rng.choice([0, 0, 1, 9, 10, 99999, CTX_LIMIT - 20])}
            if all("t" in sp and not sp.get("a") and not sp.get("x") for sp in specs):
                for d, m in [(0, 0), (2, 0), (1, 250), (5, 4000)][: 2 if quick else 4]:
                    yield {"k": "pipe", "ops": specs, "via": "x", "depth": d, "multiple": m, "fragment": False, "index": 0}
        # proxy.read_details with DECLARED types (attribute, CIP type or list of types, units): Get Attribute Single,
        # the raw octets converted per operation with that operation's own declared type and reported with its own
        # address and units - whatever the depth and the bundling (the result index is not the packet index)
        for li in range(6 if quick else 40):
            n = rng.choice([2, 3, 4, 5, 6, 8])
            specs, typed = [], []
            if li % 2 == 0:      # non-zero octets to convert: plain writes first (no declared type: Write Tag by address)
                specs += [{"t": "@0x99/1/1=(INT)%d,%d,%d,%d" % tuple(rng.randint(-30000, 30000) for _ in range(4)), "x": {}},
                          {"t": "@0x99/1/2=(DINT)%d,%d,%d" % tuple(rng.randint(-2 ** 31, 2 ** 31 - 1) for _ in range(3)), "x": {}}]
                typed += [[None, ""], [None, ""]]
            for _ in range(n):
                t, ty = rng.choice(TYPED_ATTRS)
                specs.append({"t": t, "a": 1, "x": {}})
                typed.append([ty, rng.choice(["", "rpm", "Hz", "V"])])
            for d, m in ([(1, 0), (0, 250), (3, 500), (2, 4000)] if quick else [(0, 0), (1, 0), (4, 0), (0, 100), (0, 250), (3, 500), (2, 4000), (1, 69)]):
                yield {"k": "pipe", "ops": specs, "typed": typed, "via": "x", "depth": d, "multiple": m, "fragment": False, "index": 0}

    # -- model line ----------------------------------------------------------------------------
    def model_line(self, c):
        k = c["k"]
        if k == "parse":
            return "c12.parse %d %s %s" % (1 if c["frag"] else 0, hx(c["ity"]), hx(c["text"]))
        if k == "attr":
            return "c12.attr %s" % hx(c["text"])
        if k == "ppath":
            return "c12.ppath %s %s %s" % (opt(c["elm"]), opt(c["cnt"]), hx(c["text"]))
        if k in ("fmt", "fmtparse"):
            try:
                segs = segs_str(c["segs"])
            except TypeError:
                segs = "?"
            return "c12.%s %s %s" % (k, opt(c["count"]), segs)
        if k == "seq":
            try:
                ops = build_ops(c["ops"], False)
            except Exception:
                return "c12.seq ? unbuildable -"
            toks = []
            for f in (False, True):
                b = self.get_baseline({"ops": c["ops"], "fragment": f, "pf": False}) \
                    if any(p[3] == f for p in c["passes"]) else None
                toks.append(b if isinstance(b, list) and len(b) == len(ops) else ["?"] * len(ops))
            body = ",".join("%s:%d:%s:%s:%s" % (METHOD_LETTER[op["method"]] if "method" in op else "-", 1 if "data" in op else 0,
                                               op_fields(op).split(":", 1)[1], tf, tt)
                            for op, tf, tt in zip(ops, toks[0], toks[1]))
            passes = "+".join("%s/%d/%d/%d" % (v, d, m, 1 if f else 0) for v, d, m, f in c["passes"])
            return "c12.seq %d %s %s" % (c["index"], passes, body or "-")
        if k == "pipe":
            base = self.get_baseline(c)
            try:
                ops = build_ops(c["ops"], c.get("pf", c["fragment"]))
            except Exception:
                return "c12.pipe ? unbuildable"
            toks = base if isinstance(base, list) and len(base) == len(ops) else ["?"] * len(ops)
            via = "o" if c["via"] == "x" else c["via"]
            body = ",".join(op_fields(op) + ":" + (t if c["via"] != "x" else t.split("~", 1)[1]) for op, t in zip(ops, toks))
            return "c12.pipe %s %d %d %d %d %s" % ("x" if c["via"] == "x" else via, c["depth"], c["multiple"], c["index"],
                                                    1 if c["fragment"] else 0, body or "-")
        raise ValueError(k)

    # -- the real code -------------------------------------------------------------------------
    def impl(self, c):
        from cpppo.server.enip import client, device, get_attribute
        k = c["k"]
        if k == "parse":
            st, op = guarded(lambda: list(client.parse_operations([c["text"]], fragment=c["frag"], int_type=c["ity"]))[0])
            return "ok " + op_line(op) if st == "ok" else st
        if k == "attr":
            st, op = guarded(lambda: list(get_attribute.attribute_operations([c["text"]]))[0])
            return "ok m=%s %s" % (op["method"], op_line(op, write=0)) if st == "ok" else st
        if k == "ppath":
            st, r = guarded(lambda: device.parse_path_elements(c["text"], elm=c["elm"], cnt=c["cnt"]))
            return "ok p=%s e=%s c=%s" % (segs_str(r[0]), opt(r[1]), opt(r[2])) if st == "ok" else st
        if k in ("fmt", "fmtparse"):
            st, s = guarded(lambda: client.format_path(copy.deepcopy(c["segs"]), count=c["count"]))
            if st != "ok":
                return st
            if k == "fmt":
                return "ok " + hx(s)
            st, r = guarded(lambda: device.parse_path_elements(s))
            if st != "ok":
                return "ok %s %s" % (hx(s), st)
            return "ok %s p=%s e=%s c=%s" % (hx(s), segs_str(r[0]), opt(r[1]), opt(r[2]))
        if k == "pipe":
            self.get_baseline(c)
            return self.run_pipe(c)["line"]
        if k == "seq":
            return self.run_seq(c)
        raise ValueError(k)

    def run_seq(self, c):
        """ONE operation list object, built once, handed to the client under several settings in a row
        (each pass from the same initial tag values)"""
        try:
            ops = build_ops(c["ops"], False)
        except Exception as exc:
            return "unbuildable:" + type(exc).__name__
        before = copy.deepcopy(ops)
        lines = []
        for via, depth, multiple, fragment in c["passes"]:
            self.get_baseline({"ops": c["ops"], "fragment": fragment, "pf": False})
            r = self.run_pipe({"k": "pipe", "ops": c["ops"], "via": via, "depth": depth, "multiple": multiple,
                               "fragment": fragment, "index": c["index"]}, ops=ops)
            lines.append(r["line"])
        try:
            same = ops == before
        except Exception:
            same = False
        return " ;; ".join(lines) + " A=" + ("same" if same else "altered")

    def ensure_sim(self):
        if self.sim is None:
            self.sim = Sim()
            self.sim.connect()
        return self.sim

    def get_baseline(self, c):
        """the synchronous, unbundled run over freshly built operations (what the property compares with)"""
        pf = c.get("pf", c["fragment"])
        key = json.dumps([c["ops"], c["fragment"], pf, c.get("typed")], sort_keys=True)
        if key not in self.baseline and c.get("typed"):
            r = self.run_pipe(dict(c, depth=0, multiple=0))      # the proxy itself, one request at a time, unbundled
            self.baseline[key] = ["0~" + v for _i, v in r["results"]] if r["outcome"] == "ok" else "baseline:" + r["outcome"]
        if key not in self.baseline:
            r = self.run_pipe({"k": "pipe", "ops": c["ops"], "via": "s", "depth": 0, "multiple": 0,
                               "fragment": c["fragment"], "pf": pf, "index": 0})
            self.baseline[key] = [t for _i, t in r["results"]] if r["outcome"] == "ok" else "baseline:" + r["outcome"]
        return self.baseline[key]

    def run_pipe(self, c, ops=None):
        """one execution from the initial state; -> {'line', 'packets', 'results', 'outcome', 'keys'}.
        `ops`: an already built operation list to hand to the client as it is (the caller's own list object)"""
        sim = self.ensure_sim()
        self.runs += 1
        if ops is None:
            try:
                ops = build_ops(c["ops"], c.get("pf", c["fragment"]))
            except Exception as exc:
                return {"line": "unbuildable:" + type(exc).__name__, "packets": [], "results": [], "outcome": "unbuildable", "keys": []}
        keys = [path_ids(op) for op in ops]
        sim.reset()
        if c["via"] == "x":
            return self.run_proxy(c, sim, keys)
        conn = sim.conn
        packets = []
        real_send = type(conn).unconnected_send

        def capture(request, route_path=None, send_path=None, sender_context=b"", **kwds):
            members = request["multiple"]["request"] if "multiple" in request else [request]
            packets.append((int(bytes(sender_context).decode()), "M" if "multiple" in request else "S",
                            "".join(req_letter(r) for r in members), path_ids({"route_path": route_path, "send_path": send_path})))
            return real_send(conn, request, route_path=route_path, send_path=send_path, sender_context=sender_context, **kwds)

        conn.unconnected_send = capture
        results, outcome = [], "ok"
        kw = dict(index=c["index"], fragment=c["fragment"], multiple=c["multiple"], timeout=10.0)
        try:
            with conn:
                if c["via"] == "s":
                    gen = conn.synchronous(ops, **kw)
                elif c["via"] == "p":
                    gen = conn.pipeline(ops, depth=c["depth"], **kw)
                else:
                    gen = conn.operate(ops, depth=c["depth"], **kw)
                for idx, dsc, req, rpy, sts, val in gen:
                    results.append((idx, token(sts, val)))
        except AssertionError as exc:
            msg = str(exc)
            outcome = "mismatch" if "Mismatched" in msg else "incomplete" if "Communication ceased" in msg else "exc:AssertionError"
        except Exception as exc:
            outcome = "exc:" + type(exc).__name__
        finally:
            del conn.unconnected_send
        if outcome != "ok":
            sim.connect()       # replies may still be in flight: start over on a fresh session
        ps = ",".join("%d:%s:%s:%d:%d" % (i, b, ks, ro, se) for i, b, ks, (ro, se) in packets) or "-"
        rs = ",".join("%d:%s" % r for r in results) or "-"
        return {"line": "P=%s R=%s O=%s" % (ps, rs, outcome), "packets": packets, "results": results, "outcome": outcome, "keys": keys}

    def run_proxy(self, c, sim, keys):
        from cpppo.server.enip import get_attribute
        via = get_attribute.proxy(host=sim.addr[0], port=sim.addr[1], depth=c["depth"], multiple=c["multiple"], timeout=10.0,
                                  identity_default="sim")
        vals, outcome = [], "ok"
        try:
            with via:
                if c.get("typed"):
                    attrs = [(sp["t"], ty, uni) if ty is not None else sp["t"] for sp, (ty, uni) in zip(c["ops"], c["typed"])]
                    for v, (sts, (att, typ, uni)) in via.read_details(attrs):
                        tn = "+".join(getattr(t, "__name__", str(t)) for t in (typ if isinstance(typ, (list, tuple)) else [typ]))
                        st = token(sts, None).split("~", 1)[0]
                        vals.append((token(0, v).split("~", 1)[1] + "/" + st + "/" + str(att) + "/" + tn + "/" + str(uni)).replace(
                            ",", ";").replace(":", ";").replace(" ", "_"))
                else:
                    for v in via.read([sp["t"] for sp in c["ops"]]):
                        vals.append(token(0, v).split("~", 1)[1])
        except Exception as exc:
            outcome = "exc:" + type(exc).__name__
        finally:
            via.close_gateway()
        return {"line": "V=%s O=%s" % (",".join(vals) or "-", outcome), "packets": [], "results": [(None, v) for v in vals],
                "outcome": outcome, "keys": keys}

    def teardown(self):
        if self.sim is not None:
            self.sim.stop()
            self.sim = None

    # -- the property oracle (independent of the Lean model) ---------------------------------------
    def oracle(self, c, out):
        if out.startswith("harness-exception"):
            return out
        k = c["k"]
        if k == "parse":
            spec = c.get("spec")
            if spec is None:
                return None
            if spec == "reject":
                return None if out == "reject" else "an inconsistent element count / offset was accepted: " + out
            exp = "ok " + op_line(spec)
            return None if out == exp else "the text does not denote the operation it spells: expected %s" % exp
        if k == "fmtparse":
            if not wf_path(c["segs"]):
                return None
            segs, count = c["segs"], c["count"]
            elm = segs[-1]["element"] if "element" in segs[-1] else None
            if elm is not None and count is not None and count <= 0:
                return None                      # an empty or negative range is not a count
            if not out.startswith("ok "):
                return "a well-formed path was not formatted"
            cnt = count if elm is not None else None
            want = "p=%s e=%s c=%s" % (segs_str(segs), opt(elm), opt(cnt))
            got = out.split(" ", 2)[2] if out.count(" ") >= 2 else ""
            return None if got == want else "formatted path parses back to %s, expected %s" % (got, want)
        if k == "seq":
            return self.seq_oracle(c, out)
        if k != "pipe":
            return None
        return self.pipe_oracle(c, out)

    def seq_oracle(self, c, out):
        """the property, pass by pass: whatever was done with the operation list before, every setting yields one
        result per operation, in order, with the statuses and values of the synchronous unbundled execution"""
        if out.startswith("unbuildable"):
            return None
        body = out.rsplit(" A=", 1)[0]
        lines = body.split(" ;; ")
        if len(lines) != len(c["passes"]):
            return "%d passes reported for %d" % (len(lines), len(c["passes"]))
        for n, ((via, depth, multiple, fragment), line) in enumerate(zip(c["passes"], lines)):
            why = self.pipe_oracle({"k": "pipe", "ops": c["ops"], "via": via, "depth": depth, "multiple": multiple,
                                    "fragment": fragment, "pf": False, "index": c["index"]}, line)
            if why:
                return "pass %d (%s depth=%d multiple=%d fragment=%s) over the same operation list: %s" % (
                    n, {"s": "synchronous", "p": "pipeline", "o": "operate"}[via], depth, multiple, fragment, why)
        return None

    def pipe_oracle(self, c, out):
        try:
            ops = build_ops(c["ops"], c.get("pf", c["fragment"]))
        except Exception:
            return None
        n = len(ops)
        base = self.get_baseline(c)
        if c["index"] + n > CTX_LIMIT:
            return None                          # outside the stated domain (sender context holds 8 digits)
        if not isinstance(base, list) or len(base) != n:
            return "synchronous unbundled run did not yield one result per operation: %r" % (base,)
        why = reference_check(c["ops"], base)
        if why:
            return why
        fields = dict(f.split("=", 1) for f in out.split(" ") if "=" in f)
        if fields.get("O") != "ok":
            return "run ended with %s" % fields.get("O")
        if c["via"] == "x":
            vals = [] if fields["V"] == "-" else fields["V"].split(",")
            want = [t.split("~", 1)[1] for t in base]
            if vals != want and c.get("typed"):
                i = next((j for j, (a, b) in enumerate(zip(vals, want)) if a != b), min(len(vals), len(want)))
                return ("proxy.read_details (declared types) at depth %d, multiple %d: result %d is %s, the unbundled one-at-a-time run gives %s "
                        "(value/status/attribute/type/units)" % (c["depth"], c["multiple"], i, vals[i] if i < len(vals) else None,
                                                                  want[i] if i < len(want) else None))
            if vals != want:
                return "proxy.read values differ from the synchronous unbundled run"
            return None
        res = [] if fields["R"] == "-" else [r.split(":", 1) for r in fields["R"].split(",")]
        if len(res) != n:
            return "%d results for %d operations" % (len(res), n)
        for i, ((idx, tok), b) in enumerate(zip(res, base)):
            if tok != b:
                return "operation %d: status/value %s differs from the synchronous unbundled run %s" % (i, tok, b)
        packets = [] if fields["P"] == "-" else [p.split(":") for p in fields["P"].split(",")]
        if sum(len(p[2]) for p in packets) != n:
            return "packets carry %d requests for %d operations" % (sum(len(p[2]) for p in packets), n)
        keys = [path_ids(op) for op in ops]
        pos = 0
        last = None
        for p in packets:
            pi = int(p[0])
            if last is not None and pi <= last:
                return "packet indices not increasing"
            last = pi
            if c["multiple"] == 0 and (p[1] != "S" or len(p[2]) != 1):
                return "bundled although multiple=0"
            for _ in p[2]:
                if keys[pos] != (int(p[3]), int(p[4])):
                    return "operation %d (route/send %r) travels in a packet sent with %r" % (pos, keys[pos], (int(p[3]), int(p[4])))
                if int(res[pos][0]) != pi:
                    return "operation %d yielded with index %s but sent in packet %d" % (pos, res[pos][0], pi)
                pos += 1
        return None

    # -- evidence ------------------------------------------------------------------------------
    def nontrivial(self, c, out):
        key = self._nontrivial(c, out)
        return None if key is None else json.dumps(key)     # one hashable key (the framework spreads tuples)

    def _nontrivial(self, c, out):
        k = c["k"]
        if k == "seq":
            if out.endswith("A=same") and " O=ok" in out and len(c["passes"]) > 1 and \
                    any(sp.get("a") or "d" in sp for sp in c["ops"]):
                return ("q", json.dumps(c["ops"]), json.dumps(c["passes"]), c["index"])
            return None
        if k in ("parse", "attr"):
            if not out.startswith("ok"):
                return None
            t = c["text"]
            return ("g", t, c.get("frag"), c.get("ity")) if any(ch in t for ch in "[*+=@") else None
        if k == "ppath":
            return ("pp", c["text"], c["elm"], c["cnt"]) if out.startswith("ok") and any(ch in c["text"] for ch in "[*@.") else None
        if k in ("fmt", "fmtparse"):
            return (k, json.dumps(c["segs"]), c["count"]) if out.startswith("ok") and len(c["segs"]) > 1 else None
        if k == "pipe":
            if " O=ok" not in out:
                return None
            if c["via"] == "x":
                return ("x", json.dumps(c["ops"]), json.dumps(c.get("typed")), c["depth"], c["multiple"]) if len(c["ops"]) > 1 else None
            ps = out.split(" ")[0][2:].split(",")
            bundled = any(len(p.split(":")[2]) > 1 for p in ps if p != "-")
            inflight = c["via"] != "s" and c["depth"] > 0 and len(ps) > 1
            if bundled or inflight:
                return ("p", json.dumps(c["ops"]), c["via"], c["depth"], c["multiple"], c["fragment"], c["index"])
        return None

    def classify(self, c, out):
        k = c["k"]
        if k == "seq":
            explicit = "explicit-method" if any(sp.get("a") or "d" in sp for sp in c["ops"]) else "texts-only"
            ok = "ok" if out.count(" O=ok") == len(c["passes"]) else "not-ok"
            return "seq:%d-passes:%s:%s:%s" % (len(c["passes"]), explicit, ok, out.rsplit("A=", 1)[-1][:12])
        if k == "pipe":
            n = len(c["ops"])
            size = "1" if n == 1 else "2-4" if n <= 4 else "5+"
            refused = "ok"
            if "R=" in out:
                toks = [r.split(":", 1)[1].split("~")[0] for r in out.split(" ")[1][2:].split(",") if ":" in r]
                if any(t not in ("0", "6") for t in toks):
                    refused = "refused"
            return "pipe:%s:d%s:m%s:n%s:%s:%s" % (c["via"] + ("-typed" if c.get("typed") else ""), "0" if c["depth"] == 0 else "1-2" if c["depth"] <= 2 else "3+",
                                                   "0" if c["multiple"] == 0 else "<=250" if c["multiple"] <= 250 else ">250",
                                                   size, refused, out.rsplit("O=", 1)[-1])
        head = out.split(" ")[0]
        feat = ""
        if k in ("parse", "attr", "ppath"):
            t = c["text"]
            feat = ":" + "".join(ch for ch in "@[*+=(.{" if ch in t)
            if k == "parse" and "spec" in c:
                feat += ":spelled"
        return "%s:%s%s" % (k, head, feat)

    def shrink(self, c):
        k = c["k"]
        if k == "seq":
            ops, passes = c["ops"], c["passes"]
            for i in range(len(ops)):
                if len(ops) > 1:
                    yield dict(c, ops=ops[:i] + ops[i + 1:])
            for i in range(len(passes)):
                if len(passes) > 1:
                    yield dict(c, passes=passes[:i] + passes[i + 1:])
            for i, (v, d, m, f) in enumerate(passes):
                for simpler in ([v, 0, m, f], [v, d, 0, f], [v, d, m, False], ["s", 0, m, f]):
                    if simpler != [v, d, m, f]:
                        yield dict(c, passes=passes[:i] + [simpler] + passes[i + 1:])
            for i, sp in enumerate(ops):
                if sp.get("x"):
                    yield dict(c, ops=ops[:i] + [dict(sp, x={})] + ops[i + 1:])
            if c["index"]:
                yield dict(c, index=0)
            return
        if k in ("parse", "attr", "ppath"):
            t = c["text"]
            for i in range(len(t)):
                d = dict(c, text=t[:i] + t[i + 1:])
                d.pop("spec", None)
                if "spec" not in c:
                    yield d
        elif k in ("fmt", "fmtparse"):
            for i in range(len(c["segs"])):
                yield dict(c, segs=c["segs"][:i] + c["segs"][i + 1:])
            if c["count"] is not None:
                yield dict(c, count=None)
        elif k == "pipe":
            ops = c["ops"]
            for i in range(len(ops)):
                if len(ops) > 1:
                    yield dict(c, ops=ops[:i] + ops[i + 1:])
            for i, sp in enumerate(ops):
                if sp.get("x"):
                    yield dict(c, ops=ops[:i] + [dict(sp, x={})] + ops[i + 1:])
            if c["index"]:
                yield dict(c, index=0)
            if c["depth"] > 1:
                yield dict(c, depth=c["depth"] - 1)
            if c["via"] == "o":
                yield dict(c, via="p" if c["depth"] else "s")


# ------------------------------------------------------------------------------------------------
# reference semantics of the tag arrays (oracle side): successful reads return what was written
# ------------------------------------------------------------------------------------------------
REF_TAGS = {"A": 20, "B": 10, "S": 8, "R": 6, "Sc": 1}
PLAIN = re.compile(r"^(A|B|S|R|Sc)(?:\[(\d+)(?:-(\d+))?\])?(?:=\((DINT|INT|SINT|REAL)\)(.*))?$")


def reference_check(specs, base):
    """array semantics for the plain Read/Write Tag operations of the list, applied in operation order:
    a write answered with status 0 changes the elements, a read answered with status 0 shows the current ones"""
    state = {name: [0] * n for name, n in REF_TAGS.items()}
    ty = {"A": "DINT", "B": "INT", "S": "SINT", "R": "REAL", "Sc": "DINT"}
    for i, (sp, tok) in enumerate(zip(specs, base)):
        if "t" not in sp or sp.get("a"):
            continue
        m = PLAIN.match(sp["t"])
        if not m:
            continue
        name, a, b, cast, vals = m.groups()
        a = int(a) if a is not None else 0
        b = int(b) if b is not None else a
        status = tok.split("~")[0]
        if cast:
            data = [float(v) if cast == "REAL" else int(v) for v in vals.split(",")]
            if status == "0":
                if b >= len(state[name]) or len(data) != b - a + 1:
                    return "operation %d (%s) was accepted although it does not fit the tag" % (i, sp["t"])
                state[name][a:b + 1] = data
            elif cast == ty[name] and b < len(state[name]) and len(data) == b - a + 1:
                return "operation %d (%s) fits the tag but was refused with %s" % (i, sp["t"], status)
        else:
            if status == "0":
                want = token(0, [float(v) for v in state[name][a:b + 1]] if name == "R" else state[name][a:b + 1])
                if b >= len(state[name]):
                    return "operation %d (%s) read beyond the tag" % (i, sp["t"])
                if tok != want:
                    return "operation %d (%s) returned %s, the elements hold %s" % (i, sp["t"], tok, want)
            elif b < len(state[name]):
                return "operation %d (%s) is in range but was refused with %s" % (i, sp["t"], status)
    return None
