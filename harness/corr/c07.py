"""C07: a Multiple Service Packet equals its requests one by one (real code, twice, and the Lean model)."""
import json

from framework import Suite
from corr import logix_common as lc
from corr import logix_gen as lg
from corr.c03 import rand_req, rand_history


class C07(Suite):
    id = "C07"
    props_module = "Cpppo.Props.C07"
    rule = ("random devices, a random history to reach an arbitrary tag state, then a random list of 1..12 member "
            "requests (reads, writes, fragmented, attribute services; ~30% invalid) executed (A) as one Multiple "
            "Service Packet through the real encoder/parser/request path and (B) one by one on an identically "
            "prepared device; member replies compared byte for byte, tag dumps compared, offset table checked. "
            "non-trivial = bundle of >= 2 members containing a write or a failing member; distinct by case")
    assumptions = ["bundle addressed to the Message Router (class 2, instance 1), as every client does",
                   "nested bundles are not generated"]

    def cases(self, tier, rng):
        # a bundle longer than 32 KiB: the offsets of its later members need all 16 bits of the offset table
        for _ in range(1 if tier == "quick" else 6):
            tags = [{"name": "Big", "type": "DINT", "len": 120, "addr": None}, {"name": "S", "type": "INT", "len": 3, "addr": None}]
            members = []
            for k in range(rng.randint(74, 90)):
                members.append({"op": "wf", "path": [["s", "Big"], ["e", rng.randrange(5)]], "ty": lc.TYPES["DINT"], "n": 115, "off": 0,
                                "vals": [rng.randrange(-2 ** 31, 2 ** 31) for _ in range(rng.randint(112, 115))]})
            members += [{"op": "rt", "path": [["s", "S"]], "n": 3}, {"op": "wt", "path": [["s", "S"], ["e", 1]], "ty": lc.TYPES["INT"], "n": 1, "vals": [7]},
                        {"op": "rt", "path": [["s", "Big"], ["e", 118]], "n": 5}, {"op": "rt", "path": [["s", "Big"]], "n": 3}]
            yield {"budget": 488, "tags": tags, "pre": [], "members": members}
        n = 220 if tier == "quick" else 5000
        for _ in range(n):
            tags = lg.rand_tags(rng)
            pre = rand_history(rng, tags, rng.randint(0, 8), multi=False, invalid=0.05, class_level=True)
            k = rng.choice([1, 2, 3, 4, 6, 12])
            members = [rand_req(rng, tags, multi=False, invalid=0.3, class_level=True) for _ in range(k)]
            yield {"budget": rng.choice([488, 488, 60]), "tags": tags, "pre": pre, "members": members}

    def impl(self, c):
        a = dict(c, reqs=c["pre"] + [{"op": "mu", "path": [["c", 2], ["i", 1]], "reqs": c["members"]}])
        out_a = lc.run_case(a)
        c["addrs"], c["tagline"] = a["addrs"], a["tagline"]
        b = dict(c, reqs=c["pre"] + c["members"])
        out_b = lc.run_case(b)
        c["single_run"] = out_b
        last_a = out_a.split(";")[-1]
        steps_b = out_b.split(";")[len(c["pre"]):]
        return last_a + " | " + (";".join(steps_b) if steps_b else "-")

    def model_line(self, c):
        if "tagline" not in c:
            self.impl(c)
        pre = ";".join(lc.req_line(r) for r in c["pre"]) if c["pre"] else "-"
        mem = "&".join(lc.req_line(m) for m in c["members"])
        return f"lgxb {c['budget']} {c['tagline']} {pre} {mem}"

    def known_key(self, c):
        return json.dumps({k: c[k] for k in ("budget", "tags", "pre", "members")}, sort_keys=True)

    def oracle(self, c, out):
        if out.startswith("harness-exception"):
            return out
        a, b = out.split(" | ")
        rep_a, dump_a = a.split("@")
        steps_b = b.split(";")
        if rep_a == "X":
            return "the bundle raised instead of replying"
        rep = lg.parse_reply(bytes.fromhex(rep_a))
        if rep["status"] != 0:
            return f"bundle status {rep['status']:#x}"
        parts, offs = lg.split_multiple(rep["body"])
        if len(parts) != len(c["members"]):
            return f"{len(parts)} member replies for {len(c['members'])} requests"
        exp = 2 + 2 * len(parts)
        for k, (o, p_) in enumerate(zip(offs, parts)):
            if o != exp:
                return f"offset[{k}] = {o}, expected {exp}"
            exp += len(p_)
        for k, (p_, sb) in enumerate(zip(parts, steps_b)):
            rb = sb.split("@")[0]
            if rb == "X":
                return f"member {k} raised when issued singly"
            if p_.hex() != rb:
                return f"member {k}: bundled reply {p_.hex()} differs from single reply {rb}"
        if dump_a != steps_b[-1].split("@")[1]:
            return "tag state after the bundle differs from the state after the single requests"
        # and the requests issued one by one behave as the array model says (so that bundle and single requests being
        # wrong in the same way does not pass)
        if c.get("single_run"):
            why = lg.oracle_history(dict(c, reqs=c["pre"] + c["members"]), c["single_run"], check_errors=True)
            if why:
                return "issued singly: " + why
        return None

    def nontrivial(self, c, out):
        if len(c["members"]) < 2:
            return None
        if any(m["op"] in ("wt", "wf", "ss") for m in c["members"]) or any(
                len(s) > 6 and s[4:6] not in ("00", "06") for s in out.split(" | ")[-1].split(";")):
            return self.known_key(c)
        return None

    def classify(self, c, out):
        return f"members={len(c['members'])}"

    def shrink(self, c):
        for i in range(len(c["members"])):
            if len(c["members"]) > 1:
                yield dict(c, members=c["members"][:i] + c["members"][i + 1:])
        for i in range(len(c["pre"])):
            yield dict(c, pre=c["pre"][:i] + c["pre"][i + 1:])
