"""C17: history/times.py timestamp / duration  vs  Cpppo.Times (Lean).

Case kinds
  rt     render an instant (binary64 value, precision 0..6, zone, tzdetail) and parse the rendering back
  parse  parse a (mostly malformed) text
  loc    tz.localize() of a wall-clock second with / without a daylight-saving designation
  wf     the well-formedness hypothesis of the zone theorems, evaluated on an extracted table
  cmp    the six comparison operators on two instants
  seq    a sequence of operations on ONE timestamp object (str/render/.local, +=, -=, +, -, copy, the .utc/.local
         setters, comparison): the lazily cached rendering must follow the value
  dur    format a duration and parse the text back;  durp: parse a (mostly malformed) duration text

The time-zone tables handed to the model are extracted per case from the installed tz database through
`zoneinfo` (UTC -> local only, which is unambiguous): the periods of the zone within +-WINDOW of the
instant.  Binary64 values are given to the model as (nearest microsecond, sign of the representation
error), both computed exactly with `fractions.Fraction`.
"""
import bisect
import datetime
import json
import re
import warnings
import zoneinfo
from fractions import Fraction

from framework import Suite

warnings.simplefilter("ignore")

UTC = datetime.timezone.utc
EPOCH = datetime.datetime(1970, 1, 1, tzinfo=UTC)
WINDOW = 4 * 86400
MIN_T = -62135596800           # 0001-01-01 00:00:00 UTC
MAX_T = 253402300800           # 10000-01-01 00:00:00 UTC
M = 10 ** 6

FIXED_ZONES = [
    "America/Edmonton", "Europe/Berlin", "Australia/Lord_Howe", "Asia/Kathmandu", "Pacific/Apia",
    "America/Port-au-Prince", "Etc/GMT-5", "Etc/GMT+5", "Africa/Casablanca", "Europe/Dublin",
    "America/Sao_Paulo", "Antarctica/Troll", "America/Eirunepe", "MST", "EST", "UTC", "GMT", "Asia/Tehran",
    "America/New_York", "Pacific/Kiritimati", "Europe/London", "Asia/Kolkata", "America/St_Johns", "GB-Eire",
]


# ------------------------------------------------------------------------------------------------
# time-zone tables (input data for the model)
# ------------------------------------------------------------------------------------------------
def tz_info(tz, u):
    dt = (EPOCH + datetime.timedelta(seconds=u)).astimezone(tz)
    return (int(dt.utcoffset().total_seconds()), bool(dt.dst()), dt.tzname())


class Zones:
    """explicit transitions from the TZif data (through the pure-Python zoneinfo reader), the
    rule-governed future by probing; every period is described by probing the C implementation"""
    def __init__(self):
        self.explicit = {}
        self.tz = {}
        self.cache = {}

    def get(self, key):
        if key not in self.tz:
            self.tz[key] = zoneinfo.ZoneInfo(key)
        return self.tz[key]

    def valid_key(self, key):
        if len(key) == 3 and key.lower() == "utc":
            return True
        try:
            self.get(key)
            return True
        except Exception:
            return False

    def explicit_transitions(self, key):
        if key not in self.explicit:
            from zoneinfo import _zoneinfo
            try:
                z = _zoneinfo.ZoneInfo.no_cache(key)
                self.explicit[key] = sorted(set(int(t) for t in z._trans_utc))
            except Exception:
                self.explicit[key] = []
        return self.explicit[key]

    def transitions_in(self, key, lo, hi):
        """UTC seconds t in (lo, hi] at which the zone's (offset, dst, name) changes"""
        if len(key) == 3 and key.lower() == "utc":
            return []
        tz = self.get(key)
        ex = self.explicit_transitions(key)
        cand = set(ex[bisect.bisect_right(ex, lo):bisect.bisect_right(ex, hi)])
        last = ex[-1] if ex else MIN_T
        if hi > last:                       # rule-governed region: probe (6 h steps, then bisect)
            a = max(lo, last)
            step = 6 * 3600
            ia = tz_info(tz, a)
            while a < hi:
                b = min(a + step, hi)
                ib = tz_info(tz, b)
                if ib != ia:
                    x, y = a, b
                    while y - x > 1:
                        mid = (x + y) // 2
                        if tz_info(tz, mid) == ia:
                            x = mid
                        else:
                            y = mid
                    cand.add(y)
                a, ia = b, ib
        out = []
        for t in sorted(cand):
            if MIN_T + 86400 < t < MAX_T - 86400 and tz_info(tz, t - 1) != tz_info(tz, t):
                out.append(t)
        return out

    def table(self, key, centre, name=None):
        """the zone token for the driver: the periods within +-WINDOW of `centre` (a UTC second)"""
        ck = (key, centre, name)
        if ck not in self.cache:
            if len(self.cache) > 200000:
                self.cache.clear()
            self.cache[ck] = self._table(key, centre, name)
        return self.cache[ck]

    def _table(self, key, centre, name=None):
        name = name or key
        # the hypothesis `ZoneWord` of the zone theorems: no white space, does not start with a digit
        assert name and not name[0].isdigit() and not any(ch.isspace() for ch in name), name
        if len(key) == 3 and key.lower() == "utc":
            return f"{name};0,0,UTC"
        tz = self.get(key)
        lo = max(MIN_T + 2 * 86400, min(MAX_T - 3 * 86400, centre - WINDOW))
        hi = max(lo + 1, min(MAX_T - 2 * 86400, centre + WINDOW))
        parts = [name, period_token(tz_info(tz, lo))]
        for t in self.transitions_in(key, lo, hi):
            parts.append(f"{t}," + period_token(tz_info(tz, t)))
        return ";".join(parts)


def abbrev_table(ztok):
    """what timestamp.support_abbreviations would hold for the periods of this table: abbreviation -> is_dst
    (None when the same alphabetic abbreviation is used with and without daylight saving)"""
    _, first, trans = parse_table(ztok)
    tab = {}
    for off, dst, abbr in [first] + [p for _, p in trans]:
        if not abbr.isalpha():
            continue
        if abbr in tab and tab[abbr] != dst:
            tab[abbr] = None
        else:
            tab.setdefault(abbr, dst)
    return tab


def period_token(info):
    off, dst, abbr = info
    assert abbr and not set(abbr) & set(" ;,|="), abbr
    return f"{off},{int(dst)},{abbr}"


ZONES = Zones()


def parse_table(token):
    """(name, first, [(t, period)]) of a zone token"""
    parts = token.split(";")
    per = lambda f: (int(f[0]), f[1] == "1", f[2])
    first = per(parts[1].split(","))
    trans = []
    for p in parts[2:]:
        f = p.split(",")
        trans.append((int(f[0]), per(f[1:])))
    return parts[0], first, trans


def table_wf(token):
    """the hypothesis of the zone theorems (`Zone.WF`): each transition's local confusion interval
    [t + min(before, after), t + max(before, after)) ends before the next one begins"""
    _, first, trans = parse_table(token)
    cur = first[0]
    prev_hi = None
    for t, (off, _, _) in trans:
        lo_, hi_ = t + min(cur, off), t + max(cur, off)
        if prev_hi is not None and prev_hi > lo_:
            return False
        prev_hi = hi_
        cur = off
    return True


def preimages(token, w):
    """all UTC seconds whose local time in the table is the wall-clock second w (brute force over periods)"""
    _, first, trans = parse_table(token)
    bounds = [None] + [t for t, _ in trans] + [None]
    pers = [first] + [p for _, p in trans]
    out = []
    for i, p in enumerate(pers):
        u = w - p[0]
        if (bounds[i] is None or bounds[i] <= u) and (bounds[i + 1] is None or u < bounds[i + 1]):
            out.append(u)
    return out


# ------------------------------------------------------------------------------------------------
# binary64 <-> (microsecond, bias)
# ------------------------------------------------------------------------------------------------
def half_even(fr):
    fl = fr.numerator // fr.denominator
    rem = fr - fl
    if rem > Fraction(1, 2) or (rem == Fraction(1, 2) and fl % 2 == 1):
        return fl + 1
    return fl


def mu_bias(value):
    x = Fraction(value) * M
    mu = half_even(x)
    return mu, (x > mu) - (x < mu)


def us_of_float(value):
    """the result of a parse (a binary64) as microseconds: its shortest round-tripping decimal, which is the
    decimal the parser computed wherever the float grid resolves the digits that were parsed"""
    from decimal import Decimal
    d = Decimal(repr(value)) * M
    return int(d) if d == d.to_integral_value() else half_even(Fraction(value) * M)


def text_in_domain(text):
    """the fraction digits written in `text` are resolved by the float grid at that date"""
    nums = re.findall(r"\d+(?:_\d+)*", text)
    if len(nums) < 7:
        return True
    return precision_ok(centre_of(text), min(len(nums[6]), 6))


def precision_ok(value, p):
    """the binary64 grid is fine enough around `value` for `p` sub-second digits to be meaningful"""
    a = abs(value)
    if p == 6:
        return a < 2 ** 33
    if p == 5:
        return a < 2 ** 36
    return a < 2 ** 40


def hexs(text):
    return text.encode("ascii").hex() if text else "-"


def words_of(text):
    return text.split()


SEPS = str.maketrans(":-.", "   ")


def candidate_words(text):
    """every trailing word either version of the parser may take for a time zone"""
    out = []
    ws = text.split()
    if ws:
        out.append(ws[-1])
    ts = text.translate(SEPS).split()
    if ts:
        out.append(ts[-1])
    return out


def centre_of(text):
    """a UTC second near the wall-clock time written in `text` (for choosing the table window)"""
    nums = re.findall(r"\d+(?:_\d+)*", text)
    try:
        y, mo, d, h, mi, s = [int(n.replace("_", "")) for n in nums[:6]]
        dt = datetime.datetime(min(max(y, 1), 9999), min(max(mo, 1), 12), min(max(d, 1), 28),
                               min(h, 23), min(mi, 59), min(s, 59), tzinfo=UTC)
        return int((dt - EPOCH).total_seconds())
    except Exception:
        return 0


def db_for(words, centre, extra=()):
    keys = []
    for w in list(words) + list(extra):
        if w and w not in keys and not set(w) & set(" ;,|=") and ZONES.valid_key(w):
            keys.append(w)
    return "|".join(ZONES.table(k, centre) for k in keys) if keys else "-"


def classify_exception(exc):
    from cpppo.history import times
    if isinstance(exc, ValueError) and len(exc.args) == 3 and isinstance(exc.args[2], Exception):
        inner = exc.args[2]
        name = type(inner).__name__
        if name == "AmbiguousTimeError":
            return "reject:ambiguous"
        if name == "NonExistentTimeError":
            return "reject:nonexistent"
        if isinstance(inner, times.pytz.UnknownTimeZoneError):
            return "reject:zone"
        if isinstance(inner, IndexError):
            return "reject:empty"
        if isinstance(inner, AssertionError):
            return "reject:terms"
        if isinstance(inner, (ValueError, OverflowError, TypeError)):
            return "reject:value"
        return "reject:other:" + name
    if isinstance(exc, OverflowError):
        return "reject:overflow"
    return "reject:other:" + type(exc).__name__


class C17(Suite):
    id = "C17"
    props_module = "Cpppo.Props.C17"
    rule = ("instants at and around every sampled daylight-saving / offset transition (quick: ~50 zones x up to 10 "
            "transitions; thorough: every zone x every transition) at 1 ms steps and sub-millisecond fractions that "
            "round up, year 1 / 1970 / 9999 boundaries, exact binary ties, all precisions 0..6, UTC / zone-key / "
            "abbreviation / numeric renderings; mutated renderings; instant pairs 0.998..1.002 ms apart; durations "
            "with every unit zero/non-zero up to 10^5 years; operation sequences on one timestamp object (render, "
            "+=, -=, +, -, copy, .utc/.local assignment, compare; exhaustive to length 2 (thorough 3) + random to length "
            "10; non-trivial = a rendering, then a change of value, then a rendering or comparison); non-trivial = everything except a plain positive UTC "
            "instant without carry; distinct by input")
    assumptions = [
        "binary64 values are used where the float grid resolves the requested precision (|t| < 2^33 for 6 digits, "
        "< 2^36 for 5); the model sees the nearest microsecond and the sign of the representation error",
        "texts are ASCII; time-zone tables are the periods within +-4 days of the instant as zoneinfo reports them",
        "zone theorems assume the table is well formed (local confusion intervals of successive transitions do not "
        "overlap); the predicate is evaluated on every extracted table (kind wf)",
        "comparison pairs exactly one millisecond apart start at an exactly representable instant",
    ]
    trusted_extra = ["zoneinfo / tzdata (UTC->local conversion) as the source of the zone tables",
                     "binary64 arithmetic of round(), '%.*f', float + float: represented by (microsecond, error sign)"]

    # --------------------------------------------------------------------------------------------
    def setup(self, tier, rng):
        from cpppo.history.times import timestamp
        timestamp._tzabbrev = {}

    # --------------------------------------------------------------------------------------------
    # generators
    # --------------------------------------------------------------------------------------------
    def zones_for(self, tier, rng):
        allz = sorted(zoneinfo.available_timezones())
        if tier == "thorough":
            return allz
        rest = [z for z in allz if z not in FIXED_ZONES]
        return [z for z in FIXED_ZONES if z in allz] + rng.sample(rest, 26)

    def rt(self, value, p, zone, detail, ms_true=False):
        return {"kind": "rt", "v": float(value).hex(), "p": p, "zone": zone, "detail": detail,
                **({"ms_true": True} if ms_true else {})}

    FRACS = [0, 1, 499, 500, 501, 999, 1000, 123456, 499999, 500000, 500001, 999499, 999500, 999501, 999999,
             250000, 750000, 62500, 187500, 15625, 7812, 7813]

    def instant_cases(self, rng, sec, zone, details, n):
        """n cases around UTC second `sec`"""
        for _ in range(n):
            p = rng.choice([0, 1, 2, 3, 3, 3, 4, 5, 6])
            frac = rng.choice(self.FRACS) if rng.random() < 0.6 else rng.randrange(M)
            mu = sec * M + frac
            value = mu / M if rng.random() < 0.9 else float(sec) + frac / M
            if not precision_ok(value, p):
                p = rng.choice([0, 1, 2, 3])
            yield self.rt(value, p, zone, rng.choice(details), ms_true=(p == 3 and rng.random() < 0.3))

    def cases(self, tier, rng):
        quick = tier == "quick"
        # 1. UTC: exhaustive small scope around the epoch and second boundaries, all precisions
        for p in range(7):
            for mu in ([-1000001, -1000000, -999999, -750000, -500001, -500000, -499999, -250000, -1500, -1000, -501,
                        -500, -499, -1, 0, 1, 499, 500, 501, 999, 1000, 1500, 2500, 250000, 499999, 500000, 500001,
                        999499, 999500, 999501, 999949, 999950, 999999, 1000000, 1399326141999836,
                        1414915323125000, 86399999500, 86399999999, -86400000001, 951782399999600,
                        946684799999500, 4102444799999999]):
                yield self.rt(mu / M, p, None, "n")
        # exact binary ties (k/64, k/1024 s) and their neighbours
        for k in range(-130, 131):
            for p in (1, 2, 3, 4, 5, 6):
                yield self.rt(k / 64, p, None, "n")
            yield self.rt(k / 1024 + 1399326141, rng.choice([1, 2, 3, 4, 5, 6]), None, "n")
        for k in (15625, 46875, 15625 * 5, -15625, -46875):        # (2j+1)/2 us exactly: a tie at 6 digits
            yield self.rt(k / 2e6, 6, None, "n")
            yield self.rt(k / 2e6, 0, None, "n")
        # year boundaries (UTC)
        for sec in (MIN_T, MIN_T + 1, MIN_T + 86399, MAX_T - 1, MAX_T - 86400, MAX_T, MIN_T - 1, MAX_T + 5,
                    -30610224000, -30610224001, 32503680000, 0, -1, 68169600 - 1, 951782400, 951868800, 4107542400):
            for p in (0, 3):
                for fr in (0.0, 0.5, 0.9996):
                    yield self.rt(sec + fr, p, None, rng.choice(["n", "t", "f"]))
        n_rand = 8000 if quick else 30000
        for _ in range(n_rand):
            span = rng.choice([10, 10 ** 5, 2 * 10 ** 9, 2 ** 32, 2 ** 33, 6 * 10 ** 10, 2.5 * 10 ** 11])
            sec = int(rng.uniform(-min(span, 6.2e10), span))
            sec = max(MIN_T, min(MAX_T - 1, sec))
            yield from self.instant_cases(rng, sec, rng.choice([None, None, "UTC", "Etc/UTC"]), ["n", "n", "t", "f"], 1)
        # 2. zones: around transitions
        zones = self.zones_for(tier, rng)
        for key in zones:
            ex = ZONES.explicit_transitions(key)
            ex = [t for t in ex if MIN_T + 10 * 86400 < t < MAX_T]
            if quick and len(ex) > 10:
                ex = ex[:1] + rng.sample(ex[1:-2], 7) + ex[-2:]
            # rule-governed future and distant past
            extra = [rng.randrange(2 ** 31, 2 ** 32), rng.randrange(-2 ** 31, 0), rng.randrange(0, 2 ** 31)]
            fut = ZONES.transitions_in(key, 2 ** 31 + 86400 * 365 * rng.randrange(1, 60), 2 ** 31 + 86400 * 365 * 62)
            ex = ex + fut[:2]
            for t in ex:
                tz = ZONES.get(key) if not (len(key) == 3 and key.lower() == "utc") else UTC
                jump = abs(tz_info(tz, t)[0] - tz_info(tz, t - 1)[0])
                offs = sorted({-jump - 1, -jump, -jump + 1, -jump // 2, -1, 0, 1, jump // 2, jump - 1, jump, jump + 1,
                               -3600, 3600, -10800, 10799, rng.randrange(-10800, 10800), rng.randrange(-10800, 10800)})
                if quick:
                    offs = sorted(set(rng.sample(offs, min(len(offs), 9)) + [-1, 0, jump - 1, jump]))
                for o in offs:
                    yield from self.instant_cases(rng, t + o, key, ["t", "t", "t", "n", "n", "f"], 1)
                # the transition second at 1 ms steps, and a fraction that rounds into it
                for ms in (rng.sample(range(-1000, 1001), 2 if quick else 12)):
                    yield self.rt((t * M + ms * 1000) / M, 3, key, "t")
                yield self.rt((t * M - 400) / M, 3, key, "t")
                yield self.rt((t * M - 400) / M, 6, key, "t") if precision_ok(t, 6) else self.rt(t - 0.5, 1, key, "t")
                yield {"kind": "wf", "zone": key, "centre": t}
                # default rendering (abbreviation) with timestamp._tzabbrev mapping the abbreviations of the
                # periods around the transition to (zone, is_dst): the daylight-saving designated form
                for o in rng.sample(offs, 3 if quick else 8):
                    frac = rng.choice(self.FRACS)
                    yield {"kind": "rtd", "v": ((( t + o ) * M + frac) / M).hex(), "p": rng.choice([0, 3, 3, 6]) if precision_ok(t, 6) else 3,
                           "zone": key}
                # localize with and without designation on the wall-clock seconds around the transition
                for o in rng.sample(offs, 3 if quick else 8):
                    w = t + tz_info(tz, t)[0] + o
                    yield {"kind": "loc", "zone": key, "centre": t, "w": w, "flag": rng.choice([None, None, True, False])}
            for s in extra:
                yield from self.instant_cases(rng, s, key, ["t", "n", "f"], 2)
        # 3. malformed stream for the parser
        yield from self.parse_cases(tier, rng, zones)
        # 4. comparisons
        yield from self.cmp_cases(tier, rng)
        # 5. durations
        yield from self.dur_cases(tier, rng)
        # 6. operation sequences on ONE timestamp object (the cached rendering must follow the value)
        yield from self.seq_cases(tier, rng)

    ALPHABET = "0123456789 :-.+_/TZabcMSDUCGmstu\t,"

    def parse_cases(self, tier, rng, zones):
        from cpppo.history.times import timestamp
        n = 6000 if tier == "quick" else 25000
        fixed = ["", " ", "MST", "2014-01-02", "2014-01-02 03:04", "2014-01-02 03:04:05", "2014-01-02 03:04:05.",
                 "2014-01-02 03:04:05.1234567", "2014-01-02 03:04:05.123456 UTC", "2014-01-02 03:04:05 utc",
                 "2014-01-02 03:04:05 Utc", "2014-01-02 03:04:05 Etc/UTC", "2014-02-29 00:00:00", "2016-02-29 00:00:00",
                 "1900-02-29 00:00:00", "2000-02-29 00:00:00", "2014-13-01 00:00:00", "2014-00-01 00:00:00",
                 "2014-01-32 00:00:00", "2014-04-31 00:00:00", "2014-01-01 24:00:00", "2014-01-01 23:60:00",
                 "2014-01-01 23:59:60", "0-01-01 00:00:00", "10000-01-01 00:00:00", "9999-12-31 23:59:59.999",
                 "1-01-01 00:00:00", "2014 01 02 03 04 05 123", "2014-01-+2 03:04:05", "2014-1_0-02 03:04:05",
                 "2014-01-02 03:04:05.+5", "2014-01-02 03:04:05.1_2", "2014-01-02 03:04:05 -05", "2014-01-02 03:04:05 +05",
                 "2014-01-02 03:04:05-0600", "2014-01-02 03:04:05.000-0600", "2014-01-02 03:04:05.000+0100",
                 "2014-01-02 03:04:05.MST", "2014-01-02 03:04:05 America/Port-au-Prince", "2014-01-02 03:04:05 Etc/GMT-5",
                 "2014-01-02 03:04:05 Etc/GMT+5", "2014-01-02 03:04:05 Prince", "2014-01-02 03:04:05 5",
                 "2014-11-02 01:30:00 America/Edmonton", "2014-03-09 02:30:00 America/Edmonton",
                 "2014-11-02 01:30:00 MST", "2014-11-02 00:59:59.999 America/Edmonton", "2014-11-02 02:00:00 America/Edmonton",
                 "1-01-01 00:00:00 Asia/Tokyo", "9999-12-31 23:59:59 America/Edmonton", "2014-01-02\t03:04:05",
                 "  2014-01-02   03:04:05  ", "2014-01-02 03:04:05 MST MST", "2014--01-02 03::04:05",
                 "2014-01-02\n03:04:05", "2014-01-02\r\n03:04:05\n", "2014-01-02\x0b03:04:05\x0c", "2014-01-02\x1c03:04:05\x1f",
                 "2014-01-02\x1d03:04:05\x1eUTC", "2014-01-02 03:04:05\tAmerica/Edmonton", "2014-01-02 03:04:05 america/edmonton",
                 "2014-01-02 03:04:05 UTC ", "٢٠١٤-01-02 03:04:05" if False else "2014-01-02 03:04:05 Z", "2014-01-02T03:04:05"]
        for t in fixed:
            yield {"kind": "parse", "text": t}
        for _ in range(n):
            sec = rng.choice([rng.randrange(0, 2 ** 31), rng.randrange(-2 ** 31, 2 ** 32), 1414915200 + rng.randrange(-7200, 7200),
                              1394355600 + rng.randrange(-7200, 7200)])
            zone = rng.choice([None, None, "America/Edmonton", "MST", "UTC", rng.choice(zones)])
            p = rng.choice([0, 3, 3, 6])
            try:
                text = timestamp(sec + rng.randrange(M) / M).render(zone, ms=p, tzdetail=rng.choice([None, True, True]))
            except Exception:
                continue
            chars = list(text)
            for _ in range(rng.choice([0, 1, 1, 1, 2, 3])):
                op = rng.randrange(4)
                i = rng.randrange(len(chars) + 1)
                if op == 0 and chars:
                    del chars[min(i, len(chars) - 1)]
                elif op == 1:
                    chars.insert(i, rng.choice(self.ALPHABET))
                elif op == 2 and chars:
                    chars[min(i, len(chars) - 1)] = rng.choice(self.ALPHABET)
                elif chars:
                    j = min(i, len(chars) - 1)
                    chars[j] = rng.choice("0123456789")
            if text_in_domain("".join(chars)):
                yield {"kind": "parse", "text": "".join(chars)}

    def cmp_cases(self, tier, rng):
        n = 5000 if tier == "quick" else 30000
        deltas = [0, 1, 2, 499, 500, 501, 998, 999, 1001, 1002, 1499, 1500, 1501, 1999, 2000, 2001, 3000, 10 ** 6]
        for base in (0, 1, -1, 1399326141, -1399326141, 2 ** 31, 2 ** 32 - 7):
            for frac in (0, 1, 499, 500, 999, 500000, 999500, 999999):
                for d in deltas:
                    a = base * M + frac
                    for b in (a + d, a - d):
                        yield {"kind": "cmp", "a": (a / M).hex(), "b": (b / M).hex()}
        # exactly one millisecond apart, from an exactly representable instant
        for k in range(-64, 65):
            a = Fraction(k, 64) + rng.choice([0, 1399326141, 86400 * 365 * 30])
            yield {"kind": "cmp", "a": float(a).hex(), "b": (int((a + Fraction(1, 1000)) * M) / M).hex()}
            yield {"kind": "cmp", "b": float(a).hex(), "a": (int((a + Fraction(1, 1000)) * M) / M).hex()}
        for _ in range(n):
            a = rng.randrange(-2 ** 31, 2 ** 32) * M + rng.choice([0, rng.randrange(M), 999500, 500])
            d = rng.choice(deltas + [rng.randrange(0, 3000), rng.randrange(0, 10 ** 7)])
            if d == 1000:
                d = 1001
            b = a + rng.choice([d, -d])
            yield {"kind": "cmp", "a": (a / M).hex(), "b": (b / M).hex()}

    # ---- sequences: ops are ["s"] str(), ["r", p] render(ms=p), ["L"] .local, ["iadd"|"isub"|"add"|"sub", float hex],
    #      ["copy"] obj = timestamp(obj), ["utc"|"loc", text] the setters, ["cmp", float hex] compare with a fresh timestamp
    def seq_text(self, mu_ms, word):
        """a well-formed rendering of the instant mu_ms (a multiple of 1000 us) for the setters"""
        dt = EPOCH + datetime.timedelta(microseconds=mu_ms)
        return dt.strftime("%Y-%m-%d %H:%M:%S") + ".%03d" % (dt.microsecond // 1000) + (" " + word if word else "")

    def seq_cases(self, tier, rng):
        import itertools
        base = 1399326141.0
        step = 61.0
        alphabet = [["s"], ["r", 3], ["iadd", (0.0).hex()], ["iadd", (0.001).hex()], ["iadd", step.hex()],
                    ["isub", (1.5).hex()], ["isub", (0.0).hex()], ["add", (0.0).hex()], ["add", (2.0).hex()],
                    ["sub", (0.25).hex()], ["copy"], ["utc", self.seq_text(1414915140250000, None)],
                    ["utc", "2014-13-01 00:00:00"], ["loc", self.seq_text(86400500000, "UTC")],
                    ["cmp", base.hex()], ["cmp", (base + step / 2).hex()], ["L"]]
        finals = [["s"], ["cmp", base.hex()], ["cmp", (base + step).hex()]]
        for n in (1, 2) if tier == "quick" else (1, 2, 3):
            for combo in itertools.product(alphabet, repeat=n):
                for fin in finals:
                    yield {"kind": "seq", "v": base.hex(), "ops": [list(o) for o in combo] + [fin]}
        # the four sequences of the property's wording on other instants: render, advance in place, render / compare
        for b, st in [(1414915140.25, 0.001), (0.5, 86400.0), (1394355540.999, 3600.5), (-0.75, 0.5), (0.9996, 0.0004)]:
            for mut in ("iadd", "isub", "add", "sub"):
                yield {"kind": "seq", "v": b.hex(), "ops": [["s"], [mut, st.hex()], ["s"], ["cmp", b.hex()],
                                                           ["cmp", (b + st / 2).hex()], ["r", 3], ["L"]]}
        nrand = 2500 if tier == "quick" else 40000
        steps = [0.0, 0.001, 0.0005, 0.002, 1.0, 1.5, 61.0, 3600.5, 86400.0, 0.000001, 0.9996, 59.9996, 1e-9]
        for _ in range(nrand):
            sec = rng.choice([rng.randrange(-2 ** 31, 2 ** 32), rng.randrange(0, 2 ** 31), 1399326141, 0, -1, 951782399])
            mu = sec * M + rng.choice([0, 500000, 999600, 250000, 999999, rng.randrange(M)])
            v = mu / M
            ops = []
            for _ in range(rng.randrange(2, 10)):
                r = rng.random()
                if r < 0.30:
                    ops.append(rng.choice([["s"], ["s"], ["r", rng.choice([0, 3, 6])], ["L"]]))
                elif r < 0.62:
                    n = rng.choice(steps) * rng.choice([1, 1, 1, 7])
                    ops.append([rng.choice(["iadd", "iadd", "isub", "add", "sub"]), float(n).hex()])
                elif r < 0.70:
                    ops.append(["copy"])
                elif r < 0.80:
                    t = rng.randrange(0, 2 ** 31) * M + rng.randrange(1000) * 1000
                    word = rng.choice([None, None, "UTC", "Etc/UTC"])
                    text = self.seq_text(t, word)
                    if rng.random() < 0.2:
                        # texts that are certainly refused (the value simulation below must know)
                        text = rng.choice(["", "garbage", "2014-13-01 00:00:00.000 UTC", text.replace("-", "/", 1),
                                           text + " Nowhere/Zone", "2014-01-02 03:04 UTC"])
                    ops.append([rng.choice(["utc", "loc"]) if word else "utc", text])
                else:
                    ops.append(["cmp", (v + rng.choice(steps) * rng.choice([-1, 0, 1])).hex()])
            ops.append(rng.choice([["s"], ["cmp", v.hex()]]))
            yield self.seq_unband({"kind": "seq", "v": v.hex(), "ops": ops})

    def seq_unband(self, c):
        """keep comparison partners out of the band |a - b| = 1 ms +- 2 us, where binary64 noise decides `<`"""
        ops = []
        for op, v, _ in self.seq_walk(c):
            if op[0] == "cmp":
                b = float.fromhex(op[1])
                if abs(abs(Fraction(v) - Fraction(b)) * M - 1000) < 2:
                    op = ["cmp", (b + (5e-6 if b >= v else -5e-6)).hex()]
            ops.append(op)
        return {**c, "ops": ops}

    def seq_walk(self, c):
        """the floats the object holds along the sequence, by plain binary64 arithmetic (no cpppo): yields
        (op, new value or None when the op does not assign)"""
        v = float.fromhex(c["v"])
        for op in c["ops"]:
            k = op[0]
            if k in ("iadd", "add"):
                n = float.fromhex(op[1])
                v = v + n if n else v
                yield op, v, bool(n)
            elif k in ("isub", "sub"):
                n = float.fromhex(op[1])
                v = v - n if n else v
                yield op, v, bool(n)
            elif k in ("utc", "loc"):
                m = re.fullmatch(r"(\d{4})-(\d\d)-(\d\d) (\d\d):(\d\d):(\d\d)\.(\d{3})(?: (UTC|Etc/UTC))?", op[1])
                if m:
                    import calendar
                    f = [int(x) for x in m.groups()[:7]]
                    try:
                        dt = datetime.datetime(*f[:6], tzinfo=UTC)
                        v = calendar.timegm(dt.utctimetuple()) + (f[6] * 1000) / 1000000
                    except ValueError:
                        pass
                yield op, v, None
            else:
                yield op, v, None

    def seq_line(self, c):
        from cpppo.history.times import timestamp
        mu, bias = mu_bias(float.fromhex(c["v"]))
        toks = []
        words = set()
        for op, v, nz in self.seq_walk(c):
            k = op[0]
            if k == "s":
                toks.append("s")
            elif k == "r":
                toks.append(f"r:{op[1]}")
            elif k == "L":
                toks.append("L")
            elif k in ("iadd", "isub", "add", "sub"):
                m2, b2 = mu_bias(v)
                toks.append(f"{'i' if k[0] == 'i' else 'a'}:{int(nz)}:{m2}:{b2}")
            elif k == "copy":
                toks.append("k")
            elif k in ("utc", "loc"):
                toks.append("u:" + hexs(op[1]))
                words.update(candidate_words(op[1]))
            elif k == "cmp":
                m2, b2 = mu_bias(float.fromhex(op[1]))
                toks.append(f"c:{m2}:{b2}")
        loc = getattr(timestamp.LOC, "key", None) or getattr(timestamp.LOC, "zone", None)
        ltok = ZONES.table(loc, max(MIN_T, min(MAX_T, mu // M))) if loc and ZONES.valid_key(loc) else "-"
        return f"ts.seq {mu} {bias} {ltok} {db_for(sorted(words), 0)} " + ",".join(toks)

    def seq_impl(self, c):
        from cpppo.history.times import timestamp
        obj = timestamp(float.fromhex(c["v"]))
        outs = []

        def text_of(fn):
            try:
                return fn()
            except ValueError:
                return "reject:range"
        for op in c["ops"]:
            k = op[0]
            if k == "s":
                outs.append(text_of(lambda: str(obj)))
            elif k == "r":
                outs.append(text_of(lambda: obj.render(ms=op[1])))
            elif k == "L":
                outs.append(text_of(lambda: obj.local))
            elif k == "iadd":
                obj += float.fromhex(op[1])
                outs.append("-")
            elif k == "isub":
                obj -= float.fromhex(op[1])
                outs.append("-")
            elif k == "add":
                obj = obj + float.fromhex(op[1])
                outs.append("-")
            elif k == "sub":
                obj = obj - float.fromhex(op[1])
                outs.append("-")
            elif k == "copy":
                obj = timestamp(obj)
                outs.append("-")
            elif k in ("utc", "loc"):
                try:
                    if k == "utc":
                        obj.utc = op[1]
                    else:
                        obj.local = op[1]
                    outs.append("ok")
                except Exception as exc:
                    outs.append(classify_exception(exc))
            elif k == "cmp":
                b = timestamp(float.fromhex(op[1]))
                bits = "".join(str(int(bool(r))) for r in (obj < b, obj > b, obj <= b, obj >= b, obj == b, obj != b))
                outs.append(bits + "~" + text_of(lambda: str(obj)) + "~" + text_of(lambda: str(b)))
        return ";".join(outs)

    def seq_oracle(self, c, out):
        """from the property statement, on the real object: every UTC rendering the object gives parses back to the
        instant the object holds at that moment (to the millisecond); comparison agrees with the order of the renderings"""
        from cpppo.history.times import timestamp
        outs = out.split(";")
        walk = list(self.seq_walk(c))
        if len(outs) != len(walk):
            return f"{len(walk)} operations gave {len(outs)} answers"
        # the instant held after each op: re-run the real object alongside and read .value (an observation of the real code)
        obj = timestamp(float.fromhex(c["v"]))
        for i, (op, _, _) in enumerate(walk):
            k = op[0]
            try:
                if k == "iadd":
                    obj += float.fromhex(op[1])
                elif k == "isub":
                    obj -= float.fromhex(op[1])
                elif k == "add":
                    obj = obj + float.fromhex(op[1])
                elif k == "sub":
                    obj = obj - float.fromhex(op[1])
                elif k == "copy":
                    obj = timestamp(obj)
                elif k == "utc":
                    obj.utc = op[1]
                elif k == "loc":
                    obj.local = op[1]
            except Exception:
                pass
            x = Fraction(obj.value) * M
            o = outs[i]
            texts = []
            if k == "s":
                texts.append((o, 3))
            elif k == "r":
                texts.append((o, op[1]))
            elif k == "cmp":
                bits, sa, sb = o.split("~")
                texts.append((sa, 3))
                lt, gt, le, ge, eq, ne = [ch == "1" for ch in bits]
                if len(sa) == 23 and len(sb) == 23:
                    if lt and not sa < sb:
                        return f"after {c['ops'][:i]}: {sa} < {sb} by comparison but not by rendering"
                    if gt and not sa > sb:
                        return f"after {c['ops'][:i]}: {sa} > {sb} by comparison but not by rendering"
                    if sa == sb and (lt or gt or ne or not eq or not le or not ge):
                        return f"after {c['ops'][:i]}: equal renderings {sa} do not compare equal"
            for text, p in texts:
                if text == "reject:range":
                    if MIN_T + 2 * 86400 <= obj.value < MAX_T - 2 * 86400:
                        return f"after {c['ops'][:i]}: an instant within years 1..9999 cannot be rendered"
                    continue
                try:
                    got = Fraction(timestamp(text).value) * M
                except Exception as exc:
                    return f"after {c['ops'][:i + 1]}: rendering {text!r} is refused ({type(exc).__name__})"
                q = 10 ** (6 - p)
                mu = half_even(x)           # ms=False: the second of the instant taken to the nearest microsecond
                bad = got != mu - mu % M if p == 0 else abs(got - x) * 2 > q + 1
                if bad:
                    return (f"after {c['ops'][:i + 1]}: the timestamp holds {obj.value!r} but renders as {text!r}, "
                            f"which parses back to {float(got / M)!r}")
        return None

    DUR_UNITS = [31557600, 604800, 86400, 3600, 60, 1]

    def dur_cases(self, tier, rng):
        # exhaustive: every unit zero / non-zero, with the sub-second forms
        subs = [0, 1, 20, 999, 1000, 250000, 250001, 5000, 999000, 999999, 100000, 120000, 123000]
        for mask in range(64):
            secs = sum(u * (1 + (mask * 7 + i) % 3) for i, u in enumerate(self.DUR_UNITS) if mask >> i & 1)
            for us in subs:
                yield {"kind": "dur", "d": secs * M + us}
        for d in (0, 1, 999, 1000, 1001, M - 1, M, M + 1, 59 * M, 60 * M, 3599 * M, 3600 * M, 86399 * M + 999999, 86400 * M,
                  604799 * M, 604800 * M, 31557599 * M, 31557600 * M, 31557600 * M * 10000, 31557600 * M * 100000 + 1,
                  -1, -M, -1000, -31557600 * M, -86400 * M - 5, 999999999 * 86400 * M + 86399 * M + 999999):
            yield {"kind": "dur", "d": d}
        n = 6000 if tier == "quick" else 40000
        for _ in range(n):
            secs = 0
            for u in self.DUR_UNITS:
                if rng.random() < 0.5:
                    secs += u * rng.choice([1, 2, rng.randrange(1, 60), rng.randrange(1, 100000) if u == 31557600 else 1])
            us = rng.choice(subs + [rng.randrange(M), rng.randrange(1000), rng.randrange(1000) * 1000])
            yield {"kind": "dur", "d": secs * M + us}
        # parser stream: other spellings of the units, spaces, fractions, and mutations
        words = {0: ["y", "yr", "yrs", "year", "years", "Y", "YEARS"], 1: ["w", "wk", "wks", "week", "weeks"],
                 2: ["d", "dy", "dys", "day", "days"], 3: ["h", "hr", "hrs", "hour", "hours"],
                 4: ["m", "min", "mins", "minute", "minutes"], 5: ["s", "sec", "secs", "second", "seconds", "S"],
                 6: ["ms", "msec", "msecs", "millis", "millisec", "milliseconds", "millisecond", "MS"],
                 7: ["us", "usec", "usecs", "micros", "microsec", "microseconds"],
                 8: ["ns", "nsec", "nanos", "nanoseconds", "nanosecs"]}
        bad_words = ["", "x", "ys", "yea", "mi", "mss", "se", "mo", "month", "dayss", "hou", "u", "n", "milli", "micro"]
        fixed = ["", " ", "0s", "1", "s", "1 s", "1s ", " 1s", "1.5s", ".5s", ",5s", "1,5s", "1.s", "1. 5s", "1 .5s", "1.5 s",
                 "1.5", "1.5m", "1.5ms", "1m.5s", "1m 2.5s", "1.5s2ms", "2ms1.5s", "1.1234567s", "1.123456s", "1.000001s",
                 "1s2s", "1m1y", "1y1w1d1h1m1s1ms1us1ns", "1ns", "999ns", "1000ns", "1999ns", "1s1000ms", "1s1000000us",
                 "0y0w0d0h0m0s", "00001s", "1y 2w 3d 4h 5m 6s 7ms 8us 9ns", "1 year 2 weeks 3 days 4 hours 5 minutes 6 seconds",
                 "250ms", "250m s", "250 ms", "1m250ms", "5s20us", "1h1s", "1h 1s", "1h\t1s", "1H1S", "1e3s", "1_0s", "+1s",
                 "-1s", "1s-", "1.5.5s", "1..5s", "999999999d", "1000000000d", "999999999d86399.999999s", "2737907y",
                 "1h\n1s", "1s\n", "\x0b1s\x0c", "1\x1cs", "1s\x1f", "1 h 1 m 1 s", "1m1s1ms1us", "1.5 seconds", "1.5SEC", "0.000001s",
                 "0.0000001s", "1.0s", "01.50s", "1y1y", "1s1.5s", "1w1d1w"]
        for t in fixed:
            yield {"kind": "durp", "text": t}
        for _ in range(n):
            items = []
            for idx in range(9):
                if rng.random() < 0.35:
                    w = rng.choice(words[idx]) if rng.random() < 0.93 else rng.choice(bad_words)
                    sp = rng.choice(["", "", " ", "  ", "\t"])
                    items.append((idx, f"{rng.choice([0, 1, 7, 59, 60, 1000, rng.randrange(10 ** 6)])}{sp}{w}"))
            if rng.random() < 0.2:
                items = [it for it in items if it[0] < 5]
                man = rng.choice(["", "0", "5", "59", "61"])
                fra = rng.choice(["5", "05", "500", "000001", "123456", "1234567", "0", "999999"])
                items.append((5, f"{man}{rng.choice('.,')}{fra}{rng.choice(['', ' '])}{rng.choice(words[5])}"))
            if rng.random() < 0.08:
                rng.shuffle(items)
            text = rng.choice(["", "", " "]).join(t for _, t in items) + rng.choice(["", "", " "])
            if rng.random() < 0.15 and text:
                i = rng.randrange(len(text))
                text = text[:i] + rng.choice("0123456789 .,smhdwyun-+x") + text[i + rng.choice([0, 1]):]
            yield {"kind": "durp", "text": text}

    # --------------------------------------------------------------------------------------------
    # model side
    # --------------------------------------------------------------------------------------------
    FIXED = "1"        # the model mirrors the repaired code (fixes/C17-*.patch)

    def rt_tokens(self, c):
        value = float.fromhex(c["v"])
        mu, bias = mu_bias(value)
        centre = max(MIN_T, min(MAX_T, mu // M))
        zone = c["zone"]
        if zone is not None and len(zone) == 3 and zone.lower() == "utc":
            zone = None                     # pytz.timezone('UTC') is the timestamp.UTC object itself
        ztok = "-" if zone is None else ZONES.table(zone, centre)
        words = []
        if zone is not None:
            if c["detail"] == "t":
                words.append(zone)
            elif c["detail"] == "n":
                words += [p.split(",")[-1] for p in ztok.split(";")[1:]]
        elif c["detail"] == "t":
            words.append("UTC")
        db = db_for(words, centre)
        return mu, bias, ztok, db

    def model_line(self, c):
        k = c["kind"]
        if k == "rt":
            mu, bias, ztok, db = self.rt_tokens(c)
            return f"ts.rt {self.FIXED} {c['p']} {mu} {bias} {c['detail']} {ztok} {db} -"
        if k == "rtd":
            value = float.fromhex(c["v"])
            mu, bias = mu_bias(value)
            ztok = ZONES.table(c["zone"], mu // M)
            tab = abbrev_table(ztok)
            ab = ",".join(f"{a}={c['zone']}={'-' if d is None else int(d)}" for a, d in sorted(tab.items())) or "-"
            words = [p.split(",")[-1] for p in ztok.split(";")[1:]]
            return f"ts.rt {self.FIXED} {c['p']} {mu} {bias} n {ztok} {db_for(words, mu // M, extra=[c['zone']])} {ab}"
        if k == "parse":
            centre = centre_of(c["text"])
            return f"ts.parse {self.FIXED} {hexs(c['text'])} {db_for(candidate_words(c['text']), centre)} -"
        if k == "loc":
            flag = "-" if c["flag"] is None else str(int(c["flag"]))
            return f"ts.loc {ZONES.table(c['zone'], c['centre'])} {flag} {c['w']}"
        if k == "wf":
            return f"ts.wf {ZONES.table(c['zone'], c['centre'])}"
        if k == "seq":
            return self.seq_line(c)
        if k == "cmp":
            a, _ = mu_bias(float.fromhex(c["a"]))
            b, _ = mu_bias(float.fromhex(c["b"]))
            return f"ts.cmp {a} {b}"
        if k == "dur":
            return f"dur.rt {c['d']}"
        if k == "durp":
            return f"dur.parse {hexs(c['text'])}"
        raise ValueError(k)

    # --------------------------------------------------------------------------------------------
    # implementation side
    # --------------------------------------------------------------------------------------------
    def parse_real(self, text):
        from cpppo.history.times import timestamp
        try:
            ts = timestamp(text)
        except Exception as exc:
            return classify_exception(exc)
        return f"ok {us_of_float(ts.value)}"

    def impl(self, c):
        from cpppo.history import times
        from cpppo.history.times import timestamp, duration
        k = c["kind"]
        if k == "rt":
            value = float.fromhex(c["v"])
            detail = {"n": None, "t": True, "f": False}[c["detail"]]
            ms = True if c.get("ms_true") else c["p"]
            try:
                text = timestamp(value).render(tzinfo=c["zone"], ms=ms, tzdetail=detail)
            except ValueError:
                return "reject:range"
            return text + "|" + self.parse_real(text)
        if k == "rtd":
            value = float.fromhex(c["v"])
            mu, _ = mu_bias(value)
            tab = abbrev_table(ZONES.table(c["zone"], mu // M))
            tz = times.pytz.timezone(c["zone"])
            timestamp._tzabbrev = {a: (tz, d, None) for a, d in tab.items()}
            try:
                try:
                    text = timestamp(value).render(tzinfo=c["zone"], ms=c["p"])
                except ValueError:
                    return "reject:range"
                return text + "|" + self.parse_real(text)
            finally:
                timestamp._tzabbrev = {}
        if k == "parse":
            return self.parse_real(c["text"])
        if k == "loc":
            tz = times.pytz.timezone(c["zone"])
            naive = datetime.datetime(1970, 1, 1) + datetime.timedelta(seconds=c["w"])
            try:
                dt = tz.localize(naive, is_dst=c["flag"])
            except Exception as exc:
                return {"AmbiguousTimeError": "reject:ambiguous",
                        "NonExistentTimeError": "reject:nonexistent"}.get(type(exc).__name__, "reject:other")
            return f"ok {timestamp.number_from_datetime(dt):.0f}"
        if k == "wf":
            return "wf" if table_wf(ZONES.table(c["zone"], c["centre"])) else "not-wf"
        if k == "seq":
            return self.seq_impl(c)
        if k == "cmp":
            a, b = timestamp(float.fromhex(c["a"])), timestamp(float.fromhex(c["b"]))
            return " ".join(str(int(bool(r))) for r in (a < b, a > b, a <= b, a >= b, a == b, a != b))
        if k == "dur":
            try:
                text = str(duration(datetime.timedelta(microseconds=c["d"])))
            except OverflowError:
                return "reject:overflow"
            return text + "|" + self.durparse_real(text)
        if k == "durp":
            return self.durparse_real(c["text"])
        raise ValueError(k)

    def durparse_real(self, text):
        from cpppo.history.times import duration
        try:
            td = duration(text).timedelta
        except RuntimeError:
            return "reject:syntax"
        except OverflowError:
            return "reject:overflow"
        return f"ok {(td.days * 86400 + td.seconds) * M + td.microseconds}"

    # --------------------------------------------------------------------------------------------
    # property oracle (independent of the Lean model)
    # --------------------------------------------------------------------------------------------
    def oracle(self, c, out):
        from cpppo.history.times import timestamp
        if out.startswith("harness-exception") or "reject:other" in out:
            return out
        k = c["kind"]
        if k == "rt":
            value = float.fromhex(c["v"])
            x = Fraction(value) * M
            p = c["p"]
            if out == "reject:range":
                if MIN_T + 2 * 86400 <= value < MAX_T - 2 * 86400:
                    return "an instant within years 1..9999 cannot be rendered"
                return None
            text, res = out.rsplit("|", 1)
            zone, detail = c["zone"], c["detail"]
            in_scope = (detail == "t") or (zone is None and detail == "n")
            named = zone if zone is not None else "UTC"
            if detail == "n" and zone is not None:
                word = text.split()[-1]
                if word == zone:
                    in_scope = True                 # the abbreviation is the zone key
                elif ZONES.valid_key(word):
                    named = word                    # names some zone: must be rejected or faithful in that zone
                    if res.startswith("ok "):
                        back = timestamp(int(res[3:]) / M).render(word, ms=p)
                        if back.split()[:2] != text.split()[:2]:
                            return f"accepted {text!r} as an instant that renders in {word} as {back!r}"
                    return None
                else:
                    return None                     # the abbreviation names no zone: out of scope
            if not in_scope:
                return None
            q = 10 ** (6 - p)
            if res.startswith("ok "):
                got = int(res[3:])
                if p == 0:
                    mu = half_even(x)
                    want_ok = got == mu - mu % M
                else:
                    want_ok = got % q == 0 and abs(got - x) * 2 <= q
                if not want_ok:
                    return f"{value!r} rendered as {text!r} parses back to {got / M!r}"
                return None
            # rejected: allowed only for a wall-clock time with no or several preimages in the zone
            if res in ("reject:ambiguous", "reject:nonexistent"):
                mu = half_even(x)
                centre = mu // M
                ztok = ZONES.table(named, centre)
                _, first, trans = parse_table(ztok)
                v = (mu - mu % M) if p == 0 else got_round(x, q)
                us = v // M
                per = first
                for t, pr in trans:
                    if t <= us:
                        per = pr
                n = len(preimages(ztok, us + per[0]))
                if res == "reject:ambiguous" and n >= 2:
                    return None
                return f"{text!r} rejected as {res} although its wall-clock time has {n} preimage(s)"
            return f"{value!r} rendered as {text!r} which is refused ({res})"
        if k == "rtd":
            if out == "reject:range":
                return "an instant within years 1..9999 cannot be rendered"
            value = float.fromhex(c["v"])
            x = Fraction(value) * M
            p = c["p"]
            q = 10 ** (6 - p)
            text, res = out.rsplit("|", 1)
            mu = half_even(x)
            v = (mu - mu % M) if p == 0 else got_round(x, q)
            ztok = ZONES.table(c["zone"], mu // M)
            _, first, trans = parse_table(ztok)
            pers = [(None, first)] + trans
            per = [pr for t, pr in pers if t is None or t <= v // M][-1]
            tab = abbrev_table(ztok)
            flag = tab.get(per[2], "absent")
            pre = preimages(ztok, v // M + per[0])
            others = [pr for t, pr in pers for u in pre if u != v // M
                      and (t is None or t <= u) and pr == [q_ for t_, q_ in pers if t_ is None or t_ <= u][-1]]
            if flag == "absent":
                return None                 # numeric abbreviation: names nothing
            designated = flag is not None and flag == per[1] and all(o[1] != per[1] for o in others)
            if res == f"ok {v}":
                return None
            if res.startswith("ok "):
                if len(pre) == 1 or designated or flag is None:
                    return f"{value!r} rendered as {text!r} parses back to {int(res[3:]) / M!r}"
                return None                 # ambiguous between two periods with the same daylight-saving flag
            if res == "reject:ambiguous" and flag is None and len(pre) >= 2:
                return None
            return f"{value!r} rendered as {text!r} which is refused ({res})"
        if k == "parse":
            if not out.startswith("ok "):
                return None
            text = c["text"]
            got = int(out[3:])
            ws = text.split()
            word = ws[-1] if ws and not ws[-1][:1].isdigit() else None
            body = " ".join(ws[:-1]) if word else text
            terms = body.translate(SEPS).split()
            digits = min(len(terms[6]), 6) if len(terms) == 7 else 0
            try:
                back = timestamp(got / M).render(word, ms=digits, tzdetail=True if word else None)
            except Exception:
                return None                 # the trailing word names no zone: nothing is claimed
            tb = (back.rsplit(None, 1)[0] if word else back).translate(SEPS).split()
            for tt in (terms, tb):
                if len(tt) == 7:
                    tt[6] += "0" * (6 - len(tt[6]))
            try:
                a = [int(t) for t in terms] + ([0] if len(terms) == 6 else [])
                b = [int(t) for t in tb] + ([0] if len(tb) == 6 else [])
            except ValueError:
                return None                 # not of the form "date time [zone]": nothing is claimed
            if a != b:
                return f"accepted {text!r} as {got}, which renders as {back!r}"
            return None
        if k == "loc":
            ztok = ZONES.table(c["zone"], c["centre"])
            pre = preimages(ztok, c["w"])
            if out.startswith("ok "):
                u = int(out[3:])
                if c["flag"] is None:
                    return None if pre == [u] else f"localize gave {u}, preimages are {pre}"
                return None if (u in pre or not pre) else f"localize gave {u}, preimages are {pre}"
            if out == "reject:nonexistent":
                return None if not pre else f"refused as nonexistent, preimages are {pre}"
            if out == "reject:ambiguous":
                return None if len(pre) >= 2 else f"refused as ambiguous, preimages are {pre}"
            return out
        if k == "wf":
            return None
        if k == "seq":
            return self.seq_oracle(c, out)
        if k == "cmp":
            a, b = timestamp(float.fromhex(c["a"])), timestamp(float.fromhex(c["b"]))
            lt, gt, le, ge, eq, ne = [r == "1" for r in out.split()]
            sa, sb = str(a), str(b)
            if len(sa) != 23 or len(sb) != 23:
                return None
            if lt and not sa < sb:
                return f"{sa} < {sb} by comparison but not by rendering"
            if gt and not sa > sb:
                return f"{sa} > {sb} by comparison but not by rendering"
            if sa == sb and (lt or gt or ne or not eq or not le or not ge):
                return f"equal renderings {sa} do not compare equal"
            if (le != (not gt)) or (ge != (not lt)) or (eq == ne) or (lt and gt):
                return "comparison operators are inconsistent with each other"
            return None
        if k == "dur":
            if out == "reject:overflow":
                return None
            text, res = out.rsplit("|", 1)
            if c["d"] < 0:
                return None if res.startswith("reject") or res == f"ok {c['d']}" else f"{c['d']} -> {text!r} -> {res}"
            return None if res == f"ok {c['d']}" else f"{c['d']} us formats as {text!r} which parses to {res}"
        if k == "durp":
            if not out.startswith("ok "):
                return None
            from cpppo.history.times import duration
            d = int(out[3:])
            again = self.durparse_real(str(duration(datetime.timedelta(microseconds=d))))
            return None if again == out else f"{c['text']!r} parses to {d} whose text parses to {again}"
        return None

    # --------------------------------------------------------------------------------------------
    @staticmethod
    def seq_shape(c):
        """'render-mutate-render' when a cached rendering exists, the value is then changed, and the object is rendered
        or compared-by-rendering afterwards"""
        stage = 0
        for op in c["ops"]:
            k = op[0]
            if k in ("s", "cmp"):
                if stage == 1:
                    stage = 1
                elif stage == 2:
                    return "render-mutate-render"
                else:
                    stage = 1
            elif stage == 1 and (k in ("utc", "loc") or (k in ("iadd", "isub", "add", "sub") and float.fromhex(op[1]))):
                stage = 2
        return "other"

    def nontrivial(self, c, out):
        k = c["kind"]
        if k == "seq":
            return json.dumps(c, sort_keys=True) if self.seq_shape(c) == "render-mutate-render" else None
        if k == "rt":
            if c["zone"] is None and c["detail"] == "n":
                value = float.fromhex(c["v"])
                mu, _ = mu_bias(value)
                carry = c["p"] and (mu % M) + 10 ** (6 - c["p"]) // 2 >= M
                if mu >= 0 and not carry:
                    return None
        if k == "wf":
            return None
        return json.dumps(c, sort_keys=True)

    def classify(self, c, out):
        k = c["kind"]
        if k == "rt":
            if out == "reject:range":
                return "rt:out-of-range"
            res = out.rsplit("|", 1)[1]
            res = "ok" if res.startswith("ok") else res
            z = "utc" if c["zone"] is None else "zone"
            form = {"n": "abbr" if c["zone"] else "plain", "t": "key", "f": "numeric"}[c["detail"]]
            return f"rt:{z}:{form}:p{c['p']}:{res}"
        if k == "rtd":
            if out == "reject:range":
                return "rtd:out-of-range"
            res = out.rsplit("|", 1)[1]
            mu, _ = mu_bias(float.fromhex(c["v"]))
            ztok = ZONES.table(c["zone"], mu // M)
            _, first, trans = parse_table(ztok)
            per = [pr for t, pr in [(None, first)] + trans if t is None or t <= mu // M][-1]
            n = len(preimages(ztok, mu // M + per[0]))      # (of the unrounded second: a histogram, not an oracle)
            return f"rtd:{'repeated-hour' if n >= 2 else 'unique'}:" + ("ok" if res.startswith("ok") else res)
        if k in ("parse", "durp", "loc"):
            return f"{k}:" + ("ok" if out.startswith("ok") else out)
        if k == "wf":
            return "wf:" + out
        if k == "seq":
            kinds = {op[0] for op in c["ops"]}
            groups = [g for g, ks in (("inplace", {"iadd", "isub"}), ("arith", {"add", "sub", "copy"}), ("setter", {"utc", "loc"}))
                      if kinds & ks]
            return "seq:" + self.seq_shape(c) + ":" + ("+".join(groups) or "observe-only")
        if k == "cmp":
            return "cmp:" + out.replace(" ", "")
        if k == "dur":
            return "dur:" + ("ok" if out.rsplit("|", 1)[-1].startswith("ok") else out.rsplit("|", 1)[-1])
        return k

    def shrink(self, c):
        k = c["kind"]
        if k == "seq":
            ops = c["ops"]
            for i in range(len(ops)):
                if len(ops) > 1:
                    yield {**c, "ops": ops[:i] + ops[i + 1:]}
            v = float.fromhex(c["v"])
            if v != float(int(v)):
                yield {**c, "v": float(int(v)).hex()}
            return
        if k == "rt":
            value = float.fromhex(c["v"])
            mu, _ = mu_bias(value)
            for cand in (mu % M - (M if mu < 0 and mu % M else 0), mu - mu % 1000, mu // 10 * 10, mu % (86400 * M)):
                if cand != mu:
                    yield {**c, "v": (cand / M).hex()}
            if c["p"] != 3:
                yield {**c, "p": 3}
            if c["zone"] is not None:
                yield {**c, "zone": None, "detail": "n"}
            if c.get("ms_true"):
                yield {kk: vv for kk, vv in c.items() if kk != "ms_true"}
        elif k in ("parse", "durp"):
            t = c["text"]
            for i in range(len(t)):
                yield {**c, "text": t[:i] + t[i + 1:]}
        elif k == "dur":
            d = c["d"]
            for u in [31557600 * M, 604800 * M, 86400 * M, 3600 * M, 60 * M, M, 1000, 1]:
                if abs(d) >= u and d - (d // u) * u != d:
                    yield {**c, "d": d - (d // u) * u}
                if abs(d) > u:
                    yield {**c, "d": d - u if d > 0 else d + u}
        elif k == "cmp":
            a, _ = mu_bias(float.fromhex(c["a"]))
            b, _ = mu_bias(float.fromhex(c["b"]))
            if a - a % M != 0:
                base = a - a % M
                yield {**c, "a": ((a - base) / M).hex(), "b": ((b - base) / M).hex()}


def got_round(x, q):
    """x (Fraction, us) rounded half-even to a multiple of q"""
    return half_even(x / q) * q
