"""C08: malformed or hostile input cannot hang, crash or corrupt the simulator.

real code:  enip_srv/enip_srv_tcp on a server thread with a scripted connection, logix.process, the real parsers
model:      Cpppo.Serve (frame splitter, byte-level decoder of the tag services, exec, reply frame, stream loop)
oracle:     written from the property statement (see `judge`), independent of the Lean model
"""
import hashlib
import json
import multiprocessing
import os
import struct
import threading

from framework import Suite
from corr import logix_common as lc
from corr import logix_gen as lg
from corr import c08_wire as w
from corr import c08_gen as g
from corr import c08_run as run
from corr.c03 import rand_req, fit_val

NPROC = int(os.environ.get("VERIF_PROCS", "0") or 0) or min(16, os.cpu_count() or 1)


# ------------------------------------------------------------------------------------------------
# the array model of the tags (the property's own notion of "a tag changes only through a complete,
# well-formed, accepted write")
# ------------------------------------------------------------------------------------------------
def rand_req_simple(rng, tg):
    from corr.c03 import rand_req, fit_val
    for _ in range(50):
        r = rand_req(rng, tg, multi=False, invalid=0)
        if r["op"] != "mu":
            return r
    return {"op": "rt", "path": [["s", tg[0]["name"]]], "n": 1}


class Spec(lg.ArraySpec):
    def __init__(self, case, addrs):
        super().__init__(case, addrs)
        self.scalar = {}
        for t in case["tags"]:
            self.scalar.setdefault(tuple(addrs[t["name"]]), t["len"] == 1)

    def apply(self, r, reply):
        """account for one executed request and its reply; -> None or a complaint"""
        rep = lg.parse_reply(reply)
        if rep is None:
            return "short CIP reply"
        op = r["op"]
        if op not in ("wt", "wf", "ss") or rep["status"] != 0:
            return None                     # reads and refused writes must not change anything (the dump check)
        # an acknowledged write must be a complete request: the very bytes it was executed from must end with
        # type / count [/ offset] and exactly the whole elements written -- nothing cut off, nothing left over
        raw = r.get("_raw")
        if raw is None:
            return "a write was acknowledged whose request bytes never reached the executing object"
        why = w.write_is_complete(r, bytes.fromhex(raw))
        if why:
            return f"a tag was written from a request that is not a complete write: {why}: {raw}"
        if op == "ss":
            tgt = w.py_resolve(self.sym, r["path"], "no")
            if not r["path"] or r["path"][-1][0] != "a" or tgt is None:
                return "Set Attribute Single acknowledged for a path that names no attribute"
            addr = (tgt[0], tgt[1], r["path"][-1][1])
            if addr not in self.arr:
                return None                 # an attribute that is not a tag (nothing the dump shows may change)
            ty = self.ty[addr]
            if ty not in lc.SIZES or len(r["data"]) != lc.SIZES[ty] * len(self.arr[addr]):
                return f"Set Attribute Single of {len(r['data'])} bytes acknowledged for {ty}[{len(self.arr[addr])}]"
            k = lc.SIZES[ty]
            data = bytes(r["data"])
            elems = [data[i:i + k] for i in range(0, len(data), k)]
            if ty == "BOOL":
                elems = [b"\xff" if e != b"\x00" else b"\x00" for e in elems]
            if ty == "REAL":
                elems = [struct.pack("<f", struct.unpack("<f", e)[0]) for e in elems]
            self.arr[addr] = elems
            return None
        addr = w.py_resolve(self.sym, r["path"], 1)
        if addr is None or addr not in self.arr:
            return None                     # an attribute that is not a tag (class-level attributes of instance 0 can
                                            # be written): nothing the dump shows may change
        ty = self.ty[addr]
        reqty = lc.CODE2NAME.get(r["ty"])
        siz = lc.SIZES.get(ty, 80)
        start = w.first_element(r["path"]) + (r.get("off", 0) // siz if op == "wf" else 0)
        vals = r["vals"]
        if reqty not in lg.ALLOWED[ty]:
            return f"write of type {reqty} acknowledged for a {ty} tag"
        if start + len(vals) > len(self.arr[addr]) or not vals:
            return f"write of {len(vals)} elements at {start} acknowledged for a tag of {len(self.arr[addr])}"
        enc = [self.enc(ty, x, reqty) for x in vals]
        if any(e is None for e in enc):
            return "write of a value the tag's type cannot represent acknowledged"
        for j, e in enumerate(enc):
            self.arr[addr][start + j] = e
        return None

    def check_dump(self, dump):
        d = lg.parse_dump(dump)
        for addr, arr in self.arr.items():
            got = d.get(addr)
            if got is None:
                return f"tag at {addr} is unreadable"
            if got != b"".join(arr):
                return (f"tag at {addr} holds {got.hex()} but only accepted well-formed writes account for "
                        f"{b''.join(arr).hex()}")
        return None


# ------------------------------------------------------------------------------------------------
# running one case against the real code
# ------------------------------------------------------------------------------------------------
def frames_of(mode, chunks):
    """python-side split of what was sent (for alignment with what the server says it parsed)"""
    if mode == "p":
        return [w.split_frame(c) for c in chunks]
    out, rest = [], b"".join(chunks)
    while True:
        sp = w.split_frame(rest)
        if sp is None:
            break
        out.append(sp)
        rest = sp[2]
    return out


def token_for(frame_bytes, rec, symbols, objs, reply_frame):
    """-> (output token, info token, kind) for one processed frame"""
    cp, members, cip, eff = rec["cp"]
    sd = w.strict_decode(frame_bytes, symbols, objs)
    fate = "k" if rec["cont"] else "e"
    cpline = "-"
    if cp is not None:
        cpline = ("!" if eff else "") + w.req_line(cp)
    if sd is not None and rec.get("oversize"):
        # refused for its size: answered (status 0x65), not executed
        return "D" + (lc.hexs(reply_frame) if reply_frame is not None else "-") + ":" + fate, fate + "-", "D"
    if rec.get("oversize"):
        return "O", fate + "-", "O"
    if sd is not None:
        same = cp is not None and not eff and w.req_line(sd["req"]) == w.req_line(cp)
        tok = "D" + (lc.hexs(reply_frame) if reply_frame is not None else "-") + ":" + fate
        if not same:
            tok = "D!parsed-differently:" + cpline
        return tok, fate + cpline, "D"
    if cp is not None and (cp["op"] == "mu" or w.targets_ok(symbols, objs, cp)):
        if not eff and not w.targets_ok(symbols, objs, cp):
            # the bundle or a member is addressed to an object without tags: its replies are not modelled, its
            # effect on the tags is (members are routed to the objects their own paths designate)
            eff, cpline = True, "!" + cpline
        return "Q" + ("~" if eff else lc.hexs(cip)), fate + cpline, "Q"
    return "O", fate + "-", "O"


class ChunkFeed:
    """mode p chunks; a chunk {"cd": request hex, "seq": n} becomes a SendUnitData frame carrying the request as
    connected data on the connection the simulator last opened for this peer (its O->T connection ID is random)"""

    def __init__(self, chunks, dev, out):
        self.chunks, self.dev, self.out = chunks, dev, out

    def __iter__(self):
        for c in self.chunks:
            if isinstance(c, dict):
                ids = [k[2] for k in self.dev.device.Connection_Manager.forwards if k[:2] == ("10.0.0.1", 40000)]
                cid = ids[-1] if ids else 0x11223344
                req = bytes.fromhex(c["cd"])
                c = w.enc_frame(0x70, struct.pack("<IH", 0, 0) + w.enc_cpf(
                    [(0xa1, struct.pack("<I", cid)), (0xb1, struct.pack("<H", c.get("seq", 1)) + req)]))
            self.out.append(c)
            yield c


def run_case(case):
    """-> dict(line, info, tagline, addrs, verdict, stats)"""
    dev = lc.Device(case)
    run.install_counter()
    run.reset_globals(dev)
    try:
        return _run_case(case, dev)
    finally:
        run.Counter.budget = None
        dev.close()


def _run_case(case, dev):
    mode = case["mode"]
    chunks = [bytes.fromhex(c) if isinstance(c, str) else c for c in case["chunks"]]
    nbytes = sum(len(c) if isinstance(c, bytes) else 60 + len(c["cd"]) // 2 for c in chunks)
    if mode == "p":
        materialized = []
        chunks = ChunkFeed(chunks, dev, materialized)
    else:
        materialized = chunks
    addrs = {k: list(v) for k, v in dev.addrs.items()}
    symbols = {t["name"].lower(): tuple(dev.addrs[t["name"]]) for t in case["tags"]}
    objs = {(2, 1)} | {(a[0], a[1]) for a in symbols.values()}
    spec = Spec(case, addrs)
    complaints = []
    stats = {"kinds": [], "exc": [], "steps": 0, "bytes": nbytes}
    bound = run.STEP_A * nbytes + run.STEP_B
    run.Counter.count = 0
    run.Counter.budget = run.HANG_FACTOR * bound
    outs, infos = [], []
    split = frames_of(mode, chunks) if mode == "s" else None
    bystander_calls = []

    if mode == "s":
        addr = ("10.0.0.%d" % (1 + case.get("peer", 0) % 200), 40000 + case.get("peer", 0) % 20000)
        other = None
        if case.get("bystander"):
            # an existing session of another client: registers and writes before, reads and writes after
            gate = threading.Event()
            by = [bytes.fromhex(c) for c in case["bystander"]["chunks"]]
            nbytes += sum(len(c) for c in by)
            bound = run.STEP_A * nbytes + run.STEP_B
            run.Counter.budget = run.HANG_FACTOR * bound
            other = run.run_server(dev, by, ("10.9.9.9", 50001), gate=gate, gate_at=case["bystander"]["gate_at"])
            # let it consume its first part
            for _ in range(4000):
                if (other[2].given >= case["bystander"]["gate_at"]
                        and sum(1 for r in other[0].calls if "dump" in r) >= case["bystander"]["before"]):
                    break
                if not other[1].is_alive():
                    break
                threading.Event().wait(0.0005)
        sess, th, conn, ctl = run.run_server(dev, chunks, addr, size=case.get("size"))
        th.join(120)
        steps = run.Counter.count
        if th.is_alive():
            complaints.append("the connection's server thread did not end (hang)")
            ctl["done"] = True
        if not conn.closed:
            complaints.append("the connection was not closed when its handler ended")
        from cpppo.server.enip import main as emain
        key = "%s_%d" % (addr[0].replace(".", "_"), addr[1])
        if key in emain.connections:
            complaints.append("the connection's stats entry was not removed")
        calls = sess.calls
        # replies: one send at most per processed frame
        for k, rec in enumerate(calls):
            nxt = calls[k + 1]["nsent"] if k + 1 < len(calls) else len(conn.sent)
            rec["reply"] = conn.sent[rec["nsent"]] if nxt > rec["nsent"] else None
            if nxt - rec["nsent"] > 1:
                complaints.append(f"frame #{k}: {nxt - rec['nsent']} replies sent for one request")
        if other is not None:
            gate.set()
            other[1].join(120)
            if other[1].is_alive():
                complaints.append("the other (existing) session did not finish after the hostile one")
                other[3]["done"] = True
            bystander_calls = other[0].calls
            why = judge_bystander(case, other[0], other[2], spec, dev)
            if why:
                complaints.append(why)
    else:
        calls = []
        sess = run.Session(dev, ("10.0.0.1", 40000))
        conn = run.FakeConn([])
        sess.conn = conn
        import cpppo
        from cpppo.server.enip import parser
        for j, c in enumerate(chunks):
            data = cpppo.dotdict()
            ok = True
            try:
                with parser.enip_machine(context="enip") as m:
                    for _ in m.run(path="request", source=cpppo.chainable(c), data=data):
                        pass
            except run.Hang:
                raise
            except Exception as exc:
                ok = False
            if not ok or "request" not in data or not data.request:
                calls.append({"incomplete": True, "dump": dev.dump(), "cp": (None, [], None, False), "cont": True})
                continue
            n0 = len(sess.calls)
            try:
                res = (sess.process(("10.0.0.1", 40000), data, size=case["size"]) if case.get("size") is not None
                       else sess.process(("10.0.0.1", 40000), data))
            except run.Hang:
                raise
            except BaseException:
                res = None
            rec = sess.calls[n0]
            rec["reply"] = None
            if res:
                try:
                    rec["reply"] = parser.enip_encode(data.response.enip)
                except Exception as exc:
                    rec["exc"] = "encode:" + type(exc).__name__
            calls.append(rec)
        steps = run.Counter.count
        split = frames_of(mode, materialized)
    run.Counter.budget = None
    stats["steps"] = steps
    stats["bytes"] = nbytes

    # (a) bounded work
    if steps > bound:
        complaints.append(f"{steps} engine steps for {nbytes} input bytes exceeds {run.STEP_A}*len+{run.STEP_B}")
    # the frames the server processed are the frames that were sent, in order
    k = -1
    for k, rec in enumerate(calls):
        if rec.get("incomplete"):
            outs.append("I@" + rec["dump"])
            infos.append("k-")
            stats["kinds"].append("I")
            if mode == "p" and k < len(split) and split[k] is not None:
                complaints.append(f"chunk #{k} holds a complete frame but the frame parser failed")
            continue
        if k >= len(split) or split[k] is None:
            complaints.append(f"the server processed a frame #{k} that was never completely sent")
            break
        hdr, pl, _rest = split[k]
        if rec["hdr"] != (hdr["cmd"], hdr["len"], hdr["session"]):
            complaints.append(f"frame #{k}: header parsed as {rec['hdr']}, sent {hdr['cmd'], hdr['len'], hdr['session']}")
            break
        fb = w.enc_frame(hdr["cmd"], pl, session=hdr["session"], status=hdr["status"], ctx=hdr["ctx"],
                         options=hdr["options"])
        tok, info, kind = token_for(fb, rec, symbols, objs, rec.get("reply"))
        outs.append(tok + "@" + rec["dump"])
        infos.append(info)
        stats["kinds"].append(kind + ("x" if "exc" in rec else ""))
        # (b) exception types
        if "exc" in rec:
            stats["exc"].append(rec["exc"])
            if rec["exc"] == "Hang":
                complaints.append(f"frame #{k}: no termination within {run.HANG_FACTOR} x the linear step bound (hang)")
            elif not rec.get("exc_ok", True):
                complaints.append(f"frame #{k}: {rec['exc']} left logix.process (not an ordinary Exception)")
        # replies or closes
        if mode == "s" and rec["cont"] and rec.get("reply") is None:
            complaints.append(f"frame #{k}: the session went on without a reply")
        # a decodable frame must be parsed by the code as the same request, and answered
        if kind == "D" and tok.startswith("D!"):
            complaints.append(f"frame #{k}: well-formed request not parsed as such by the implementation")
    # (e) tags change only through accepted well-formed writes: all processed frames of all sessions, in the
    #     order they were executed
    timeline = sorted([r for r in calls + bystander_calls if "seq" in r], key=lambda r: r["seq"])
    for rec in timeline:
        cp, members, cip, eff = rec["cp"]
        if rec.get("oversize"):
            # longer than the configured --size limit: to be refused (encapsulation status 0x65), so it accounts for
            # no change whatever it carries
            if members:
                complaints.append(f"frame seq {rec['seq']}: a request longer than the size limit {case.get('size')} "
                                  f"was executed ({w.req_line(cp)[:80]})")
            members = []
        for m, mreply in members:
            why = spec.apply(m, mreply)
            if why:
                complaints.append(f"frame seq {rec['seq']}: {why}")
        why = spec.check_dump(rec["dump"])
        if why:
            complaints.append(f"frame seq {rec['seq']}: {why}")
            break
    if mode == "s":
        nproc = len([c for c in calls if not c.get("incomplete")])
        # every complete frame up to the end of the session is processed
        for j, rec in enumerate(calls[:-1]):
            if not rec["cont"]:
                complaints.append(f"frame #{j} ended the session but frame #{j + 1} was still processed")
        if calls and calls[-1]["cont"] and nproc < len(split):
            complaints.append(f"only {nproc} of {len(split)} complete frames were processed although the session was alive")
        # (d) a new session afterwards reads every tag back
        why = readback(case, dev, spec)
        if why:
            complaints.append(why)
    # what the other session did before this one: the model starts from that state
    first = min([r["seq"] for r in calls if "seq" in r], default=0)
    pre = []
    for rec in sorted([r for r in bystander_calls if "seq" in r and r["seq"] < first], key=lambda r: r["seq"]):
        for m, _ in rec["cp"][1]:
            pre.append(w.req_line(m))
    line = (";".join(outs) if outs else "-") + f"#{len(outs)}"
    return {"line": line, "info": ";".join(infos) if infos else "-", "tagline": dev.tag_line(case), "addrs": addrs,
            "chunks": [c.hex() for c in materialized],
            "pre": ";".join(pre) if pre else "-",
            "verdict": complaints[0] if complaints else None, "stats": stats}


def readback(case, dev, spec):
    budget = case["budget"]
    frames = [w.enc_frame(0x65, b"\x01\x00\x00\x00")]
    plan = []
    for addr, arr in spec.arr.items():
        ty = spec.ty[addr]
        siz = lc.SIZES.get(ty, 80)
        per = max((budget + siz - 1) // siz, 1)
        n = len(arr)
        start = 0
        while start < n:
            r = {"op": "rf", "path": [["c", addr[0]], ["i", addr[1]], ["a", addr[2]]], "n": n, "off": start * siz}
            frames.append(w.enc_tag_frame(r, session=9))
            plan.append((addr, start, min(per, n - start), ty))
            start += per
    saved = (run.Counter.count, run.Counter.budget)
    run.Counter.budget = None
    sess, th, conn, ctl = run.run_server(dev, [b"".join(frames)], ("10.0.1.1", 41000))
    th.join(120)
    run.Counter.count = saved[0]
    if th.is_alive():
        ctl["done"] = True
        return "a new session after the input did not complete"
    if len(conn.sent) != len(frames):
        return f"a new session after the input got {len(conn.sent)} replies for {len(frames)} requests"
    for (addr, start, cnt, ty), rep in zip(plan, conn.sent[1:]):
        cip = run.cip_of_reply(rep)
        pr = lg.parse_reply(cip) if cip is not None else None
        if pr is None or pr["status"] not in (0, 6):
            return f"a new session cannot read the tag at {addr}: {rep.hex()}"
        elems = lg.split_elems(ty, pr["body"][2:])
        if elems != spec.arr[addr][start:start + cnt]:
            return (f"a new session reads {[e.hex() for e in (elems or [])][:4]} at {addr}[{start}] where the accepted "
                    f"writes left {[e.hex() for e in spec.arr[addr][start:start + cnt]][:4]}")
    return None


def judge_bystander(case, sess, conn, spec, dev):
    """the other session's valid requests are all answered (its writes were accounted for in `spec` in order of
    execution by its own records)"""
    exp = case["bystander"]["frames"]
    if len(conn.sent) != exp:
        return f"the other (existing) session got {len(conn.sent)} replies for its {exp} valid requests"
    for rec in sess.calls:
        if "exc" in rec:
            return f"the other (existing) session failed with {rec['exc']}"
    return None


# ------------------------------------------------------------------------------------------------
# datagrams: the real UDP loop
# ------------------------------------------------------------------------------------------------
PEERS = [("10.1.0.1", 1001), ("10.1.0.2", 1002), ("10.1.0.3", 1003), ("10.1.9.9", 1999)]
MUST_ANSWER = {}


def must_answer_kinds():
    """(command, payload) of the non-tag requests the UDP loop answers when they arrive alone (established on the
    real code, once per process): they must be answered in every company too"""
    if MUST_ANSWER:
        return MUST_ANSWER
    for name, b in g.OTHER_VALID.items():
        case = {"budget": 488, "tags": [{"name": "A", "type": "INT", "len": 2, "addr": None}]}
        dev = lc.Device(case)
        run.install_counter()
        run.reset_globals(dev)
        try:
            run.Counter.budget = None
            sess, th, conn, ctl = run.run_udp(dev, [(b, PEERS[0])])
            th.join(60)
            sp = w.split_frame(b)
            if sp and len(conn.sent) == 1 and conn.sent[0][:2] == b[:2]:
                MUST_ANSWER[(sp[0]["cmd"], sp[1])] = name
        finally:
            dev.close()
    MUST_ANSWER[("probed",)] = True
    return MUST_ANSWER


def run_udp_case(case):
    import sys
    sys.unraisablehook = lambda *a: None     # abandoned parser generators of dropped datagrams complain on stderr
    must_answer_kinds()          # (builds devices of its own: before this case's device exists)
    dev = lc.Device(case)
    run.install_counter()
    run.reset_globals(dev)
    try:
        return _run_udp_case(case, dev)
    finally:
        run.Counter.budget = None
        dev.close()


def _run_udp_case(case, dev):
    kinds_ok = must_answer_kinds()
    run.reset_globals(dev)
    dgrams = [(bytes.fromhex(h), PEERS[p]) for h, p in case["dgrams"]]
    nbytes = sum(len(b) for b, _ in dgrams)
    addrs = {k: list(v) for k, v in dev.addrs.items()}
    symbols = {t["name"].lower(): tuple(dev.addrs[t["name"]]) for t in case["tags"]}
    objs = {(2, 1)} | {(a[0], a[1]) for a in symbols.values()}
    spec = Spec(case, addrs)
    complaints = []
    stats = {"kinds": [], "exc": [], "steps": 0, "bytes": nbytes}
    bound = run.STEP_A * nbytes + run.STEP_B + 300 * len(dgrams)
    run.Counter.count = 0
    run.Counter.budget = run.HANG_FACTOR * bound
    dump0 = dev.dump()
    sess, th, conn, ctl = run.run_udp(dev, dgrams)
    th.join(120)
    steps = run.Counter.count
    run.Counter.budget = None
    stats["steps"] = steps
    if th.is_alive():
        complaints.append("the datagram loop did not end when told to (hang)")
        ctl["done"] = True
    if steps > bound:
        complaints.append(f"{steps} engine steps for {nbytes} bytes in {len(dgrams)} datagrams exceeds the linear bound")
    if len(conn.dumps) < len(dgrams):
        complaints.append(f"the datagram loop took only {len(conn.dumps)} of {len(dgrams)} datagrams")
    by_dg = {}
    for rec in sess.calls:
        by_dg.setdefault(rec["dg"], []).append(rec)
    sends = {}
    for (k, addr), b in zip(conn.sent_meta, conn.sent):
        sends.setdefault(k, []).append((addr, b))
    outs, infos = [], []
    for k, (b, peer) in enumerate(dgrams):
        dump = conn.dumps[k] if k < len(conn.dumps) else (conn.dumps[-1] if conn.dumps else dump0)
        sp = w.split_frame(b)
        recs = by_dg.get(k, [])
        sent = sends.get(k, [])
        # replies go to the sender of the datagram being handled, one at most
        if len(sent) > 1:
            complaints.append(f"datagram #{k}: {len(sent)} replies")
        for addr, _ in sent:
            if addr != peer:
                complaints.append(f"datagram #{k} from {peer}: reply addressed to {addr}")
        if len(recs) > 1:
            complaints.append(f"datagram #{k} was processed {len(recs)} times")
        if not recs:
            outs.append("I@" + dump)
            infos.append("k-")
            stats["kinds"].append("I")
            if sp is not None and sp[0]["cmd"] != 0 or (sp is not None and sp[1]):
                pass
            if sp is not None:
                complaints.append(f"datagram #{k} from {peer} holds a complete frame (command {sp[0]['cmd']:#x}) "
                                  f"but was not processed")
            if sent:
                complaints.append(f"datagram #{k}: a reply without a processed request")
            continue
        rec = recs[0]
        rec["dump"] = dump
        if sp is None:
            complaints.append(f"datagram #{k} holds no complete frame but a request was processed")
            outs.append("?@" + dump)
            infos.append("k-")
            continue
        hdr, pl, _rest = sp
        if rec["hdr"] != (hdr["cmd"], hdr["len"], hdr["session"]):
            complaints.append(f"datagram #{k} from {peer}: header parsed as {rec['hdr']}, sent "
                              f"{hdr['cmd'], hdr['len'], hdr['session']} (bytes of another datagram?)")
        if rec.get("peer") != peer:
            complaints.append(f"datagram #{k} from {peer} processed as coming from {rec.get('peer')}")
        fb = w.enc_frame(hdr["cmd"], pl, session=hdr["session"], status=hdr["status"], ctx=hdr["ctx"],
                         options=hdr["options"])
        reply = sent[0][1] if sent else None
        tok, info, kind = token_for(fb, rec, symbols, objs, reply)
        outs.append(tok + "@" + dump)
        infos.append(info)
        stats["kinds"].append(kind + ("x" if "exc" in rec else ""))
        if "exc" in rec:
            stats["exc"].append(rec["exc"])
            if not rec.get("exc_ok", True):
                complaints.append(f"datagram #{k}: {rec['exc']} left logix.process (not an ordinary Exception)")
        if kind == "D" and tok.startswith("D!"):
            complaints.append(f"datagram #{k}: well-formed request not parsed as such by the implementation")
        # every valid request gets exactly its reply, whatever its neighbours are
        must = kind == "D" or (hdr["status"] == 0 and (hdr["cmd"], pl) in kinds_ok)
        if must:
            if reply is None:
                complaints.append(f"datagram #{k} from {peer}: a valid request (command {hdr['cmd']:#x}) got no reply")
            elif reply[:2] != fb[:2] or reply[12:20] != hdr["ctx"]:
                complaints.append(f"datagram #{k} from {peer}: the reply is not the reply to this request "
                                  f"(command/context {reply[:2].hex()}/{reply[12:20].hex()})")
    # tags change only through accepted well-formed writes
    for rec in sorted([r for r in sess.calls if "seq" in r], key=lambda r: r["seq"]):
        cp, members, cip, eff = rec["cp"]
        for m, mreply in members:
            why = spec.apply(m, mreply)
            if why:
                complaints.append(f"datagram #{rec['dg']}: {why}")
        why = spec.check_dump(rec.get("dump", dump0))
        if why:
            complaints.append(f"datagram #{rec['dg']}: {why}")
            break
    why = spec.check_dump(dev.dump())
    if why:
        complaints.append("after the last datagram: " + why)
    line = (";".join(outs) if outs else "-") + f"#{len(outs)}"
    return {"line": line, "info": ";".join(infos) if infos else "-", "tagline": dev.tag_line(case), "addrs": addrs,
            "chunks": [h for h, _ in case["dgrams"]], "pre": "-",
            "verdict": complaints[0] if complaints else None, "stats": stats}


def run_engine_case(case):
    line = run.run_engine(case)
    passes = int(line.split(":")[0])
    n, ln = len(case["kinds"]), len(case["input"]) // 2
    verdict = None
    if passes > n * (ln + 1):
        verdict = f"{passes} state runs at one machine level exceed |states|*(|input|+1) = {n * (ln + 1)}"
    return {"line": line, "info": "-", "tagline": "-", "addrs": {}, "verdict": verdict,
            "stats": {"kinds": ["E:" + line.split(":")[2]], "exc": [], "steps": run.Counter.count, "bytes": ln}}


def nest_request(tree):
    """tree = ["leaf", request] | ["mu", [tree...]] -> request bytes (bundles addressed to the Message Router)"""
    if tree[0] == "leaf":
        return w.enc_request(tree[1])
    ms = [nest_request(t) for t in tree[1]]
    off = 2 + 2 * len(ms)
    offs = []
    for m in ms:
        offs.append(off)
        off += len(m)
    return (b"\x0a" + w.enc_epath([["c", 2], ["i", 1]]) + struct.pack("<H", len(ms))
            + b"".join(struct.pack("<H", o) for o in offs) + b"".join(ms))


def tree_depth(t):
    return 0 if t[0] == "leaf" else 1 + max(tree_depth(x) for x in t[1])


def run_nested_case(case):
    """Multiple Service Packets inside Multiple Service Packets: bytes the real member parsers are handed at
    all levels (the model's `scanCost`), engine steps, and the usual state check"""
    req = nest_request(case["tree"])
    frame = w.enc_send(w.enc_unconnected(req))
    dev = lc.Device(case)
    run.install_counter()
    run.install_member_counter()
    run.reset_globals(dev)
    try:
        import cpppo
        from cpppo.server.enip import parser
        data = cpppo.dotdict()
        with parser.enip_machine(context="enip") as m:
            for _ in m.run(path="request", source=cpppo.chainable(frame), data=data):
                pass
        run.MemberBytes.total = 0
        run.Counter.count = 0
        bound = run.STEP_A * len(frame) + run.STEP_B
        run.Counter.budget = run.HANG_FACTOR * 50 * bound
        sess = run.Session(dev, ("10.0.0.1", 40000))
        sess.conn = run.FakeConn([])
        try:
            sess.process(("10.0.0.1", 40000), data)
        except run.Hang:
            raise
        except BaseException:
            pass
        steps = run.Counter.count
        scanned = run.MemberBytes.total + len(req)
        rec = sess.calls[0]
        spec = Spec(case, {k: list(v) for k, v in dev.addrs.items()})
        verdict = None
        for mreq, mreply in rec["cp"][1]:
            verdict = verdict or spec.apply(mreq, mreply)
        verdict = verdict or spec.check_dump(rec["dump"])
        if verdict is None and steps > bound:
            verdict = (f"{steps} engine steps for a {len(frame)}-byte frame exceeds {run.STEP_A}*len+{run.STEP_B}: "
                       f"nested Multiple Service Packets are re-parsed at every level ({scanned} symbols consumed "
                       f"for a {len(req)}-byte request)")
        return {"line": str(scanned), "info": "-", "tagline": "-", "addrs": {}, "verdict": verdict, "req": req.hex(),
                "stats": {"kinds": ["N"], "exc": [], "steps": steps, "bytes": len(frame)}}
    finally:
        run.Counter.budget = None
        dev.close()


def _pool_run(case):
    try:
        if case["mode"] == "e":
            return run_engine_case(case)
        if case["mode"] == "n":
            return run_nested_case(case)
        if case["mode"] == "u":
            return run_udp_case(case)
        return run_case(case)
    except run.Hang:
        run.Counter.budget = None
        return {"line": "hang", "info": "-", "tagline": "-", "addrs": {}, "stats": {"kinds": ["hang"], "exc": [], "steps": -1,
                                                                                 "bytes": 0},
                "verdict": "no termination within %d x the linear step bound (hang)" % run.HANG_FACTOR}
    except Exception as exc:   # harness trouble must be visible, not silent
        import traceback
        return {"line": "harness-exception:" + type(exc).__name__, "info": "-", "tagline": None, "addrs": {},
                "stats": {"kinds": ["harness"], "exc": [], "steps": 0, "bytes": 0},
                "verdict": "harness-exception: " + traceback.format_exc()[-600:]}


# ------------------------------------------------------------------------------------------------
# the suite
# ------------------------------------------------------------------------------------------------
class C08(Suite):
    id = "C08"
    props_module = "Cpppo.Props.C08"
    extra_modules = ["Cpppo.Proofs.Serve", "Cpppo.Proofs.Crumbs"]
    rule = ("mode s: byte streams through the real enip_srv/enip_srv_tcp on a network.server_thread with a scripted "
            "connection (register + mostly valid tag requests with hostile frames mixed in, random recv blocks; 15% with "
            "a second, already existing session that must keep working; pure noise); mode p: independent frames through "
            "the real enip_machine + logix.process (exhaustive small scope: for one canonical frame per service x "
            "wrapped/bare, every numeric field (encapsulation length, CPF count/type/length, Unconnected Send "
            "length/path/route size, EPATH size/segment types/symbol length, Multiple Service count/offsets, "
            "type/elements/offset) x boundary values, every truncation with and without fixed-up length, every single "
            "deletion, every bit flip (thorough), every data length of Set Attribute Single / element count of writes; "
            "the non-tag message kinds (register, list*, legacy, forward open/close, connected data, get attribute list, "
            "other objects) truncated and bit-flipped; random mutations (field, bitflip, delete, insert, truncate, append, "
            "overwrite, re-lengthed damage) of random valid frames on random devices; connected sessions); mode e: small "
            "machines (exhaustive 2-state, random <= 5 states, epsilon cycles) on the real automata engine; mode n: "
            "Multiple Service Packets nested in one another; mode u: datagram sequences from 2-3 peers through the real "
            "enip_srv_udp (valid requests, trailing bytes, truncations, mutations, noise; systematic frame+tail / "
            "truncation followed by another peer's valid request). non-trivial = a case with at least one frame outside the "
            "well-formed grammar (refused, answered by something else, quirk-accepted, incomplete), a machine that makes "
            ">= 2 passes, or a nested bundle; distinct by the bytes sent")
    assumptions = [
        "tag-holding objects only (Logix Message Router + classes derived by setup_tag); other objects' replies are "
        "not modelled: frames addressed to them only have to leave every tag alone",
        "whether the session survives a frame outside the well-formed grammar is taken from the implementation "
        "(the theorems hold for every such choice)",
        "wall-clock time, memory and the accept loop of server_main are observed (thread ends, steps counted), not proved",
        "UCMM route_path unrestricted (the default); no [UCMM] Route table (no forwarding to remote devices)",
    ]
    trusted_extra = ["harness/corr/c08_wire.py: the oracle's strict decoder and addressing rules (python)"]

    def __init__(self):
        self.cache = {}
        self.keep = []

    # -- generation --------------------------------------------------------------------------------------
    def cases(self, tier, rng):
        cases = list(self.gen(tier, rng))
        for c, res in zip(cases, self.run_all(cases)):
            self.cache[id(c)] = res
            self.keep.append(c)
            yield c

    def run_all(self, cases):
        if NPROC <= 1 or len(cases) < 64:
            return [_pool_run(c) for c in cases]
        ctx = multiprocessing.get_context("fork")
        with ctx.Pool(NPROC) as pool:
            return pool.map(_pool_run, cases, chunksize=max(1, min(64, len(cases) // (NPROC * 8))))

    def gen(self, tier, rng):
        quick = tier == "quick"
        # 1. exhaustive small scope: one canonical frame per kind; every field x boundary values, every
        #    truncation, every single deletion, every bit flip of the structural bytes -- independent frames
        tags = [{"name": "A", "type": "INT", "len": 4, "addr": None},
                {"name": "B", "type": "DINT", "len": 2, "addr": [0x93, 2, 3]},
                {"name": "S", "type": "SSTRING", "len": 2, "addr": None},
                {"name": "F", "type": "REAL", "len": 1, "addr": None}]
        canon = [
            {"op": "wt", "path": [["s", "A"], ["e", 1]], "ty": 0xc3, "n": 2, "vals": [7, -3]},
            {"op": "wf", "path": [["s", "A"]], "ty": 0xc3, "n": 4, "off": 4, "vals": [11, 12]},
            {"op": "rt", "path": [["s", "A"]], "n": 4},
            {"op": "rf", "path": [["c", 0x93], ["i", 2], ["a", 3]], "n": 2, "off": 0},
            {"op": "ss", "path": [["c", 0x93], ["i", 2], ["a", 3]], "data": [1, 2, 3, 4, 5, 6, 7, 8]},
            {"op": "gs", "path": [["c", 0x93], ["i", 2], ["a", 3]]},
            {"op": "ga", "path": [["c", 0x93], ["i", 2]]},
            {"op": "wt", "path": [["s", "S"]], "ty": 0xda, "n": 2, "vals": ["abc", "de"]},
            {"op": "wt", "path": [["s", "F"]], "ty": 0xca, "n": 1, "vals": [{"f32": 0x3fc00000}]},
            {"op": "mu", "path": [["c", 2], ["i", 1]],
             "reqs": [{"op": "wt", "path": [["s", "A"]], "ty": 0xc3, "n": 1, "vals": [5]},
                      {"op": "rt", "path": [["s", "A"]], "n": 4},
                      {"op": "wf", "path": [["s", "B"]], "ty": 0xc4, "n": 2, "off": 4, "vals": [99]}]},
        ]
        batch = []

        def flush():
            nonlocal batch
            if batch:
                c = {"mode": "p", "budget": 488, "tags": tags, "chunks": [x.hex() for _, x in batch],
                     "mut": sorted({k for k, _ in batch})[0]}
                batch = []
                return c
            return None

        for ci, r in enumerate(canon):
            for wrapped in ((True, False) if r["op"] != "rf" else (True,)):
                if quick and not wrapped and ci not in (0, 9):
                    continue
                fb = g.b_frame(r, wrapped=wrapped)
                b = bytes(fb.b)
                muts = [("valid", b)]
                for name, off, size in fb.fields:
                    if name.endswith("[]"):
                        continue
                    cur = int.from_bytes(b[off:off + size], "little")
                    vals = g.field_values(rng, cur, size, exhaustive=True)
                    if quick:
                        vals = [v for v in vals if abs(v - cur) <= 2 or v in (0, 0xff, 0xffff)][:8]
                    for v in vals:
                        muts.append(("field", g.set_field(b, off, size, v)))
                step = 3 if quick else 1
                for n in range(0, len(b), step):
                    muts.append(("truncate", b[:n]))
                    muts.append(("truncate-relen", b[:2] + struct.pack("<H", max(n - 24, 0)) + b[4:n]) if n >= 24
                                else ("truncate", b[:n]))
                for j in range(24, len(b), step):
                    c = b[:j] + b[j + 1:]
                    muts.append(("delete-relen", c[:2] + struct.pack("<H", len(c) - 24) + c[4:]))
                if not quick:
                    for j in range(len(b)):
                        for bit in range(8):
                            muts.append(("bitflip", b[:j] + bytes([b[j] ^ (1 << bit)]) + b[j + 1:]))
                if r["op"] == "ss":
                    # Set Attribute Single with every data length around the attribute's size
                    for n in range(0, 19):
                        muts.append(("ss-size", bytes(g.b_frame(dict(r, data=[(7 * j + 1) % 256 for j in range(n)]),
                                                               wrapped=wrapped).b)))
                if r["op"] in ("wt", "wf"):
                    # more / fewer data elements than the element count says
                    for n in range(0, 6):
                        muts.append(("wt-count", bytes(g.b_frame(dict(r, vals=(r["vals"] * 6)[:n]), wrapped=wrapped).b)))
                for m in muts:
                    if not m[1]:
                        continue
                    batch.append(m)
                    if len(batch) >= 24:
                        yield flush()
            c = flush()
            if c:
                yield c
        # the non-tag kinds
        for name, b in g.OTHER_VALID.items():
            muts = [("other-valid", b)]
            for n in range(1, len(b), 2 if quick else 1):
                muts.append(("other-truncate", b[:n]))
            for j in range(0, len(b), 3 if quick else 1):
                muts.append(("other-bitflip", b[:j] + bytes([b[j] ^ (1 << (j % 8))]) + b[j + 1:]))
            for i in range(0, len(muts), 24):
                yield {"mode": "p", "budget": 488, "tags": tags, "chunks": [x.hex() for _, x in muts[i:i + 24]],
                       "mut": "other:" + name}

        # 2. random independent frames (mode p): random devices, mutated valid frames
        for _ in range(400 if quick else 6000):
            tg = lg.rand_tags(rng)
            chunks, kinds = [], set()
            for _ in range(rng.randint(4, 16)):
                kind, b = self.hostile(rng, tg)
                kinds.add(kind.split(":")[0])
                if b:
                    chunks.append(b.hex())
            yield {"mode": "p", "budget": rng.choice([488, 488, 100, 24]), "tags": tg, "chunks": chunks,
                   "mut": sorted(kinds)[0] if kinds else "none"}

        # 3. streams through the real server (mode s)
        for n in range(1800 if quick else 24000):
            tg = lg.rand_tags(rng)
            stream, kinds = [], set()
            if rng.random() < 0.85:
                stream.append(g.OTHER_VALID["register"])
            nfr = rng.randint(1, 10)
            hostile_at = {rng.randrange(nfr) for _ in range(rng.choice([0, 1, 1, 1, 2, 3]))}
            for j in range(nfr):
                if j in hostile_at:
                    kind, b = self.hostile(rng, tg)
                    kinds.add(kind.split(":")[0])
                else:
                    fb, _r = g.valid_frame(rng, tg)
                    b = bytes(fb.b)
                    kinds.add("valid")
                stream.append(b)
            if rng.random() < 0.1:
                stream.append(g.OTHER_VALID["unregister"])
            data = b"".join(stream)
            c = {"mode": "s", "budget": rng.choice([488, 488, 100, 24]), "tags": tg,
                 "chunks": [x.hex() for x in g.chunked(rng, data)], "peer": n,
                 "mut": sorted(kinds - {"valid"})[0] if kinds - {"valid"} else "valid"}
            if rng.random() < 0.15:
                c["bystander"] = self.bystander(rng, tg)
            yield c

        # 5. the crumb mechanism itself: small machines on the real engine (exhaustive 2-state machines over
        #    {symbol, any, no-input} in the thorough tier; random machines of up to 5 states)
        syms = [0x41, "*", "-"]
        if not quick:
            import itertools
            slots = [(s, y) for s in range(2) for y in syms]
            for targets in itertools.product([None, 0, 1], repeat=len(slots)):
                edges = [[s, y, t] for (s, y), t in zip(slots, targets) if t is not None]
                for kinds in ("pp", "pc", "cp", "cc"):
                    term = ["01", "10", "11", "00"][(len(edges) + kinds.count("c")) % 4]
                    yield {"mode": "e", "kinds": kinds, "terminal": term, "edges": edges,
                           "input": ["", "41", "4141", "4241"][len(edges) % 4]}
        for _ in range(3000 if quick else 20000):
            n = rng.randint(1, 5)
            kinds = "".join(rng.choice("ppc") for _ in range(n))
            term = "".join(rng.choice("01") for _ in range(n))
            edges = []
            for s_ in range(n):
                for y in [0x41, 0x42, "*", "-"]:
                    if rng.random() < 0.45:
                        edges.append([s_, y, rng.randrange(n)])
            inp = bytes(rng.choice([0x41, 0x42, 0x43]) for _ in range(rng.choice([0, 1, 2, 3, 4, 6]))).hex()
            yield {"mode": "e", "kinds": kinds, "terminal": term, "edges": edges, "input": inp}

        # 7. connected (Forward Open) sessions: requests carried as connected data, before / after Forward Close
        for _ in range(100 if quick else 1200):
            tg = lg.rand_tags(rng, max_tags=3)
            chunks = [g.OTHER_VALID["register"].hex()]
            if rng.random() < 0.85:
                chunks.append(g.OTHER_VALID[rng.choice(["fwd_open", "fwd_open", "fwd_open2"])].hex())
            for k in range(rng.randint(1, 6)):
                r = rand_req(rng, tg, invalid=0.1) if rng.random() < 0.8 else rand_req_simple(rng, tg)
                req = w.enc_request(r)
                if rng.random() < 0.25:
                    _k, req = g.mutate_raw(rng, req)
                if req:
                    chunks.append({"cd": req.hex(), "seq": k + 1})
                if rng.random() < 0.15:
                    chunks.append(g.OTHER_VALID["fwd_close"].hex())
            yield {"mode": "p", "budget": 488, "tags": tg, "chunks": chunks, "mut": "connected"}

        # 9. bundles with a member cut off inside a data element (all outer lengths consistent), writes whose
        #    later values do not fit the tag's type, and the --size limit
        yield from self.gen_round2(quick, rng)

        # 8. datagrams from 2-3 peers through the real UDP loop
        yield from self.gen_udp(quick, rng)

        # 6. Multiple Service Packets nested in one another (small depths: the parsers' work per level)
        for _ in range(100 if quick else 1500):
            tg = lg.rand_tags(rng, max_tags=3)

            def tree(depth):
                if depth == 0 or rng.random() < 0.4:
                    return ["leaf", rand_req_simple(rng, tg)]
                return ["mu", [tree(depth - 1) for _ in range(rng.randint(1, 3))]]
            t = ["mu", [tree(rng.choice([0, 1, 1, 2])) for _ in range(rng.randint(1, 3))]]
            yield {"mode": "n", "budget": 488, "tags": tg, "tree": t}

        # 4. pure noise
        for n in range(250 if quick else 3000):
            tg = lg.rand_tags(rng, max_tags=2)
            ln = rng.choice([1, 2, 23, 24, 25, 40, 64, 100, 300, 1000])
            b = bytes(rng.randrange(256) for _ in range(ln))
            if rng.random() < 0.5 and ln >= 24:      # a plausible header in front of noise
                b = struct.pack("<HH", rng.choice([0x6f, 0x70, 0x65, 0x63, 0x04, 0x01, 0x66]), ln - 24) + b[4:]
            yield {"mode": "s", "budget": 488, "tags": tg, "chunks": [x.hex() for x in g.chunked(rng, b)], "peer": n,
                   "mut": "noise"}

    def gen_round2(self, quick, rng):
        def bundle(ms):
            off = 2 + 2 * len(ms)
            offs = []
            for m in ms:
                offs.append(off)
                off += len(m)
            return (b"\x0a" + w.enc_epath([["c", 2], ["i", 1]]) + struct.pack("<H", len(ms))
                    + b"".join(struct.pack("<H", o) for o in offs) + b"".join(ms))

        def framed(req, rng):
            return w.enc_send(w.enc_unconnected(req) if rng.random() < 0.7 else req)

        # (a) a member that is a write cut off mid-element, as last / middle / only member
        for _ in range(60 if quick else 1500):
            tg = lg.rand_tags(rng, max_tags=3, types=lc.FIXED)
            chunks = []
            for _ in range(rng.randint(2, 8)):
                t = rng.choice(tg)
                siz = lc.SIZES[t["type"]]
                n = rng.randint(1, min(t["len"], 4))
                op = rng.choice(["wt", "wf"])
                r = {"op": op, "path": [["s", t["name"]]], "ty": lc.TYPES[t["type"]], "n": n,
                     "vals": [fit_val(rng, t["type"], t["type"]) for _ in range(n)]}
                if op == "wf":
                    r["off"] = 0
                full = w.enc_request(r)
                cut = rng.randint(1, max(siz - 1, 1)) if siz > 1 else 1
                if rng.random() < 0.3:
                    cut += siz * rng.randint(0, n - 1)
                part = full[:len(full) - cut]
                other = [w.enc_request(rand_req_simple(rng, tg)) for _ in range(rng.randint(0, 2))]
                k = rng.randint(0, len(other))
                chunks.append(framed(bundle(other[:k] + [part] + other[k:]), rng).hex())
            yield {"mode": "p", "budget": 488, "tags": tg, "chunks": chunks, "mut": "member-cut"}

        # (b) a permitted wider / unsigned request type whose first value fits the tag and a later one does not, then
        #     reads of that tag -- in this session and (mode s: the read-back) a new one
        wide = {"SINT": ["USINT"], "INT": ["USINT", "UINT"], "DINT": ["UINT", "UDINT"], "LINT": ["UDINT", "ULINT"],
                "USINT": ["BOOL"], "UINT": ["USINT"], "UDINT": ["UINT"], "ULINT": ["UDINT"]}
        for k in range(60 if quick else 1200):
            tagty = rng.choice(["SINT", "INT", "DINT", "LINT"]) if rng.random() < 0.8 else rng.choice(sorted(wide))
            reqty = rng.choice(wide[tagty])
            ln = rng.choice([2, 3, 5, 8])
            tg = [{"name": "W", "type": tagty, "len": ln, "addr": rng.choice([None, [0x93, 1, 2]])}]
            n = rng.randint(2, ln)
            hi = lc.RANGES[reqty][1] if reqty != "BOOL" else 1
            vals = [rng.choice([0, 1, 5, lc.RANGES[tagty][1]]) if reqty != "BOOL" else True for _ in range(n)]
            for j in sorted(rng.sample(range(1, n), rng.randint(1, n - 1))):
                vals[j] = hi if reqty != "BOOL" else True
            vals = [min(v, hi) if reqty != "BOOL" else v for v in vals]
            wr = {"op": rng.choice(["wt", "wf"]), "path": [["s", "W"]], "ty": lc.TYPES[reqty], "n": n, "vals": vals}
            if wr["op"] == "wf":
                wr["off"] = 0
            rd = {"op": "rt", "path": [["s", "W"]], "n": ln}
            frames = [g.OTHER_VALID["register"], bytes(g.b_frame(wr).b), bytes(g.b_frame(rd).b)]
            if k % 2:
                yield {"mode": "s", "budget": 488, "tags": tg, "chunks": [b"".join(frames).hex()], "peer": k,
                       "mut": "wide-later"}
            else:
                yield {"mode": "p", "budget": 488, "tags": tg, "chunks": [f.hex() for f in frames], "mut": "wide-later"}

        # (c) --size N: requests just below / at / above the limit, valid and hostile, streams and single frames
        for k in range(80 if quick else 2000):
            tg = lg.rand_tags(rng, max_tags=3)
            frames, lens = [], []
            for _ in range(rng.randint(1, 6)):
                if rng.random() < 0.75:
                    fb, _r = g.valid_frame(rng, tg, invalid=0.05)
                    b = bytes(fb.b)
                else:
                    _kind, b = self.hostile(rng, tg)
                if b:
                    frames.append(b)
                    if len(b) > 24:
                        lens.append(len(b) - 24)
            if not frames:
                continue
            base = rng.choice(lens) if lens else 40
            size = max(base + rng.choice([-9, -1, -1, 0, 0, 1, 30]), 1)
            if k % 2:
                yield {"mode": "s", "budget": 488, "tags": tg, "size": size, "peer": k, "mut": "size",
                       "chunks": [x.hex() for x in g.chunked(rng, g.OTHER_VALID["register"] + b"".join(frames))]}
            else:
                yield {"mode": "p", "budget": 488, "tags": tg, "size": size, "mut": "size",
                       "chunks": [f.hex() for f in frames]}

    def gen_udp(self, quick, rng):
        def ctxd(b, rng):
            """the same frame with a sender context of its own"""
            return b[:12] + bytes(rng.randrange(1, 256) for _ in range(8)) + b[20:] if len(b) >= 24 else b
        probe = [ctxd(g.OTHER_VALID["list_identity"], rng).hex(), 3]
        # systematic: (frame + 0.. trailing bytes | every truncation step) from one peer, then a valid request of another
        tags = [{"name": "A", "type": "INT", "len": 4, "addr": None}]
        wr = bytes(g.b_frame({"op": "wt", "path": [["s", "A"]], "ty": 0xc3, "n": 1, "vals": [7]}).b)
        rd = bytes(g.b_frame({"op": "rt", "path": [["s", "A"]], "n": 4}, wrapped=False).b)
        firsts = [g.OTHER_VALID["list_identity"], g.OTHER_VALID["register"], wr]
        seconds = [g.OTHER_VALID["list_identity"], rd, wr]
        for f in firsts:
            variants = [f + bytes(range(1, t + 1)) for t in (0, 1, 2, 3, 23, 24, 25, 48, 100)]
            variants += [f[:n] for n in ((1, 23, 24, len(f) - 1) if quick else range(1, len(f)))]
            variants += [f + f, f + f[:30]]
            for v in variants:
                for s2 in seconds:
                    yield {"mode": "u", "budget": 488, "tags": tags, "mut": "systematic",
                           "dgrams": [[ctxd(v, rng).hex(), 0], [ctxd(s2, rng).hex(), 1], [ctxd(v, rng).hex(), 1],
                                      [ctxd(s2, rng).hex(), 0], probe]}
        for _ in range(250 if quick else 6000):
            tg = lg.rand_tags(rng, max_tags=3)
            npeers = rng.choice([2, 3])
            dgs, kinds = [], set()
            for _ in range(rng.randint(3, 12)):
                r = rng.random()
                if r < 0.35:
                    fb, _r = g.valid_frame(rng, tg)
                    b, kind = bytes(fb.b), "valid"
                elif r < 0.50:
                    b, kind = g.OTHER_VALID[rng.choice(["list_identity", "list_services", "list_interfaces", "register",
                                                        "legacy", "unregister", "gaa_identity"])], "valid"
                elif r < 0.65:
                    fb, _r = g.valid_frame(rng, tg)
                    base = bytes(fb.b) if rng.random() < 0.6 else g.OTHER_VALID[rng.choice(["list_identity", "register"])]
                    b, kind = base + bytes(rng.randrange(256) for _ in range(rng.choice([1, 2, 4, 24, 30, 60]))), "trailing"
                elif r < 0.78:
                    fb, _r = g.valid_frame(rng, tg)
                    b = bytes(fb.b)
                    b, kind = b[:rng.randrange(1, len(b))], "truncated"
                elif r < 0.93:
                    kind, b = self.hostile(rng, tg)
                    kind = kind.split(":")[0]
                else:
                    b, kind = bytes(rng.randrange(256) for _ in range(rng.choice([1, 8, 24, 40, 100]))), "noise"
                if not b:
                    continue
                if kind in ("valid", "trailing") and rng.random() < 0.7:
                    b = ctxd(b, rng)
                kinds.add(kind)
                dgs.append([b.hex(), rng.randrange(npeers)])
            dgs.append(probe)
            yield {"mode": "u", "budget": rng.choice([488, 488, 100]), "tags": tg, "dgrams": dgs,
                   "mut": sorted(kinds - {"valid"})[0] if kinds - {"valid"} else "valid"}

    def hostile(self, rng, tg):
        r = rng.random()
        if r < 0.70:
            fb, _r = g.valid_frame(rng, tg)
            kind, b = g.mutate(rng, fb)
            if rng.random() < 0.15:       # a second mutation on top
                k2, b = g.mutate_raw(rng, b) if b else (kind, b)
            return kind, b
        if r < 0.90:
            name = rng.choice(sorted(g.OTHER_VALID))
            b = g.OTHER_VALID[name]
            if rng.random() < 0.6:
                _k, b = g.mutate_raw(rng, b)
            return "other", b
        ln = rng.choice([1, 8, 24, 30, 60])
        return "noise", bytes(rng.randrange(256) for _ in range(ln))

    def bystander(self, rng, tg):
        """an existing session: register + a write before the hostile connection, a read + a write after"""
        t = rng.choice(tg)
        frames = [g.OTHER_VALID["register"]]
        before = 1
        for _ in range(rng.randint(1, 2)):
            fb, _r = g.valid_frame(rng, [t], invalid=0)
            frames.append(bytes(fb.b))
            before += 1
        after = []
        for _ in range(rng.randint(1, 3)):
            fb, _r = g.valid_frame(rng, [t], invalid=0)
            after.append(bytes(fb.b))
        return {"chunks": [x.hex() for x in frames + after], "gate_at": len(frames), "before": before,
                "frames": len(frames) + len(after)}

    # -- framework API ----------------------------------------------------------------------------------
    def _res(self, c):
        if id(c) not in self.cache:
            self.cache[id(c)] = _pool_run(c)
            self.keep.append(c)
        return self.cache[id(c)]

    def impl(self, c):
        return self._res(c)["line"]

    def model_line(self, c):
        if c["mode"] == "e":
            edges = ",".join(f"{s}.{sym}>{t}" for s, sym, t in c["edges"]) or "-"
            return f"c08.eng {c['kinds']} {c['terminal']} {edges} {c['input'] or '-'}"
        if c["mode"] == "n":
            return "c08.scan " + nest_request(c["tree"]).hex()
        res = self._res(c)
        if res["tagline"] is None:
            return "c08-not-run"
        chunks = res.get("chunks", c.get("chunks"))
        return (f"c08 {c['mode']}{c['size'] if c.get('size') is not None else ''} {c['budget']} {res['tagline']} "
                f"{res.get('pre', '-')} "
                f"{','.join(chunks) if chunks else '-'} {res['info']}")

    def oracle(self, c, out):
        return self._res(c)["verdict"]

    def known_key(self, c):
        if c["mode"] in ("e", "n"):
            return self.model_line(c)
        if c["mode"] == "u":
            return json.dumps({k: c[k] for k in ("mode", "budget", "tags", "dgrams")}, sort_keys=True)
        return json.dumps({k: c[k] for k in ("mode", "budget", "tags", "chunks", "size") if k in c}, sort_keys=True)

    def nontrivial(self, c, out):
        if c["mode"] == "e":
            # a machine with a cycle that consumes nothing, or that ran out of input / transitions
            first = out.split(":")[0]
            return self.model_line(c) if first.isdigit() and int(first) >= 2 else None
        if c["mode"] == "n":
            return self.model_line(c)
        if c["mode"] == "u":
            kinds = self._res(c)["stats"]["kinds"]
            return (hashlib.sha1(json.dumps(c["dgrams"]).encode()).hexdigest()
                    if any(k[0] in "OQI" for k in kinds) and any(k[0] in "DO" for k in kinds) else None)
        kinds = self._res(c)["stats"]["kinds"]
        if any(k[0] in "OQI" for k in kinds):
            return hashlib.sha1((json.dumps(c["chunks"]) + c["mode"]).encode()).hexdigest()
        return None

    def classify(self, c, out):
        if c["mode"] == "e":
            return "e|" + out.split(":")[-1]
        if c["mode"] == "n":
            return "n|depth" + str(tree_depth(c["tree"]))
        st = self._res(c)["stats"]
        kinds = "".join(sorted({k[0] for k in st["kinds"]})) or "none"
        exc = "+".join(sorted(set(st["exc"])))
        exc = "exc" if exc else "noexc"
        return f"{c['mode']}|{c.get('mut', '?')}|{kinds}|{exc}"

    def shrink(self, c):
        if c["mode"] == "n":
            return
        if c["mode"] == "u":
            dg = c["dgrams"]
            for i in range(len(dg)):
                if len(dg) > 1:
                    yield dict(c, dgrams=dg[:i] + dg[i + 1:])
            for i, (h, p) in enumerate(dg):
                if len(h) > 48 + 8:
                    yield dict(c, dgrams=dg[:i] + [[h[:48] + h[48:][:len(h[48:]) // 4 * 2], p]] + dg[i + 1:])
            if len(c["tags"]) > 1:
                for i in range(len(c["tags"])):
                    yield dict(c, tags=c["tags"][:i] + c["tags"][i + 1:])
            return
        if c["mode"] == "e":
            for i in range(len(c["edges"])):
                yield dict(c, edges=c["edges"][:i] + c["edges"][i + 1:])
            if len(c["input"]) >= 2:
                yield dict(c, input=c["input"][:-2])
            return
        base = {k: c[k] for k in ("mode", "budget", "tags", "chunks", "peer", "mut", "size") if k in c}
        ch = c["chunks"]
        for i in range(len(ch)):
            if len(ch) > 1:
                yield dict(base, chunks=ch[:i] + ch[i + 1:])
        if c["mode"] == "s" and len(ch) > 1:
            yield dict(base, chunks=["".join(ch)])
        if len(c["tags"]) > 1:
            for i in range(len(c["tags"])):
                yield dict(base, tags=c["tags"][:i] + c["tags"][i + 1:])
