"""C19, polling side: the real `poller_modbus` thread, stepped one polling turn at a time, against a scripted Modbus
device (no sockets: the poller's client is replaced by one that answers from a table).

A case is {"op": "poll", "reach": r, "ops": [...]}, ops as the driver command `poll` takes them:
  p<addr> / r<addr>   poller.poll / poller.read            c   one complete turn of the polling loop
  s<k>.<off>=<v>      the process changes a device cell     b<k>.<off> / g<k>.<off>   the device refuses / serves a cell
  W<addr>=<v,...>     poller.write
"""
import threading

KIND = {"ReadCoilsRequest": 0, "ReadDiscreteInputsRequest": 1, "ReadHoldingRegistersRequest": 2, "ReadInputRegistersRequest": 3}

# the Modbus address convention (5 and 6 digit forms), stated independently of the code: first address, last, kind
BANKS = [(1, 9999, 0), (10001, 19999, 1), (30001, 39999, 3), (40001, 99999, 2),
         (100001, 165536, 1), (300001, 365536, 3), (400001, 465536, 2)]
# protocol maxima of one read request (Modbus application protocol: 2000 bits, 125 registers)
PROTOCOL_MAX = {0: 2000, 1: 2000, 2: 125, 3: 125}


def cell_of(addr):
    for lo, hi, k in BANKS:
        if lo <= addr <= hi:
            return k, addr - lo
    return None


def dflt(k, off):
    return (off // 3 + k) % 2 if k <= 1 else (off * 31 + k * 1000) % 65536


class Dev(object):
    def __init__(self):
        self.set, self.bad, self.log = {}, set(), []

    def val(self, k, off):
        return self.set.get((k, off), dflt(k, off))


class StepTime(object):
    """stands in for the `time` module inside plc_modbus: every sleep parks the poller thread until released"""

    def __init__(self):
        self.idle, self.go = threading.Event(), threading.Event()
        self.free = False

    def sleep(self, _x):
        if self.free:
            return
        self.idle.set()
        self.go.wait()
        self.go.clear()


def fmtv(v):
    return "N" if v is None else str(int(v))


def run_case(case):
    import logging
    from cpppo.remote import plc_modbus as pm
    from pymodbus.pdu import ExceptionResponse
    from pymodbus.pdu import bit_message as bm, register_message as rm
    logging.disable(logging.CRITICAL)
    dev = Dev()

    class FakeClient(pm.modbus_client_timeout):
        def connect(self):
            return True

        def execute(self, no_response_expected=False, request=None):
            name = type(request).__name__
            if name in KIND:
                k = KIND[name]
                dev.log.append((k, request.address, request.count))
                if request.address + request.count > 65536 or any((k, request.address + i) in dev.bad for i in range(request.count)):
                    return ExceptionResponse(request.function_code, 2)      # illegal data address
                vals = [dev.val(k, request.address + i) for i in range(request.count)]
                if k >= 2:
                    return (rm.ReadHoldingRegistersResponse if k == 2 else rm.ReadInputRegistersResponse)(registers=vals)
                bits = [bool(v) for v in vals] + [True] * ((-len(vals)) % 8)      # bits travel in whole bytes
                return (bm.ReadCoilsResponse if k == 0 else bm.ReadDiscreteInputsResponse)(bits=bits)
            if name in ("WriteSingleRegisterRequest", "WriteMultipleRegistersRequest"):
                k, vals = 2, list(request.registers)
            elif name in ("WriteSingleCoilRequest", "WriteMultipleCoilsRequest"):
                k, vals = 0, [int(bool(b)) for b in request.bits]
            else:
                raise AssertionError(name)
            if request.address + len(vals) > 65536 or any((k, request.address + i) in dev.bad for i in range(len(vals))):
                return ExceptionResponse(request.function_code, 2)
            for i, v in enumerate(vals):
                dev.set[(k, request.address + i)] = v
            return {"WriteSingleRegisterRequest": rm.WriteSingleRegisterResponse,
                    "WriteMultipleRegistersRequest": rm.WriteMultipleRegistersResponse,
                    "WriteSingleCoilRequest": bm.WriteSingleCoilResponse,
                    "WriteMultipleCoilsRequest": bm.WriteMultipleCoilsResponse}[name]()

    shim = StepTime()
    real_time = pm.time
    pm.time = shim
    p = None
    outs = []
    try:
        p = pm.poller_modbus("rig", client=FakeClient(), reach=case["reach"], rate=None)
        if not shim.idle.wait(10):
            raise RuntimeError("poller did not start")
        shim.idle.clear()                       # parked in its first (dormant) sleep
        p.rate = 1e9                            # one turn per release: the next target lies in the far future
        for op in case["ops"]:
            kind = op[0]
            if kind == "c":
                dev.log = []
                c0 = p.counter
                if p._data:
                    for _ in range(200000):
                        shim.go.set()
                        if not shim.idle.wait(10):
                            raise RuntimeError("poller stuck")
                        shim.idle.clear()
                        if p.counter > c0:
                            break
                data = ",".join("%d:%s" % (a, fmtv(v)) for a, v in p._data.items()) or "-"
                pol = ",".join("%d:%d" % ac for ac in sorted(p.polling)) or "-"
                fail = ",".join("%d:%d" % ac for ac in sorted(p.failing)) or "-"
                req = ",".join("%d.%d.%d" % q for q in sorted(dev.log)) or "-"
                outs.append("data=%s|on=%d|pol=%s|fail=%s|req=%s" % (data, 1 if p.online else 0, pol, fail, req))
            elif kind == "p":
                p.poll(int(op[1:]))
                outs.append("-")
            elif kind == "r":
                outs.append(fmtv(p.read(int(op[1:]))))
            elif kind == "s":
                c, v = op[1:].split("=")
                k, o = map(int, c.split("."))
                dev.set[(k, o)] = int(v)
                outs.append("-")
            elif kind in "bg":
                k, o = map(int, op[1:].split("."))
                (dev.bad.add if kind == "b" else dev.bad.discard)((k, o))
                outs.append("-")
            elif kind == "W":
                a, vs = op[1:].split("=")
                vs = [int(x) for x in vs.split(",")]
                try:
                    p.write(int(a), vs if len(vs) > 1 else vs[0])
                    outs.append("ok")
                except pm.PlcOffline:
                    outs.append("offline")
                except pm.ParameterException:
                    outs.append("invalid")
                except pm.ModbusException:
                    outs.append("refused")
        return ";".join(outs) if outs else "-"
    finally:
        if p is not None:
            p.done = True
            shim.free = True
            shim.go.set()
            p.join(5)
        pm.time = real_time
        logging.disable(logging.NOTSET)


ANCH = [1, 5, 9990, 9999, 10001, 10010, 19995, 30001, 30005, 39999, 40001, 40100, 59999, 60000, 99999, 100001, 165530,
        165536, 300001, 365536, 400001, 465530, 465536]
BADA = [0, 10000, 20000, 25000, 165537, 200000, 465537]


def gen(rng, big=False):
    ops, keys = [], []
    base = [rng.choice(ANCH) for _ in range(rng.randint(1, 3))]
    if big and rng.random() < 0.3:
        # enough registers in a row that a merged range must be cut at the transfer limit
        a0 = rng.choice([1, 10001, 30001, 40001, 100001, 300001, 400001])
        step = rng.choice([1, 2, 7])
        for j in range(0, rng.choice([130, 300, 2100]), step):
            ops.append("p%d" % (a0 + j))
            keys.append(a0 + j)
    for _ in range(rng.randint(3, 14)):
        k = rng.random()
        if k < 0.35:
            a = max(0, rng.choice(base) + rng.choice([0, 1, 2, 3, 5, 8, -1, -2, 50, 130, 2100]))
            if rng.random() < 0.04:
                a = rng.choice(BADA)
            keys.append(a)
            ops.append(("p" if rng.random() < 0.7 else "r") + str(a))
        elif k < 0.6:
            ops.append("c")
        elif k < 0.7 and keys:
            a = rng.choice(keys) + rng.choice([0, 0, 1])
            ops.append("W%d=" % a + ",".join(str(rng.choice([0, 1, 7, 65535])) for _ in range(rng.choice([1, 1, 2, 3]))))
        elif k < 0.8:
            kk = rng.randrange(4)
            ops.append("s%d.%d=%d" % (kk, rng.choice([0, 1, 2, 3, 4, 5, 99, 100]), rng.choice([0, 1] if kk <= 1 else [0, 1, 2, 4242])))
        elif k < 0.9:
            ops.append(("b" if rng.random() < 0.7 else "g") + "%d.%d" % (rng.randrange(4), rng.choice([0, 1, 2, 3, 4, 5, 99, 100])))
        else:
            ops.append("r" + str(rng.choice(keys) if keys else 1))
    ops.append("c")
    return {"op": "poll", "reach": rng.choice([0, 1, 2, 5, 100]), "ops": ops}


def oracle(case, out):
    """The polling clauses that follow from the property: a turn of the loop polls ranges that (a) cover every known
    valid address, (b) do not overlap, (c) stay inside one Modbus function and inside the protocol's request size;
    a known address then holds the device's value if its range was served, and what it held before if not;
    no address appears or disappears through polling."""
    steps = out.split(";")
    if len(steps) != len(case["ops"]):
        return "%d answers for %d operations" % (len(steps), len(case["ops"]))
    dev = Dev()
    data = {}           # address -> value (None until polled), in order of first use
    online = True
    for op, ans in zip(case["ops"], steps):
        kind = op[0]
        if kind in "pr":
            a = int(op[1:])
            data.setdefault(a, None)
            if kind == "r":
                want = fmtv(data[a]) if online else "N"
                if ans != want:
                    return "read(%d) answered %s, the last polled value is %s" % (a, ans, want)
        elif kind == "s":
            c, v = op[1:].split("=")
            k, o = map(int, c.split("."))
            dev.set[(k, o)] = int(v)
        elif kind in "bg":
            k, o = map(int, op[1:].split("."))
            (dev.bad.add if kind == "b" else dev.bad.discard)((k, o))
        elif kind == "W":
            a, vs = op[1:].split("=")
            vs = [int(x) for x in vs.split(",")]
            cell = cell_of(int(a))
            if ans == "ok":
                if not online:
                    return "write accepted while the PLC is offline"
                if cell is None or cell[0] not in (0, 2):
                    return "write to %s accepted: not a coil or holding register" % a
                for i, v in enumerate(vs):
                    dev.set[(cell[0], cell[1] + i)] = int(bool(v)) if cell[0] == 0 else v
            elif ans not in ("offline", "invalid", "refused"):
                return "write answered %r" % ans
        elif kind == "c":
            f = dict(x.split("=", 1) for x in ans.split("|"))
            got = [] if f["data"] == "-" else [(int(a), None if v == "N" else int(v)) for a, v in
                                               (x.split(":") for x in f["data"].split(","))]
            if [a for a, _ in got] != list(data):
                return "polling changed the set of known addresses: %s, known %s" % ([a for a, _ in got], list(data))
            reqs = [] if f["req"] == "-" else [tuple(int(x) for x in q.split(".")) for q in f["req"].split(",")]
            for k, off, cnt in reqs:
                if cnt < 1 or cnt > PROTOCOL_MAX[k]:
                    return "request of %d values of kind %d exceeds what one Modbus request may carry" % (cnt, k)
                if off + cnt - 1 > 65535 and all(cell_of(b) is not None for b in data):
                    return "request kind %d offset %d count %d leaves the 16-bit address space" % (k, off, cnt)
            # nothing is polled that is not within the reach distance of a known register
            reach = case["reach"] or 1
            known_cells = {}
            for a in data:
                cl = cell_of(a)
                if cl is not None:
                    known_cells.setdefault(cl[0], []).append(cl[1])
            if all(cell_of(b) is not None for b in data):
                for k, off, cnt in reqs:
                    for i in (0, cnt - 1) if cnt < 50 else range(0, cnt, max(1, cnt // 50)):
                        if not any(abs(c - (off + i)) < reach for c in known_cells.get(k, [])):
                            return "cell %s is polled but not within reach %d of a known register" % ((k, off + i), reach)
            served = {}
            # a 5-digit and a 6-digit address may name the same cell (40003 and 400003): such a cell is legitimately polled
            # once per form; within one form no cell may be polled twice
            forms = {(cell_of(a)[0], a >= 100000) for a in data if cell_of(a) is not None}
            for k, off, cnt in reqs:
                ok = off + cnt <= 65536 and not any((k, off + i) in dev.bad for i in range(cnt))
                for i in range(cnt):
                    served.setdefault((k, off + i), []).append(ok)
            for cell, oks in served.items():
                if len(oks) > len([f for f in forms if f[0] == cell[0]]):
                    return "cell %s polled %d times in one turn" % (cell, len(oks))
            anyok = False
            for a, v in got:
                cell = cell_of(a)
                if cell is None:
                    if v != data[a]:
                        return "invalid address %d changed value" % a
                    continue
                if cell not in served:
                    # its range may have failed before reaching the device (merged with an invalid neighbour)
                    if v != data[a]:
                        return "address %d was not polled but changed from %s to %s" % (a, data[a], v)
                    continue
                oks = served[cell]
                if sum(1 for b in data if cell_of(b) == cell) > 1:
                    oks = [True, False]         # named in both forms: which request was whose is not observable
                if all(oks):
                    anyok = True
                    if v != dev.val(*cell):
                        return "address %d holds %s after a served poll, the device holds %s" % (a, v, dev.val(*cell))
                elif not any(oks):
                    if v != data[a]:
                        return "address %d changed from %s to %s although its poll failed" % (a, data[a], v)
                elif v not in (data[a], dev.val(*cell)):
                    return "address %d holds %s: neither its old value nor the device's" % (a, v)
            # every valid known address whose whole neighbourhood is valid must have been polled
            for a, _v in got:
                cell = cell_of(a)
                if cell is not None and cell not in served and all(cell_of(b) is not None for b in data):
                    return "known address %d was not polled" % a
            for a, v in got:
                data[a] = v
            if data:
                online = any(any(o) for o in served.values()) if reqs else False
                if f["on"] != ("1" if online else "0") and all(cell_of(b) is not None for b in data):
                    return "online=%s after a turn in which %s request succeeded" % (f["on"], "a" if online else "no")
                online = f["on"] == "1"
    return None
