"""
C09, Connected sessions: the Connection Manager's shared Forward Open table (`Connection_Manager.forwards`,
server/enip/device.py) under any interleaving of several sessions' Forward Open / Forward Close / session end /
Connected requests.  Model: lean/Cpppo/Model/Forwards.lean (driver `fwd`); theorems: Props/C09.lean, namespace
Cpppo.Forwards (`connected_session_isolation`, `other_peer_untouched`, ...).

The real code is driven in-process the way `UCMM.request` drives it (ucmm.py:153-158, 236-241):
  Forward Open/Close  -> CM.request( <parsed request as client.forward_open/close builds it>, addr=(host,port) )
  session end         -> UCMM.request( {}, addr=(host,port) )
  Connected request   -> CM.request( {request: {input: bytes}}, addr=(host,port,connection ID) )
One case = one interleaved operation sequence of 2..4 peers (peers that share a host and differ in the port, share
a port and differ in the host; equal connection IDs and serials across peers are the rule, not the exception).
"""
import logging

DF1_STATUS = b'\x00\x00\x01\x00\x00\x00\x00\x00\x06\x00J\n\x03'       # DF1 Diagnostic Status (no CIP service/EPATH)
CIP_GAA = bytes([0x01, 0x02, 0x20, 0x01, 0x24, 0x01])                  # Get Attributes All @1/1
CPATH = {"p": "@0xA6/1", "r": "@2/1"}


def host(n):
    return f"10.0.{n // 256}.{n % 256}"


def gen(rng, big=False):
    npeers = rng.choice([2, 2, 3, 4])
    hosts = [1, 1, 2, 1] if rng.random() < 0.7 else [rng.randint(1, 2) for _ in range(4)]
    ports = [1000, 1001, 1001, 1002] if rng.random() < 0.7 else [rng.choice([1000, 1001]) for _ in range(4)]
    peers = []
    for i in range(npeers):
        pr = (hosts[i], ports[i])
        if pr not in peers:
            peers.append(pr)
    if len(peers) < 2:
        peers = [(1, 1000), (1, 1001)]
    cids = [5, 5, 6, 2 ** 32 - 1] if rng.random() < 0.8 else [rng.randint(0, 2 ** 32 - 1) for _ in range(3)]
    serials = [7, 7, 8]
    n = rng.randint(12, 40) if big else rng.randint(3, 14)
    ops = []
    opened = {}
    for _ in range(n):
        h, p = rng.choice(peers)
        r = rng.random()
        if r < 0.32 or not opened:
            c = rng.choice(cids)
            ops.append(f"o:{h}:{p}:{c}:{rng.choice(serials)}:{rng.choice('ppr')}" + (":t" if rng.random() < 0.3 else ""))
            opened.setdefault((h, p), []).append(c)
        elif r < 0.72:
            c = rng.choice(opened.get((h, p)) or cids) if rng.random() < 0.85 else rng.choice(cids)
            ops.append(f"s:{h}:{p}:{c}:{rng.choice('ddg')}")
        elif r < 0.87:
            ops.append(f"c:{h}:{p}:{rng.choice(serials)}")
        else:
            ops.append(f"e:{h}:{p}")
    return {"op": "fwd", "ops": ops, "wire": rng.random() < 0.5}


def pairs():
    """small scope, exhaustively: B opens, A (same host other port / other host same port / same peer) does one
    thing, B sends"""
    out = []
    B = (1, 1001)
    for A in [(1, 1000), (2, 1001), (1, 1001)]:
        for t in "pr":
            for mid in [f"e:{A[0]}:{A[1]}", f"c:{A[0]}:{A[1]}:7", f"c:{A[0]}:{A[1]}:8", f"o:{A[0]}:{A[1]}:5:7:r",
                        f"s:{A[0]}:{A[1]}:5:d"]:
                for k in "dg":
                    for wire in (False, True):
                        out.append({"op": "fwd", "wire": wire,
                                    "ops": [f"o:1:1001:5:7:{t}", f"s:1:1001:5:{k}", mid, f"s:1:1001:5:{k}"]})
    return out


def exhaustive(maxlen, wire):
    """small scope, exhaustively: EVERY operation sequence up to `maxlen` over two peers that share the host
    (ports 1000 / 1001) and a six-operation alphabet each (two opens colliding in connection ID, both payloads,
    a close, the end)"""
    import itertools
    alpha = []
    for p in (1000, 1001):
        alpha += [f"o:1:{p}:5:7:p", f"o:1:{p}:5:8:r", f"s:1:{p}:5:d", f"s:1:{p}:5:g", f"c:1:{p}:7", f"e:1:{p}"]
    for n in range(1, maxlen + 1):
        for ops in itertools.product(alpha, repeat=n):
            yield {"op": "fwd", "wire": wire, "ops": list(ops)}


class Sim:
    def __init__(self):
        import cpppo
        from cpppo.server.enip import device, logix, client, pccc
        self.cpppo, self.device, self.client = cpppo, device, client
        device.lookup_reset()
        logix.setup_reset()
        device.Connection_Manager.forwards.clear()           # class-level dict: survives lookup_reset
        pccc.PCCC_ANC_120e(name="PCCC", instance_id=0)
        pccc.PCCC_ANC_120e(name="PCCC", instance_id=1)
        self.ucmm = logix.setup()
        self.CM = device.lookup(class_id=0x06, instance_id=1)

    def picking(self, cid):
        """`device.random.randint` answers `cid` while a Forward Open is processed"""
        import contextlib
        device = self.device

        class Pick:
            @staticmethod
            def randint(lo, hi):
                return cid

        @contextlib.contextmanager
        def cm():
            saved = device.random
            device.random = Pick
            try:
                yield
            finally:
                device.random = saved
        return cm()

    def do(self, op):
        f = op.split(":")
        addr = (host(int(f[1])), int(f[2]))
        CM, client, cpppo = self.CM, self.client, self.cpppo
        if f[0] == "o":
            cid, serial, t = int(f[3]), int(f[4]), f[5]
            p2p = len(f) > 6            # Point-to-Point: the target picks the O->T ID (scripted: it picks `cid`)
            req = client.client.forward_open(
                None, path='@6/1', connection_path=CPATH[t], priority_time_tick=5, timeout_ticks=157,
                O_T=dict(RPI=100000, size=500, type=2 if p2p else 0, connection_ID=0xDEAD if p2p else cid),  # "Null" type: the originator's ID is kept
                T_O=dict(RPI=100000, size=500, type=2, connection_ID=1),
                O_serial=0x1234, O_vendor=0x99, connection_serial=serial, transport_class_triggers=0xa3,
                connection_timeout_multiplier=0, send=False)
            req.service = CM.FWD_OPEN_REQ
            with self.picking(cid):
                CM.request(req, addr=addr)
            if req.status == 0:
                got = req.forward_open.O_T.connection_ID
                return "opened" if got == cid else f"opened-with-other-id:{got}"
            return "refused" if req.status == 8 else f"status:{req.status}"
        if f[0] == "c":
            req = client.client.forward_close(
                None, path='@6/1', connection_path='@2/1', priority_time_tick=5, timeout_ticks=157,
                O_serial=0x1234, O_vendor=0x99, connection_serial=int(f[3]), send=False)
            CM.request(req, addr=addr)
            return "closed" if req.status == 0 else f"status:{req.status}"
        if f[0] == "e":
            self.ucmm.request(cpppo.dotdict(), addr=addr)
            return "ended"
        if f[0] == "s":
            payload = DF1_STATUS if f[4] == "d" else CIP_GAA
            con = cpppo.dotdict()
            con.request = cpppo.dotdict(input=bytearray(payload))
            try:
                CM.request(con, addr=(addr[0], addr[1], int(f[3])))
            except Exception:
                return "failed"
            rep = bytes(con.request.input)
            if f[4] == "d":
                return "df1" if rep[:1] != b"\x81" and len(rep) > 12 else f"other:{rep[:4].hex()}"
            return "cip" if rep[:4] == b"\x81\x00\x00\x00" else f"other:{rep[:4].hex()}"
        raise ValueError(op)

    def table(self):
        inv = {v: k for k, v in CPATH.items()}
        rows = []
        for (h, p, c), (fo, _ci) in self.CM.forwards.items():
            hh = h.split(".")
            segs = fo.connection_path.segment
            t = "p" if any(s.get("class") == 0xA6 for s in segs) else "r"
            rows.append(f"{int(hh[2]) * 256 + int(hh[3])}:{p}:{c}:{fo.connection_serial}:{t}")
        return ",".join(rows) or "-"


class WireSim(Sim):
    """the same operations as EtherNet/IP frames through `logix.process( addr, data=<parsed frame> )`, doing around it
    what `enip_srv_tcp` does: a request that raises ends the session (an empty request is handed to the processor)"""

    def __init__(self):
        super().__init__()
        from cpppo.server.enip import logix, parser
        self.logix, self.parser = logix, parser
        self.seq = {}

    @staticmethod
    def frame(cmd, payload, sess=0):
        import struct
        return struct.pack("<HHII", cmd, len(payload), sess, 0) + b"fwdtable" + struct.pack("<I", 0) + payload

    @staticmethod
    def cpf(items):
        import struct
        out = struct.pack("<IH", 0, 5) + struct.pack("<H", len(items))
        for t, b in items:
            out += struct.pack("<HH", t, len(b)) + b
        return out

    def process(self, addr, fb):
        cpppo, parser = self.cpppo, self.parser
        data = cpppo.dotdict()
        with parser.enip_machine(context="enip") as machine:
            for _m, _s in machine.run(path="request", source=cpppo.peekable(fb), data=data):
                pass
        try:
            proceed = self.logix.process(addr, data=data)
            ok = bool(proceed) and not data.response.enip.status and data.response.enip.get("input")
        except Exception:
            ok = False
        if not ok:
            self.logix.process(addr, data=cpppo.dotdict())       # the connection is dropped: session end
            return None
        return data.response

    def do(self, op):
        import struct
        f = op.split(":")
        addr = (host(int(f[1])), int(f[2]))
        if f[0] == "o":
            cid, serial, t = int(f[3]), int(f[4]), f[5]
            cp = bytes([0x20, 0xA6, 0x24, 0x01]) if t == "p" else bytes([0x20, 0x02, 0x24, 0x01])
            p2p = len(f) > 6
            ncp_ot = ((2 if p2p else 0) << 13) | (1 << 9) | 500      # type 0 (Null) / 2 (Point-to-Point), variable, size 500
            ncp_to = (2 << 13) | (1 << 9) | 500                      # type 2 (P2P)
            cm = (b"\x54\x02\x20\x06\x24\x01" + bytes([5, 157]) + struct.pack("<IIHHI", 0xDEAD if p2p else cid, 1, serial, 0x99, 0x1234)
                  + bytes([0, 0, 0, 0]) + struct.pack("<IHIH", 100000, ncp_ot, 100000, ncp_to) + bytes([0xa3, len(cp) // 2]) + cp)
            with self.picking(cid):
                rsp = self.process(addr, self.frame(0x6f, self.cpf([(0, b""), (0xb2, cm)])))
            if rsp is None:
                return "failed"
            rep = bytes(rsp.enip.CIP.send_data.CPF.item[1].unconnected_send.request.input)
            if rep[:1] != b"\xd4":
                return f"other:{rep[:4].hex()}"
            if rep[2] == 0:
                got = struct.unpack("<I", rep[4:8])[0]
                return "opened" if got == cid else f"opened-with-other-id:{got}"
            return "refused" if rep[2] == 8 else f"status:{rep[2]}"
        if f[0] == "c":
            cp = bytes([0x20, 0x02, 0x24, 0x01])
            cm = (b"\x4e\x02\x20\x06\x24\x01" + bytes([5, 157]) + struct.pack("<HHI", int(f[3]), 0x99, 0x1234)
                  + bytes([len(cp) // 2, 0]) + cp)
            rsp = self.process(addr, self.frame(0x6f, self.cpf([(0, b""), (0xb2, cm)])))
            if rsp is None:
                return "failed"
            rep = bytes(rsp.enip.CIP.send_data.CPF.item[1].unconnected_send.request.input)
            return "closed" if rep[:1] == b"\xce" and rep[2] == 0 else f"other:{rep[:4].hex()}"
        if f[0] == "e":
            self.logix.process(addr, data=self.cpppo.dotdict())
            return "ended"
        if f[0] == "s":
            cid = int(f[3])
            payload = DF1_STATUS if f[4] == "d" else CIP_GAA
            sq = self.seq[(addr, cid)] = (self.seq.get((addr, cid), 0) + 1) % 65536
            rsp = self.process(addr, self.frame(0x70, self.cpf([(0xa1, struct.pack("<I", cid)),
                                                                (0xb1, struct.pack("<H", sq) + payload)])))
            if rsp is None:
                return "failed"
            items = rsp.enip.CIP.send_data.CPF.item
            if items[0].connection_ID.connection != cid:
                return f"reply-on-other-connection:{items[0].connection_ID.connection}"
            rep = bytes(items[1].connection_data.request.input)
            if f[4] == "d":
                return "df1" if rep[:1] != b"\x81" and len(rep) > 12 else f"other:{rep[:4].hex()}"
            return "cip" if rep[:4] == b"\x81\x00\x00\x00" else f"other:{rep[:4].hex()}"
        raise ValueError(op)


def run_ops(ops, wire=False):
    lvl = logging.root.manager.disable
    logging.disable(logging.CRITICAL)
    try:
        sim = WireSim() if wire else Sim()
        outs = [sim.do(op) for op in ops]
        return outs, sim.table()
    finally:
        logging.disable(lvl)


def model_line(c):
    return ("fwdwire " if c.get("wire") else "fwd ") + (";".join(c["ops"]) or "-")


def run_case(c):
    outs, tab = run_ops(c["ops"], bool(c.get("wire")))
    c["obs_fwd"] = outs
    return ";".join(outs) + "|" + tab


def peer_of(op):
    f = op.split(":")
    return (f[1], f[2])


def oracle(c, out):
    """Isolation, from the property text, real code against real code: every session is answered in the
    interleaved run exactly what it is answered when its own operations run alone on a fresh simulator."""
    outs = out.split("|")[0].split(";") if c["ops"] else []
    peers = []
    for op in c["ops"]:
        if peer_of(op) not in peers:
            peers.append(peer_of(op))
    if len(peers) < 2:
        return None
    for pr in peers:
        mine = [op for op in c["ops"] if peer_of(op) == pr]
        got = [o for op, o in zip(c["ops"], outs) if peer_of(op) == pr]
        alone, _ = run_ops(mine, bool(c.get("wire")))
        if alone != got:
            k = next(i for i, (a, b) in enumerate(zip(alone, got)) if a != b)
            return (f"Connected session {host(int(pr[0]))}:{pr[1]}: its operation #{k} ({mine[k]}) is answered '{got[k]}' when "
                    f"interleaved with the other sessions' operations, but '{alone[k]}' when the session runs alone "
                    f"(another session's operation disturbed this session's Forward Open connections)")
    return None


def nontrivial(c, out):
    """a Connected request delivered through a connection after another peer's close/end/open in between"""
    keys = []
    outs = out.split("|")[0].split(";")
    for i, (op, o) in enumerate(zip(c["ops"], outs)):
        if op[0] == "s" and o in ("df1", "cip"):
            others = [q[0] for q in c["ops"][:i] if peer_of(q) != peer_of(op)]
            if any(k in others for k in "ce"):
                keys.append(f"{';'.join(c['ops'][:i + 1])}")
    return keys


def classify(c, out):
    peers = {peer_of(op) for op in c["ops"]}
    hosts = {p[0] for p in peers}
    ports = {p[1] for p in peers}
    outs = out.split("|")[0].split(";")
    return (f"connected-sessions level={'frames' if c.get('wire') else 'CM.request'} peers={len(peers)} shared-host={'y' if len(hosts) < len(peers) else 'n'} "
            f"shared-port={'y' if len(ports) < len(peers) else 'n'} ops={'<=4' if len(c['ops']) <= 4 else ('<=14' if len(c['ops']) <= 14 else '>14')} "
            f"refused={'y' if 'refused' in outs else 'n'} failed={'y' if 'failed' in outs else 'n'}")


def shrink(c):
    ops = c["ops"]
    for i in range(len(ops)):
        yield dict(c, ops=ops[:i] + ops[i + 1:])
