"""C18: history/files.py logger -> reader/loader replay (and misc.natural)  vs  Cpppo.History (Lean).

A case is a whole replay: a history (files with record / comment / corrupt lines, optional gz/bz2
copies) written by the real `logger`, and a schedule of `loader.load()` calls against a scripted clock
(`cpppo.history.files.timer` / `cpppo.history.times.timer` are replaced by the harness).  Instants are
whole *ticks*; a tick is `scale` (>= 2) milliseconds, so that the library's 1 ms comparison tolerance
never decides anything.  After every load the events, the returned timestamp, `state`, `until`,
`values` (with their realtime stamps) and the `future` queue are compared with the model.
"""
import itertools
import json
import logging
import os
import re
import shutil
import tempfile
import warnings

from framework import Suite

BASIS = 50000.0      # wall-clock basis of the replay (s)
EPOCH = 100000.0     # tick 0 (historical, s)
STN = {0: "I", 1: "W", 2: "S", 3: "X", 4: "A", 5: "C", 6: "F"}
RAW_PAYLOAD = {"null": "null", "note": json.dumps("a note"), "badjson": '{"40001": 12', "badregs": "[1, 2]",
               "empty": "{}", "badval": '{"40001": "x"}', "zero": "0", "cut": ""}
VALID_TS = "1970-01-02 03:46:40.000"
# lines from which parse_record cannot get a timestamp and a serial number ("corrupt records"):
CORRUPT = ["2014-0x-01 00:00:00.000\tnull\t{}\n",          # 0 damaged timestamp
           "garbage without tabs\n",                        # 1 no structure at all
           VALID_TS + "\t{bad\t{\"1\": 2}\n",                # 2 damaged serial number
           VALID_TS + "\n",                                  # 3 cut off right after a complete timestamp
           VALID_TS + "\tnull\n",                            # 4 cut off right after the serial number
           VALID_TS[:13] + "\n",                             # 5 cut off inside the timestamp
           "\tnull\t{\"40001\": 1}\n",                       # 6 timestamp missing
           VALID_TS + "\t\t{\"40001\": 1}\n",                 # 7 serial number missing
           "\u00ff\u00fe\u0000\u00e9 " + VALID_TS + "\tnull\t{}\n"]  # 8 bytes that are not ASCII
NCORRUPT = len(CORRUPT)
BADJSON = ("badjson", "cut")


class Hang(BaseException):
    """raised by the watchdog (not an Exception: loader.load must not swallow it)"""


class Clock:
    now = BASIS

    def __call__(self):
        return self.now


def R(t, v, reg=40001):
    return ["r", t, {str(reg): v}]


def logical_order(case):
    """logical files oldest first, by the numeric rotation suffix ('' is the newest); None if a suffix
    is not of the form '' / '.<n>'"""
    def age(f):
        m = re.fullmatch(r"(?:\.(\d+))?", f["ext"])
        if not m:
            return None
        return -1 if m.group(1) is None else int(m.group(1))
    ages = [age(f) for f in case["files"]]
    if None in ages or len(set(ages)) != len(ages):
        return None
    return [f for _, f in sorted(zip(ages, case["files"]), key=lambda af: -af[0])]


def records(f):
    return [ln for ln in f["lines"] if ln[0] == "r"]


class C18(Suite):
    id = "C18"
    props_module = "Cpppo.Props.C18"
    rule = ("histories of 1-4 rotated files (1-4 records each, equal and increasing timestamps, comments, blank "
            "lines, corrupt-timestamp lines, unusable payloads, gz/bz2 copies with or without the plain file, files "
            "logged in several logger sessions: close/re-open, buffering() changes, a second logger on the path; "
            "optionally logged and replayed with encoding='utf-8' and non-ASCII comment text) x "
            "start point x look-ahead x factor x load schedule (with limit/upcoming; first calls at, after or before the "
            "wall-clock basis at which the start point is scheduled): exhaustive over small shapes "
            "plus seeded random, plus a malformed stream (empty files, corrupt first lines, disordered timestamps, "
            "clock going back) and a correspondence-only stream for the known equal-timestamp-boundary class; "
            "non-trivial = in the scope of the proved theorem, at least one event delivered, and either a file "
            "switch or a wait for the clock happened; distinct by input")
    assumptions = [
        "instants are whole ticks of >= 2 ms (timestamp comparison has a 1 ms tolerance; sub-millisecond jitter "
        "is added to the logged times to exercise the rounding to the millisecond)",
        "the clock is constant during one load() call (scripted clock); real wall-clock jitter is not modelled",
        "scope of the full oracle (= hypothesis of the theorems): every file begins with a parseable record whose "
        "payload is JSON, timestamps do not decrease along the history, and a file whose records all carry one "
        "timestamp is followed by a file that starts strictly later (otherwise: known finding)",
        "a record whose payload is an empty register map carries nothing and is not expected as an event",
    ]
    trusted_extra = ["gzip/bz2/os.listdir and the json module (modelled as: a copy has the content of its original)"]

    # ------------------------------------------------------------------------------------------
    def setup(self, tier, rng):
        warnings.simplefilter("ignore")
        import cpppo  # noqa: F401
        from cpppo.history import files as hf, times as ht
        self.hf, self.ht = hf, ht
        self.clock = Clock()
        self._saved = (hf.timer, ht.timer)
        hf.timer = self.clock
        ht.timer = self.clock
        logging.getLogger("cpppo.history").setLevel(logging.CRITICAL + 10)
        logging.getLogger("cpppo").setLevel(logging.CRITICAL + 10)
        self.root = tempfile.mkdtemp(prefix="verif-c18-")

    def teardown(self):
        if getattr(self, "root", None):
            shutil.rmtree(self.root, ignore_errors=True)
            self.hf.timer, self.ht.timer = self._saved
            self.root = None

    # ------------------------------------------------------------------------------------------
    # generators
    def cases(self, tier, rng):
        quick = tier == "quick"
        # 0. the witnesses of the findings (a), (c), (d) -- repaired by the fix: commits -- and plain cases
        yield from self.witnesses()
        # 1. exhaustive small shapes: files x records x gaps x start x lookahead, one load per step
        yield from self.exhaustive(2 if quick else 3, rng, quick)
        # 2. seeded random, in scope
        for _ in range(14000 if quick else 160000):
            yield self.random_case(rng)
        # 3. malformed / out-of-scope stream and the known class (correspondence + reduced oracle)
        for _ in range(4000 if quick else 45000):
            yield self.random_case(rng, malformed=True)
        # 4. natural ordering of names
        for _ in range(1000 if quick else 10000):
            yield self.natural_case(rng)

    def witnesses(self):
        step = lambda h, n: [[h + 10 * i, None, None] for i in range(n)]
        yield {"files": [{"ext": ".1", "lines": [R(1000, 1), R(1010, 2)]}, {"ext": ".0", "lines": [R(1020, 3), R(1030, 4)]},
                         {"ext": "", "lines": [R(1040, 5)]}], "hist": 1025, "loads": step(1025, 6), "scale": 100}
        yield {"files": [{"ext": "", "lines": [R(1000, 1), ["x", 0], R(1010, 2), R(1020, 3)]}],
               "hist": 990, "loads": step(990, 8), "scale": 100}
        yield {"files": [{"ext": ".0", "lines": [R(1000, 1), ["r", 1010, "badjson"]]},
                         {"ext": "", "lines": [R(1020, 4), R(1030, 5)]}], "hist": 990, "loads": step(990, 8), "scale": 100}
        yield {"files": [{"ext": "", "lines": [R(1000, 1), ["c"], ["r", 1005, "badjson"], R(1010, 2), R(1020, 3)]}],
               "hist": 990, "loads": step(990, 8), "scale": 100}
        # every kind of corrupt record after the initial frame of a rotated file, one at a time
        for k in range(NCORRUPT):
            yield {"files": [{"ext": ".0", "lines": [["c"], R(1000, 1), R(1010, 2), ["x", k], R(1020, 3)]},
                             {"ext": "", "lines": [R(1030, 4), ["r", 1035, "cut"], R(1040, 5)]}],
                   "hist": 990, "loads": step(990, 8), "scale": 100}
        # logged and replayed with encoding='utf-8'; comments (non-ASCII) in front of and between the records
        yield {"files": [{"ext": ".1", "lines": [["c"], R(1000, 1), ["c"], R(1010, 2)]},
                         {"ext": ".0", "lines": [["c"], ["c"], R(1020, 3), R(1030, 4)], "copies": [".gz"]},
                         {"ext": "", "lines": [R(1040, 5), ["c"], R(1050, 6)]}],
               "hist": 990, "loads": step(990, 9), "scale": 100, "enc": "utf-8"}
        # the logger re-opens the file it is logging to, in each of the ways it can
        for how in ("close", "line", "sized", "new"):
            yield {"files": [{"ext": ".0", "lines": [R(1000, 1), R(1010, 2), R(1020, 3)], "sessions": [[2, how]]},
                             {"ext": "", "lines": [R(1030, 4), ["c"], R(1040, 5), R(1050, 6)], "sessions": [[1, how], [3, "default"]]}],
                   "hist": 990, "loads": step(990, 9), "scale": 100}
        # the start point (1100) is scheduled 3 wall-clock seconds (30 ticks at factor 10) after the first call
        yield {"files": [{"ext": "", "lines": [["r", 1000, {"40001": 1, "40002": 5}], R(1090, 2), R(1096, 6, 40002), R(1110, 3)]}],
               "hist": 1100, "factor": [10, 1], "loads": [[1070 + 2 * i, None, None] for i in range(26)], "scale": 1000}

    def exhaustive(self, maxfiles, rng, quick):
        for nf in range(1, maxfiles + 1):
            for sizes in itertools.product([1, 2], repeat=nf):
                nrec = sum(sizes)
                for gaps in itertools.product([0, 10], repeat=nrec - 1):
                    ts, t = [1000], 1000
                    for g in gaps:
                        t += g
                        ts.append(t)
                    files, k = [], 0
                    for i, n in enumerate(sizes):          # oldest first
                        ext = "" if i == nf - 1 else ".%d" % (nf - 2 - i)
                        files.append({"ext": ext, "lines": [R(ts[k + j], k + j + 1, 40001 + (k + j) % 2) for j in range(n)]})
                        k += n
                    starts = sorted({990} | set(ts) | {x + 5 for x in ts})
                    for hist in starts:
                        for la in (None, 10):
                            if quick and rng.random() < 0.5:
                                continue
                            for lead in (0, 20):           # lead > 0: polled before the scheduled 'basis'
                                if lead and ((quick and rng.random() < 0.5) or hist - lead < ts[0] - 10):
                                    continue
                                first = hist - lead
                                n = (ts[-1] + 30 - first) // 10 + 1
                                case = {"files": files, "hist": hist, "la": la, "scale": 2,
                                        "loads": [[first + 10 * i, None, None] for i in range(max(n, 3))]}
                                if not self.boundary_ok(case):
                                    case["known_class"] = "equal-boundary"
                                yield case

    def random_case(self, rng, malformed=False):
        nf = rng.choice([1, 1, 2, 2, 3, 3, 4])
        t = 1000
        exts = [""] + [".%d" % i for i in range(nf - 1)]
        if rng.random() < 0.1 and nf > 2:
            exts[-1] = ".10"
        regs = lambda: {str(rng.choice([40001, 40002, 7])): rng.randint(-9, 99) for _ in range(rng.choice([1, 1, 2]))}
        files = []
        for i in range(nf):                                # oldest first
            nr = rng.choice([1, 1, 2, 2, 3, 4])
            lines = []
            for j in range(nr):
                t += rng.choice([0, 0, 10, 10, 10, 20, 30])
                if malformed and rng.random() < 0.08:
                    t = max(900, t - rng.choice([10, 20, 40]))
                r = rng.random()
                if r < 0.8 or (j == 0 and (r < 0.97 or not malformed)):
                    p = regs()
                elif j == 0:
                    p = rng.choice(["null", "note", "badregs", "empty", "badval", "zero"])
                else:
                    p = rng.choice(["null", "note", "badjson", "cut", "badregs", "empty", "badval", "zero"])
                if rng.random() < 0.15 and (j > 0 or malformed):
                    lines.append(rng.choice([["c"], ["b"], ["b", 1], ["x", rng.randrange(NCORRUPT)], ["x", rng.randrange(NCORRUPT)]]))
                elif rng.random() < 0.05:
                    lines.append(rng.choice([["c"], ["b"]]))
                lines.append(["r", t, p])
            if rng.random() < 0.1:
                lines.append(rng.choice([["c"], ["x", rng.randrange(NCORRUPT)]]))
            f = {"ext": exts[nf - 1 - i], "lines": lines}
            if len(lines) > 1 and rng.random() < 0.25:     # the logger re-opens the file while it is being written
                f["sessions"] = sorted([j, rng.choice(["close", "line", "sized", "default", "new"])]
                                       for j in rng.sample(range(1, len(lines)), min(len(lines) - 1, rng.choice([1, 1, 2]))))
            if (f["ext"] or (malformed and rng.random() < 0.1)) and rng.random() < 0.3:
                f["copies"] = rng.choice([[".gz"], [".bz2"], [".gz", ".bz2"]])
                if rng.random() < 0.4:
                    f["unlink"] = True
            files.append(f)
        if malformed and rng.random() < 0.15:
            files.append({"ext": ".%d" % rng.choice([nf - 1, 7]), "lines": rng.choice([[], [["c"]], [["x", 0], R(900, 1)]])})
        rng.shuffle(files)
        hist = rng.choice([980, 1000, 1010, t - 10, t, t + 10, rng.randint(990, max(t, 1000) + 20)])
        la = rng.choice([None, None, 0, 10, 20, 50])
        # the replay may be polled before the wall-clock 'basis' at which the start point is scheduled: the
        # historical clock historical + (now - basis) * factor is then still before 'historical'
        loads, c = [], hist - rng.choice([0, 0, 0, 0, 10, 20, 30, 50, 100, 200])
        restricted = rng.random() < 0.4           # most schedules carry no limit / upcoming at all
        for _ in range(rng.randint(2, 12)):
            if restricted:
                loads.append([c, rng.choice([None] * 4 + [0, 1, 2]), rng.choice([None] * 5 + [c, c - 10, c + 10])])
            else:
                loads.append([c, None, None])
            c += rng.choice([0, 10, 10, 10, 20, 30, 50, 100])
            if malformed and rng.random() < 0.05:
                c = max(0, c - rng.choice([10, 30]))
        for _ in range(rng.choice([0, 2, 2, 3])):          # usually run to completion
            c = max(c, t) + rng.choice([10, 60])
            loads.append([c, None, None])
        case = {"files": files, "hist": hist, "la": la, "loads": loads, "scale": rng.choice([2, 2, 100, 1000]),
                "factor": rng.choice([[1, 1], [1, 1], [2, 1], [1, 2], [4, 1], [5, 2]]), "jitter": rng.randint(0, 999)}
        if rng.random() < 0.3:          # logged and replayed with encoding='utf-8': comments hold non-ASCII text
            case["enc"] = "utf-8"
            for f in files:
                if rng.random() < 0.4:  # ... also in front of the file's first record
                    f["lines"].insert(0, ["c"])
                    if f.get("sessions"):
                        f["sessions"] = [[j + 1, how] for j, how in f["sessions"]]
        if not malformed:
            # in-scope stream: repair an equal-timestamp boundary after a single-timestamp file
            while not self.boundary_ok(case):
                self.separate(case)
        elif self.in_quantifier(case) and not self.boundary_ok(case):
            case["known_class"] = "equal-boundary"
        return case

    def natural_case(self, rng):
        alpha = ["", ".", "0", "1", "2", "9", "10", "a", "B", "gz", "bz2", "-", "_", "x"]
        names = []
        for _ in range(rng.randint(2, 7)):
            names.append("".join(rng.choice(alpha) for _ in range(rng.randint(0, 5))))
        if rng.random() < 0.5:
            names += ["", ".0", ".1", ".1.gz", ".2", ".10", ".10.bz2"][:rng.randint(2, 7)]
            rng.shuffle(names)
        return {"natural": names}

    # ------------------------------------------------------------------------------------------
    # scope (independent transcription of the theorems' hypothesis)
    @staticmethod
    def first_record(f):
        for ln in f["lines"]:
            if ln[0] in ("c", "b"):
                continue
            return ln if ln[0] == "r" else None
        return None

    def in_quantifier(self, case):
        """histories the property statement speaks about (and a clock that does not go back)"""
        order = logical_order(case)
        if order is None or not order:
            return False
        for f in order:
            fr = self.first_record(f)
            if fr is None or fr[2] in BADJSON:
                return False
            if f["ext"] == "" and f.get("copies"):
                return False
        ts = [ln[1] for f in order for ln in records(f)]
        if any(a > b for a, b in zip(ts, ts[1:])):
            return False
        clocks = [l[0] for l in case["loads"]]
        return all(a <= b for a, b in zip(clocks, clocks[1:]))

    def boundary_ok(self, case):
        order = logical_order(case)
        if order is None:
            return True
        for f, g in zip(order, order[1:]):
            rf, rg = records(f), records(g)
            if rf and rg and rf[0][1] == rf[-1][1] and not rg[0][1] > rf[-1][1]:
                return False
        return True

    def separate(self, case):
        """shift everything after the first offending boundary by one step"""
        order = logical_order(case)
        for i, (f, g) in enumerate(zip(order, order[1:])):
            rf, rg = records(f), records(g)
            if rf and rg and rf[0][1] == rf[-1][1] and not rg[0][1] > rf[-1][1]:
                for h in order[i + 1:]:
                    for ln in h["lines"]:
                        if ln[0] == "r":
                            ln[1] += 10
                return

    def full_scope(self, case):
        return self.in_quantifier(case) and not case.get("known_class")

    # ------------------------------------------------------------------------------------------
    # model side
    @staticmethod
    def physical(case):
        out = []
        for f in case["files"]:
            exts = ([] if f.get("unlink") else [f["ext"]]) + [f["ext"] + c for c in f.get("copies", [])]
            out += [(e, f["lines"]) for e in exts]
        return out

    @staticmethod
    def payload_token(p):
        if isinstance(p, dict):
            return "+".join("%d/%d" % (k, v) for k, v in sorted((int(k), v) for k, v in p.items())) or "e"
        return {"empty": "e", "zero": "e", "badjson": "b", "cut": "b"}.get(p, "s")

    def model_line(self, c):
        if "natural" in c:
            return "natsort " + (",".join(n.encode().hex() or "-" for n in c["natural"]) or "-")
        def line(ln):
            if ln[0] == "r":
                return "r%d:%s" % (ln[1], self.payload_token(ln[2]))
            return "x" if ln[0] == "x" else "c"
        files = ";".join((e.encode().hex() or "-") + "=" + ",".join(line(ln) for ln in lines)
                         for e, lines in self.physical(c)) or "-"
        fn, fd = c.get("factor", [1, 1])
        loads = ",".join("%d:%s:%s" % ((cur - c["hist"]) * fd, "-" if l is None else l, "-" if u is None else u)
                         for cur, l, u in c["loads"])
        return "hist 111 %d %d %d %s %s" % (c.get("la") or 0, c["hist"], fd, files, loads)

    # ------------------------------------------------------------------------------------------
    # implementation side
    def write_history(self, case):
        hf, ht = self.hf, self.ht
        for n in os.listdir(self.root):
            os.unlink(os.path.join(self.root, n))
        path = os.path.join(self.root, "h.hst")
        tick = case.get("scale", 2) / 1000.0
        jit = case.get("jitter", 0)
        enc = case.get("enc")          # the encoding= option of logger.comment/write and loader.load
        k = 0
        for f in case["files"]:
            fn = path + f["ext"]
            # "sessions": [[line index, how], ...] = before that line the logger re-opens the file it is logging to
            # (how: "close" = close(), the next write opens again; "line"/"sized"/"default" = buffering() of an open
            # logger; "new" = another logger object carries on with the same path).  The history is still what
            # was logged: the file content, hence the model line, does not depend on it.
            sessions = {j: how for j, how in f.get("sessions", [])}
            l = hf.logger(fn)
            try:
                if not f["lines"]:
                    l.open()
                for j, ln in enumerate(f["lines"]):
                    how = sessions.get(j)
                    if how == "close":
                        l.close()
                    elif how == "new":
                        l.close()
                        l = hf.logger(fn)
                    elif how:
                        l.buffering({"line": "line", "sized": 4096, "default": None}[how])
                    k += 1
                    if ln[0] == "r":
                        # what the logger is given carries sub-millisecond noise; the file holds milliseconds
                        now = EPOCH + ln[1] * tick + (((jit * 7919 + k * 104729) % 801 - 400) / 1e6 if jit else 0.0)
                        if isinstance(ln[2], dict):
                            l.write({int(r): v for r, v in ln[2].items()}, now=now, encoding=enc)
                        else:
                            l._append("\t".join((str(ht.timestamp(now)), json.dumps(None), RAW_PAYLOAD[ln[2]])) + "\n")
                    elif ln[0] == "c":
                        # with the encoding option the comments hold text that is not ASCII
                        l.comment("rotated \u00e0 14h \u2013 \u00b0C \u2603" if enc else "rotated", encoding=enc)
                    elif ln[0] == "b":
                        l._append("   \t \n" if len(ln) > 1 and ln[1] else "\n")
                    else:
                        l._append(CORRUPT[(ln[1] if len(ln) > 1 else 0) % NCORRUPT], encoding="latin-1")
            finally:
                l.close()
            for c in f.get("copies", []):
                with hf.opener(fn + c, mode="wb") as fd:
                    with open(fn, "rb") as rd:
                        fd.write(rd.read())
            if f.get("unlink"):
                os.unlink(fn)
        return path

    def impl(self, case):
        if "natural" in case:
            from cpppo.misc import natural
            return ",".join(n.encode().hex() or "-" for n in sorted(case["natural"], key=natural))
        path = self.write_history(case)
        hf, ht = self.hf, self.ht
        tick = case.get("scale", 2) / 1000.0
        fn, fd = case.get("factor", [1, 1])
        factor = fn / fd
        la = case.get("la")
        self.clock.now = BASIS
        ld = hf.loader(path, historical=EPOCH + case["hist"] * tick, basis=BASIS, factor=factor,
                       lookahead=None if la is None else la * tick)
        budget = 3 * len(self.physical(case)) + 3
        count = [0]
        inner = ld.open

        def counted(*a, **k):
            count[0] += 1
            if count[0] > budget:
                raise Hang()
            return inner(*a, **k)
        ld.open = counted

        def ticks(v):
            if v is None:
                return "-"
            t = (getattr(v, "value", v) - EPOCH) / tick
            return str(round(t)) if abs(t - round(t)) < 1e-3 else "offgrid:%r" % t

        out = []
        for cur, limit, upcoming in case["loads"]:
            count[0] = 0
            self.clock.now = BASIS + (cur - case["hist"]) * tick / factor
            up = None if upcoming is None else ht.timestamp(EPOCH + upcoming * tick)
            try:
                ret, events = ld.load(limit=limit, upcoming=up, encoding=case.get("enc"))
            except Hang:
                out.append("hang")
                break
            ev = ";".join(ticks(e["timestamp"]) + ":" + ",".join(
                "%d=%d" % kv for kv in sorted((int(r), v) for r, v in e["values"].items())) for e in events) or "-"
            vals = ",".join("%d=%d/%d" % (r, round((rt - BASIS) * fn / tick), v)
                            for r, (rt, v) in sorted(ld.values.items())) or "-"
            fut = ",".join(ticks(t) for t, _ in ld.future) or "-"
            out.append("%s %s %s %s %s %s" % (ticks(ret), STN[ld.state], ticks(ld.until), ev, vals, fut))
        return " | ".join(out)

    # ------------------------------------------------------------------------------------------
    # oracle: written from the property statement
    @staticmethod
    def parse(out):
        loads = []
        for part in out.split(" | "):
            if part == "hang":
                loads.append(None)
                continue
            ret, st, until, ev, vals, fut = part.split(" ")
            events = []
            if ev != "-":
                for e in ev.split(";"):
                    t, kv = e.split(":")
                    events.append((int(t), {int(a): int(b) for a, b in (x.split("=") for x in kv.split(","))}))
            values = {}
            if vals != "-":
                for x in vals.split(","):
                    r, tv = x.split("=")
                    rt, v = tv.split("/")
                    values[int(r)] = (int(rt), int(v))
            loads.append({"ret": ret, "st": st, "until": until, "events": events, "values": values,
                          "future": [] if fut == "-" else fut.split(",")})
        return loads

    def oracle(self, case, out):
        if out.startswith("harness-exception"):
            return out
        if "natural" in case:
            return self.oracle_natural(case, out)
        if "offgrid" in out:
            return "a delivered timestamp is not the logged millisecond: " + out[:120]
        loads = self.parse(out)
        if loads and loads[-1] is None:
            return "load() call %d never returns (the same file is opened again and again)" % (len(loads) - 1)
        la = case.get("la") or 0
        clocks = [l[0] for l in case["loads"]]
        monotone_clock = all(a <= b for a, b in zip(clocks, clocks[1:]))
        logged = [(ln[1], {int(r): v for r, v in ln[2].items()}) for f in case["files"] for ln in records(f)
                  if isinstance(ln[2], dict) and ln[2]]
        delivered = []
        for i, ld in enumerate(loads):
            for ts, vals in ld["events"]:
                if (ts, vals) not in logged:
                    return "load %d delivered (%d, %r) which was never logged" % (i, ts, vals)
                if monotone_clock and ts > clocks[i] + la:
                    return "load %d at clock %d (+%d) delivered the record of %d early" % (i, clocks[i], la, ts)
                delivered.append((i, ts, vals))
        if not self.full_scope(case):
            return None
        # ---- the full statement
        order = logical_order(case)
        start = 0
        for i, f in enumerate(order):
            if self.first_record(f)[1] <= clocks[0]:
                start = i
        expect = [(ln[1], {int(r): v for r, v in ln[2].items()}) for f in order[start:] for ln in records(f)
                  if isinstance(ln[2], dict) and ln[2]]
        got = [(ts, vals) for _, ts, vals in delivered]
        if got != expect[:len(got)]:
            k = next(i for i, (a, b) in enumerate(zip(got, expect + [None] * len(got))) if a != b)
            return ("delivery %d is %r but the history holds %r there (records must come exactly once, in order)"
                    % (k, got[k], expect[k] if k < len(expect) else "nothing more"))
        ndone = 0
        fn, fd = case.get("factor", [1, 1])
        for i, ld in enumerate(loads):
            if ld["st"] == "F":
                return "load %d ended FAILED" % i
            ndone += len(ld["events"])
            if case["loads"][i][1] is None and case["loads"][i][2] is None:
                due = sum(1 for ts, _ in expect if ts <= clocks[i] + la)
                if ndone < due:
                    return ("after load %d at clock %d (+%d) only %d of the %d records that are due were delivered"
                            % (i, clocks[i], la, ndone, due))
            if ld["st"] == "C":
                if ndone != len(expect):
                    return "COMPLETE after %d of %d records" % (ndone, len(expect))
                last = {}
                for ts, vals in expect:
                    for r, v in vals.items():
                        last[r] = ((ts - case["hist"]) * fd, v)
                if ld["values"] != last:
                    return "COMPLETE with register map %r, last logged values are %r" % (ld["values"], last)
        # completion (theorem replay_completes): two consecutive unrestricted loads at or after the last record
        last_ts = max([ln[1] for f in order[start:] for ln in records(f)])
        free = lambda l: l[1] is None and l[2] is None
        for i in range(len(case["loads"]) - 1):
            if free(case["loads"][i]) and free(case["loads"][i + 1]) and case["loads"][i][0] >= last_ts:
                if loads[i + 1]["st"] != "C":
                    return ("replay is not COMPLETE after load %d although the clock had passed the last record "
                            "at load %d" % (i + 1, i))
                break
        return None

    def oracle_natural(self, case, out):
        """the sort is a permutation, and rotation names come newest first: '' < .0 < .1 < .1.bz2 < .1.gz < .2 < .10"""
        names = [bytes.fromhex(h).decode() if h != "-" else "" for h in out.split(",")] if out else []
        if sorted(names) != sorted(case["natural"]):
            return "natural sort lost or invented a name"
        rot = []
        for n in names:
            m = re.fullmatch(r"(?:\.(\d+)(\.bz2|\.gz)?)?", n)
            if m:
                rot.append((-1 if m.group(1) is None else int(m.group(1)), m.group(2) or "", n))
        for a, b in zip(rot, rot[1:]):
            if a[:2] > b[:2]:
                return "rotation names out of order: %r before %r" % (a[2], b[2])
        return None

    # ------------------------------------------------------------------------------------------
    def nontrivial(self, case, out):
        if "natural" in case or not self.full_scope(case) or out.startswith("harness") or "hang" in out:
            return None
        loads = self.parse(out)
        nev = sum(len(l["events"]) for l in loads)
        waited = any(l["st"] == "A" for l in loads)
        if nev and (waited or len(case["files"]) > 1):
            return self.model_line(case)
        return None

    def classify(self, case, out):
        if "natural" in case:
            return "natural"
        scope = "known-class" if case.get("known_class") else "full" if self.full_scope(case) else "malformed"
        feats = []
        if any(f.get("copies") for f in case["files"]):
            feats.append("copies")
        kinds = {ln[0] if ln[0] != "r" else ("r" if isinstance(ln[2], dict) else "p") for f in case["files"] for ln in f["lines"]}
        if kinds & {"x", "p", "c", "b"}:
            feats.append("dirty")
        if any(l[1] is not None or l[2] is not None for l in case["loads"]):
            feats.append("limit")
        state = "hang" if "hang" in out else out.rsplit(" | ", 1)[-1].split(" ")[1] if " " in out else "?"
        return "%s:%dfiles:%s:end=%s" % (scope, len(case["files"]), "+".join(feats) or "plain", state)

    def shrink(self, c):
        if "natural" in c:
            for i in range(len(c["natural"])):
                yield {"natural": c["natural"][:i] + c["natural"][i + 1:]}
            return
        c = json.loads(json.dumps(c))
        for i in range(len(c["files"])):
            yield {**c, "files": c["files"][:i] + c["files"][i + 1:]}
        for i, f in enumerate(c["files"]):
            for j in range(len(f["lines"])):
                g = {**f, "lines": f["lines"][:j] + f["lines"][j + 1:]}
                if f.get("sessions"):
                    g["sessions"] = [[jj - (jj > j), how] for jj, how in f["sessions"]]
                yield {**c, "files": c["files"][:i] + [g] + c["files"][i + 1:]}
            if f.get("copies"):
                g = {k: v for k, v in f.items() if k not in ("copies", "unlink")}
                yield {**c, "files": c["files"][:i] + [g] + c["files"][i + 1:]}
            if f.get("sessions"):
                g = {k: v for k, v in f.items() if k != "sessions"}
                yield {**c, "files": c["files"][:i] + [g] + c["files"][i + 1:]}
        for i in range(len(c["loads"])):
            if len(c["loads"]) > 1 and i > 0:
                yield {**c, "loads": c["loads"][:i] + c["loads"][i + 1:]}
        for i, l in enumerate(c["loads"]):
            if l[1] is not None or l[2] is not None:
                yield {**c, "loads": c["loads"][:i] + [[l[0], None, None]] + c["loads"][i + 1:]}
        for k, v in (("la", None), ("factor", [1, 1]), ("jitter", 0), ("enc", None)):
            if c.get(k) not in (None, v):
                yield {**c, k: v}
