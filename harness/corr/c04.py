"""C04: fragmented transfers -- the client loop against the real Logix objects vs Cpppo.Logix (Lean)."""
import itertools
import json

from framework import Suite
from corr import logix_common as lc
from corr import logix_gen as lg

SIZED = {1: ["SINT", "USINT", "BOOL"], 2: ["INT", "UINT"], 4: ["DINT", "UDINT", "REAL"], 8: ["LINT", "ULINT", "LREAL"]}


def value(ty, k):
    if ty == "BOOL":
        return bool(k % 2)
    if ty == "REAL":
        return {"f32": 0x3f800000 + (k % 120) * 0x00010000}
    if ty == "LREAL":
        return {"f64": 0x3ff0000000000000 + (k % 120) * 0x0000100000000000}
    v = k % 120 + 1
    if ty in ("USINT", "UINT", "UDINT", "ULINT") and k % 2:
        return v | (1 << (8 * lc.SIZES[ty] - 1))      # upper half of the unsigned range
    if ty in ("SINT", "INT", "DINT", "LINT") and k % 2:
        return -v
    return v


def compositions(n):
    if n == 0:
        yield []
        return
    for first in range(1, n + 1):
        for rest in compositions(n - first):
            yield [first] + rest


class C04(Suite):
    id = "C04"
    props_module = "Cpppo.Props.C04"
    rule = ("for scaled-down reply budgets (MAX_BYTES 1..24), every element size 1/2/4/8, tag lengths 1..L, EVERY start "
            "index and element count: the whole Read Tag Fragmented client loop is walked through the real request "
            "path (offset advanced by the bytes received); every composition of n<=6 elements into Write Tag "
            "Fragmented requests; plus random large transfers at the default budget 488. non-trivial = transfer needing "
            ">= 2 fragments, or write tiling of >= 2 fragments; distinct by (type, len, budget, index, count / composition)")
    assumptions = ["fixed-size element types only (strings and UDTs are outside the property)",
                   "MAX_BYTES is the documented user-alterable class attribute used as the reply budget"]

    def cases(self, tier, rng):
        if tier == "quick":
            budgets, lens = list(range(1, 25)), [1, 2, 3, 4, 5, 6, 8]
        else:
            budgets, lens = list(range(1, 25)), list(range(1, 13))
        k = 0
        for B in budgets:
            for siz, tys in SIZED.items():
                for L in lens:
                    k += 1
                    ty = tys[k % len(tys)]
                    plan = [{"kind": "read", "idx": i, "n": n} for i in range(L) for n in range(1, L - i + 1)]
                    # the in-process API lets the count be left out ("the rest of the tag from index i")
                    plan += [{"kind": "read", "idx": i, "n": L - i, "elide": True} for i in range(L)]
                    yield {"budget": B, "tags": [{"name": "T", "type": ty, "len": L, "addr": None}], "plan": plan,
                           "via_client": k % 2 == 0,     # every other device: requests built by cpppo's own client methods
                           # every third device: the budget is set on the serving object, the class keeps its default
                           # ... every seventh: class and object keep the default, each in-process request
                           # states the budget itself (`read_frag.max_size`; reads only - the plan's writes are
                           # single-fragment there, the write reply carries no data)
                           "budget_on": "request" if k % 7 == 3 else "instance" if k % 3 == 0 else "class"}
        # write tilings: all compositions of n <= 6 (quick: <= 4)
        nmax = 4 if tier == "quick" else 6
        for siz, tys in SIZED.items():
            for j, ty0 in enumerate(tys if tier == "thorough" else tys[:1]):
                for L in (7, 9):
                    for idx in (0, 2):
                        # (the quick tier rotates through the types of this element size instead of taking them all)
                        ty = ty0 if tier == "thorough" else tys[(L // 2 + idx // 2) % len(tys)]
                        plan = []
                        for n in range(1, nmax + 1):
                            for comp in compositions(n):
                                plan.append({"kind": "write", "idx": idx, "n": n, "comp": comp})
                        yield {"budget": 488, "tags": [{"name": "T", "type": ty, "len": L, "addr": None}], "plan": plan,
                               "via_client": idx == 2}
        # a tag larger than 64 KiB: the byte offsets of its later fragments need more than 16 bits
        for _ in range(1 if tier == "quick" else 4):
            ty = rng.choice(["LINT", "LREAL", "ULINT"])
            L = rng.choice([8300, 9000])
            i = rng.choice([0, 0, 3])
            yield {"budget": rng.choice([488, 1000]), "tags": [{"name": "T", "type": ty, "len": L, "addr": None}],
                   "plan": [{"kind": "read", "idx": i, "n": L - i}], "via_client": True}
        # element indices at the boundaries of the EPATH segment widths
        for siz, tys in SIZED.items():
            ty = tys[0]
            plan = [{"kind": "read", "idx": i, "n": n} for i in (254, 255, 256, 257) for n in (1, 3)]
            plan += [{"kind": "write", "idx": 256, "n": 2, "comp": [1, 1]}]
            yield {"budget": 488, "tags": [{"name": "T", "type": ty, "len": 260, "addr": None}], "plan": plan, "via_client": siz % 4 == 0}
        # random large transfers at the default budget
        for _ in range(20 if tier == "quick" else 400):
            siz = rng.choice([1, 2, 4, 8])
            ty = rng.choice(SIZED[siz])
            L = rng.choice([100, 244, 245, 488, 489, 1000, 1500])
            plan = []
            for _ in range(3):
                i = rng.randrange(L)
                plan.append({"kind": "read", "idx": i, "n": rng.randint(1, L - i)})
            yield {"budget": rng.choice([488, 487, 489, 1000]),
                   "tags": [{"name": "T", "type": ty, "len": L, "addr": None}], "plan": plan, "via_client": True}

    # -- the client loop against the real code --------------------------------------------------
    def impl(self, c):
        ty, L = c["tags"][0]["type"], c["tags"][0]["len"]
        siz = lc.SIZES[ty]
        dev = lc.Device(c)
        try:
            c["addrs"] = {k: list(v) for k, v in dev.addrs.items()}
            c["tagline"] = dev.tag_line(c)
            reqs, outs, transfers = [], [], []

            def do(r):
                reqs.append(r)
                rep = dev.request(r)
                outs.append(rep + "@" + dev.dump(class_level=True))
                return rep

            code = lc.TYPES[ty]
            do({"op": "wt", "path": [["s", "T"]], "ty": code, "n": L, "vals": [value(ty, k) for k in range(L)]})
            stamp = 100
            for t in c["plan"]:
                first = len(reqs)
                if t["kind"] == "read":
                    off, guard = 0, 0
                    # a correct transfer needs ceil(n / elements-per-fragment) requests; twice that and some is given up on
                    most = 2 * -(-t["n"] // max(1, c["budget"] // siz)) + 8
                    while guard < most:
                        guard += 1
                        r = {"op": "rf", "path": [["s", "T"], ["e", t["idx"]]], "n": t["n"], "off": off}
                        if c.get("budget_on") == "request":
                            r.update(direct=True, max_size=c["budget"])
                            if t.get("elide"):
                                r.update(elide_n=True)
                        elif t.get("elide"):
                            r.update(direct=True, elide_n=True)
                        elif c.get("via_client") and t["n"] >= 1:
                            r["via_client"] = True
                        rep = do(r)
                        p = lg.parse_reply(bytes.fromhex(rep)) if rep not in ("X", "-") else None
                        if not p or p["status"] != 6:
                            break
                        got = len(p["body"]) - 2
                        if got <= 0:
                            break
                        off += got           # advance by the amount of data received
                else:
                    j = 0
                    for ln in t["comp"]:
                        do({"op": "wf", "path": [["s", "T"], ["e", t["idx"]]], "ty": code, "n": t["n"],
                            "off": j * siz, "vals": [value(ty, stamp + q) for q in range(ln)],
                            "via_client": bool(c.get("via_client"))})
                        stamp += ln
                        j += ln
                    do({"op": "rt", "path": [["s", "T"]], "n": L})
                transfers.append([first, len(reqs)])
            c["reqs"], c["transfers"] = reqs, transfers
            return ";".join(outs)
        finally:
            dev.close()

    def model_line(self, c):
        if "reqs" not in c:
            self.impl(c)
        return lc.model_line(c)

    def known_key(self, c):
        return json.dumps({k: c[k] for k in ("budget", "tags", "plan")}, sort_keys=True)

    # -- the property, checked on the real replies ----------------------------------------------
    def oracle(self, c, out):
        if out.startswith("harness-exception"):
            return out
        why = lg.oracle_history(c, out, check_errors=True)     # array semantics of every single request
        if why:
            return why
        ty, L = c["tags"][0]["type"], c["tags"][0]["len"]
        siz, B = lc.SIZES[ty], c["budget"]
        steps = [s.split("@")[0] for s in out.split(";")]
        cap = max((B + siz - 1) // siz, 1)
        for t, (a, b) in zip(c["plan"], c["transfers"]):
            if t["kind"] != "read":
                continue
            reps = [lg.parse_reply(bytes.fromhex(x)) for x in steps[a:b]]
            total = 0
            for q, p in enumerate(reps):
                last = q == len(reps) - 1
                if p["status"] != (0 if last else 6):
                    return f"transfer idx={t['idx']} n={t['n']}: fragment {q} has status {p['status']:#x}"
                ne = (len(p["body"]) - 2) // siz
                if ne < 1:
                    return f"transfer idx={t['idx']} n={t['n']}: fragment {q} carries no whole element"
                if ne > cap:
                    return f"transfer idx={t['idx']} n={t['n']}: fragment {q} carries {ne} elements > budget {B}B rounded up ({cap})"
                total += ne
            if total != t["n"]:
                return f"transfer idx={t['idx']} n={t['n']}: {total} elements reassembled"
        return None

    def nontrivial(self, c, out):
        keys = []
        for t, (a, b) in zip(c.get("plan", []), c.get("transfers", [])):
            if (t["kind"] == "read" and b - a >= 2) or (t["kind"] == "write" and len(t["comp"]) >= 2):
                keys.append(json.dumps([c["budget"], c["tags"][0]["type"], c["tags"][0]["len"], t], sort_keys=True))
        return tuple(keys) if keys else None

    def classify(self, c, out):
        return f"size{lc.SIZES[c['tags'][0]['type']]}:{c['plan'][0]['kind']}"

    def shrink(self, c):
        pl = c["plan"]
        for i in range(len(pl)):
            yield {"budget": c["budget"], "tags": c["tags"], "plan": pl[:i] + pl[i + 1:]}
