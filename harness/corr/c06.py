"""
C06: exactly one matching reply per request, in request order -- the real `enip_srv_tcp` / `logix.process`
vs Cpppo.Session.serve (Lean).

A case = {"budget", "tags", "route", "rand", "cuts", "frames": [frame, …]}
      or {…, "routes": [[port, link], …], "sessions": [[frame, …], …]}   (connections served one after the other on the
         same device and UCMM; "routes" = UCMM routing table entries, each leading -- over a real TCP connection made by
         the UCMM's own client -- to an EtherNet/IP server in this process that serves the same objects)
  route  = None (UCMM.route_path None: any) | False | [[port, link], …]
  rand   = the values `random.randint` delivers to UCMM.request (Register Session)
  cuts   = "one" (the whole stream in one recv: every request is written before any reply is read)
         | "frames" (one recv per frame) | [offsets …] (arbitrary recv boundaries)
  frame  = {"sess", "status", "ctx": hex8, "opt", "body": body}
  body   = {"k": "reg", "proto", "opts", "extra": [bytes]} | {"k": "regshort", "data"} | {"k": "unreg", "data"}
         | {"k": "ls" | "li" | "lf" | "lg"} | {"k": "xcmd", "cmd", "data"}
         | {"k": "send", "unit", "iface", "timeout", "wrap": None | {"cls","ins","prio","ticks","route"}, "req": lgx request}
         | {"k": "send", …, "unk": {"code", "path", "tail": [bytes]}}
         | {"k": "items", "unit", "iface", "timeout", "items": [[type, [bytes]], …]}

The request frames are built by hand from the wire layout (the embedded tag request with cpppo's own
`Logix.produce`), served (A) by the real `enip_srv_tcp` over a scripted connection (all requests delivered before
any reply is read, or in the given recv pieces; thorough: also over a real socket pair), (B) frame by frame by
`logix.process` on an identically prepared device; the reply frames, the number of frames consumed, how the
session ended, `UCMM.sessions[addr]` and the bytes of every Attribute are compared with the model.
"""
import json
import logging
import socket
import struct
import threading

from framework import Suite
from corr import logix_common as lc
from corr import logix_gen as lg
from corr.c03 import rand_req

ADDR = ("127.0.0.9", 44444)      # the peer address of the scripted connection: never that of a real local socket
CMD = {"reg": 0x65, "regshort": 0x65, "unreg": 0x66, "ls": 0x04, "li": 0x63, "lf": 0x64, "lg": 0x01}
KNOWN_CMDS = (0x01, 0x04, 0x63, 0x64, 0x65, 0x66, 0x6f, 0x70)
SUPPORTED = (0x01, 0x03, 0x0a, 0x0e, 0x10, 0x4c, 0x4d, 0x52, 0x53)
SVC = {"rt": 0x4c, "rf": 0x52, "wt": 0x4d, "wf": 0x53, "gs": 0x0e, "ss": 0x10, "ga": 0x01, "mu": 0x0a}
CPF_KNOWN = (0x01, 0x0c, 0xa1, 0xb1, 0xb2, 0x100)


# --------------------------------------------------------------------------------------------------
# wire encoding of request frames (by hand, from the layout)
# --------------------------------------------------------------------------------------------------
def enc_seg(seg):
    k, v = seg
    if k == "s":
        b = v.encode("latin-1")
        return b"\x91" + bytes([len(b)]) + b + (b"\x00" if len(b) % 2 else b"")
    base = {"c": 0x20, "i": 0x24, "a": 0x30, "e": 0x28}[k]
    if v < 256:
        return bytes([base, v])
    if v < 65536:
        return bytes([base + 1, 0]) + struct.pack("<H", v)
    return bytes([base + 2, 0]) + struct.pack("<I", v)


def enc_epath(path):
    body = b"".join(enc_seg(s) for s in path)
    return bytes([len(body) // 2]) + body


def cm_bytes(c):
    """[Large] Forward Open / Forward Close to the Connection Manager @6/1, by hand from the layout"""
    head = enc_epath([["c", 6], ["i", 1]]) + bytes([c["prio"], c["ticks"]])
    if c["k"] == "fc":
        cp = b"".join(enc_seg(x) for x in c["cpath"])
        return (b"\x4e" + head + struct.pack("<HHI", c["serial"], c["vendor"], c["oserial"])
                + bytes([len(cp) // 2, 0]) + cp)
    f = "<I" if c["large"] else "<H"
    return ((b"\x5b" if c["large"] else b"\x54") + head
            + struct.pack("<IIHHI", c["otid"], c["toid"], c["serial"], c["vendor"], c["oserial"]) + bytes([c["mult"], 0, 0, 0])
            + struct.pack("<I", c["otrpi"]) + struct.pack(f, c["otncp"]) + struct.pack("<I", c["torpi"]) + struct.pack(f, c["toncp"])
            + bytes([c["tct"]]) + enc_epath(c["cpath"]))


def cm_line(c):
    if c["k"] == "fc":
        return f"fc,{c['prio']},{c['ticks']},{c['serial']},{c['vendor']},{c['oserial']},{lc.path_line(c['cpath'])}"
    return (f"fo,{1 if c['large'] else 0},{c['prio']},{c['ticks']},{c['otid']},{c['toid']},{c['serial']},{c['vendor']},"
            f"{c['oserial']},{c['mult']},{c['otrpi']},{c['otncp']},{c['torpi']},{c['toncp']},{c['tct']},{lc.path_line(c['cpath'])}")


def cip_bytes(body):
    """bytes of the embedded CIP request"""
    if "cm" in body:
        return cm_bytes(body["cm"])
    if "req" in body:
        from cpppo.server.enip import logix
        return bytes(logix.Logix.produce(lc.req_dotdict(body["req"])))
    u = body["unk"]
    return bytes([u["code"]]) + enc_epath(u["path"]) + bytes(u["tail"])


def wrap_bytes(wrap, cip):
    if wrap is None:
        return cip
    out = b"\x52" + enc_epath([["c", wrap["cls"]], ["i", wrap["ins"]]]) + bytes([wrap["prio"], wrap["ticks"]])
    out += struct.pack("<H", len(cip)) + cip + (b"\x00" if len(cip) % 2 else b"")
    out += bytes([len(wrap["route"]), 0]) + b"".join(bytes([p, l]) for p, l in wrap["route"])
    return out


def cpf_bytes(items):
    out = struct.pack("<H", len(items))
    for t, b in items:
        out += struct.pack("<HH", t, len(b)) + bytes(b)
    return out


def payload_bytes(body):
    k = body["k"]
    if k == "reg":
        return struct.pack("<HH", body["proto"], body["opts"]) + bytes(body["extra"])
    if k in ("regshort", "unreg", "xcmd"):
        return bytes(body["data"])
    if k in ("ls", "li", "lf", "lg"):
        return b""
    head = struct.pack("<IH", body["iface"], body["timeout"])
    if k == "send":
        return head + cpf_bytes([(0, b""), (0xb2, wrap_bytes(body["wrap"], cip_bytes(body)))])
    if k == "items":
        return head + cpf_bytes([(t, bytes(b)) for t, b in body["items"]])
    raise ValueError(k)


def command_of(body):
    k = body["k"]
    if k in CMD:
        return CMD[k]
    if k == "xcmd":
        return body["cmd"]
    return 0x70 if body["unit"] else 0x6f


def frame_bytes(fr):
    p = payload_bytes(fr["body"])
    return (struct.pack("<HHII", command_of(fr["body"]), len(p), fr["sess"], fr["status"]) + bytes.fromhex(fr["ctx"])
            + struct.pack("<I", fr["opt"]) + p)


# --------------------------------------------------------------------------------------------------
# the same description for the Lean driver
# --------------------------------------------------------------------------------------------------
def route_line(route):
    return ",".join(f"{p}:{l}" for p, l in route) if route else "-"


def body_line(body):
    k = body["k"]
    if k == "reg":
        return f"R^{body['proto']}^{body['opts']}^{lc.hexs(bytes(body['extra']))}"
    if k == "regshort":
        return f"Rs^{lc.hexs(bytes(body['data']))}"
    if k == "unreg":
        return f"U^{lc.hexs(bytes(body['data']))}"
    if k in ("ls", "li", "lf", "lg"):
        return {"ls": "LS", "li": "LI", "lf": "LF", "lg": "LG"}[k]
    if k == "xcmd":
        return f"X^{body['cmd']}^{lc.hexs(bytes(body['data']))}"
    head = f"{1 if body['unit'] else 0}^{body['iface']}^{body['timeout']}"
    if k == "items":
        items = ",".join(f"{t}:{lc.hexs(bytes(b))}" for t, b in body["items"]) if body["items"] else "-"
        return f"B^{head}^{items}"
    w = body["wrap"]
    wl = "d" if w is None else f"u_{w['cls']}_{w['ins']}_{w['prio']}_{w['ticks']}_{route_line(w['route'])}"
    raw = lc.hexs(cip_bytes(body))
    if "cm" in body:
        return f"S^{head}^{wl}^c^{raw}^{cm_line(body['cm'])}"
    if "req" in body:
        return f"S^{head}^{wl}^q^{raw}^{lc.req_line(body['req'])}"
    u = body["unk"]
    return f"S^{head}^{wl}^k^{u['code']}^{lc.path_line(u['path'])}^{raw}"


def frame_line(fr):
    return f"{fr['sess']}~{fr['status']}~{fr['ctx']}~{fr['opt']}~{len(payload_bytes(fr['body']))}~{body_line(fr['body'])}"


# --------------------------------------------------------------------------------------------------
# driving the real code
# --------------------------------------------------------------------------------------------------
class ScriptedRandom:
    """stands in for the `random` module inside cpppo.server.enip.ucmm"""

    def __init__(self, values):
        self.values = list(values)

    def randint(self, lo, hi):
        return self.values.pop(0)      # IndexError when the script is exhausted


class FakeConn:
    def __init__(self, chunks):
        self.chunks = list(chunks)
        self.sent = []
        self.eof_delivered = False

    def send(self, b):
        self.sent.append(bytes(b))
        return len(b)

    def close(self):
        pass


def split_frames(stream):
    """reply frames in a byte stream (by the length field)"""
    out = []
    while stream:
        n = 24 + struct.unpack("<H", stream[2:4])[0]
        out.append(stream[:n])
        stream = stream[n:]
    return out


def sessions_of(case):
    return case["sessions"] if "sessions" in case else [case["frames"]]


class Target:
    """The device at the far end of every routing-table entry: a listening socket in this process; each accepted
    connection is served by the real `enip_srv_tcp` on a thread, with the keywords of the current Rig (same
    objects, same UCMM: like cpppo's simulator routing to itself)."""
    sock = None
    kwds = None
    threads = []
    conns = []

    @classmethod
    def address(cls):
        if cls.sock is None:
            cls.sock = socket.socket(socket.AF_INET, socket.SOCK_STREAM)
            cls.sock.bind(("127.0.0.1", 0))
            cls.sock.listen(16)
            threading.Thread(target=cls.accept_loop, daemon=True).start()
        return cls.sock.getsockname()

    @classmethod
    def accept_loop(cls):
        from cpppo.server.enip import main as emain, logix
        while True:
            conn, addr = cls.sock.accept()
            conn.setsockopt(socket.IPPROTO_TCP, socket.TCP_NODELAY, 1)

            def run(conn=conn, addr=addr, kwds=cls.kwds):
                try:
                    emain.enip_srv_tcp(conn, addr, "enip_c06t", logix.process, **kwds)
                except Exception:
                    pass
                finally:
                    conn.close()
            t = threading.Thread(target=run, daemon=True)
            cls.threads.append(t)
            cls.conns.append(conn)
            t.start()

    @classmethod
    def quiesce(cls):
        """after the UCMM's route connections are closed: every serving thread ends"""
        for t in cls.threads:
            t.join(5)
        hung = [t for t in cls.threads if t.is_alive()]
        cls.threads = hung
        cls.conns = []
        return not hung


class Rig:
    """the real simulator prepared for one case: tags, UCMM personality, scripted random source"""

    def __init__(self, case):
        import cpppo
        from cpppo.server import network
        from cpppo.server.enip import main as emain, logix, ucmm, parser, device
        self.device = device
        self.cpppo, self.network, self.emain, self.logix, self.ucmm, self.parser = cpppo, network, emain, logix, ucmm, parser
        self.dev = lc.Device(case)           # device.lookup_reset(); logix.setup_reset(); logix.setup( tags )
        case["addrs"] = {k: list(v) for k, v in self.dev.addrs.items()}
        case["tagline"] = self.dev.tag_line(case)
        # tags whose Attribute refuses every store: an application's device.Attribute subclass (the documented
        # extension point, main( attribute_class=... )) whose __setitem__ raises
        refusing = [t["name"] for t in case["tags"] if t.get("refuse")]
        if refusing:
            class Refusing(device.Attribute):
                def __setitem__(self, key, value):
                    raise ValueError("the application refuses the value")
            for name in refusing:
                device.lookup(*self.dev.addrs[name]).__class__ = Refusing
        case["refusing"] = ",".join(".".join(map(str, self.dev.addrs[n])) for n in refusing) if refusing else "-"
        logix.setup_reset()                  # the UCMM is created by the first process(), as main() arranges it
        route = case["route"]
        attrs = {}
        if route is not None:
            attrs["route_path"] = [{"port": p, "link": l} for p, l in route] if route else False
        self.routes = case.get("routes") or []
        if self.routes:
            host, port = Target.address()
            attrs["route"] = {f"{p}/{l}": f"{host}:{port}" for p, l in self.routes}
        self.ucmm_class = type("UCMM_case", (ucmm.UCMM,), attrs) if attrs else ucmm.UCMM
        ucmm.UCMM.sessions.clear()
        device.Connection_Manager.forwards.clear()      # class-level: survives device.lookup_reset()
        self.saved_random = ucmm.random
        self.saved_dev_random = device.random
        ucmm.random = device.random = ScriptedRandom(case["rand"])     # session handles and connection IDs
        self.saved_recv = network.recv
        emain.connections.clear()
        control = cpppo.apidict(timeout=1.0)
        control["done"] = False
        control["disable"] = False
        control["latency"] = 0.01
        self.kwds = {"server": cpppo.dotdict({"control": control}), "UCMM_class": self.ucmm_class}
        if case.get("size") is not None:
            self.kwds["size"] = case["size"]           # enip_server --size
        Target.kwds = self.kwds

    def close(self):
        if self.routes:
            u = self.logix.setup.ucmm
            for conn in list(getattr(u, "route_conn", {}).values()) if u is not None else []:
                try:
                    conn.close()
                except Exception:
                    pass
            if u is not None:
                u.route_conn.clear()
            for c in Target.conns:          # a connection the UCMM forgot without closing it
                try:
                    c.shutdown(socket.SHUT_RDWR)
                except OSError:
                    pass
            Target.quiesce()
        self.ucmm.random = self.saved_random
        self.device.random = self.saved_dev_random
        self.network.recv = self.saved_recv
        self.dev.close()

    def tail(self):
        sess = self.ucmm.UCMM.sessions.get(ADDR)
        return f"s={'-' if sess is None else sess} d={self.dev.dump()}"

    def tcp(self, chunks):
        """enip_srv_tcp over a scripted connection -> (reply frames, requests, end)"""
        conn = FakeConn(chunks)

        def fake_recv(c, maxlen=4096, timeout=0):
            if not isinstance(c, FakeConn):          # the route target's real socket
                return self.saved_recv(c, maxlen, timeout=timeout)
            if c.chunks:
                return c.chunks.pop(0)
            c.eof_delivered = True
            return b""
        self.network.recv = fake_recv
        stats, _key = self.emain.stats_for(ADDR)
        end = None
        try:
            self.emain.enip_srv_tcp(conn, ADDR, "enip_c06", self.logix.process, **self.kwds)
        except Exception:
            end = "aborted"
        if end is None:
            end = "open" if conn.eof_delivered else "closed"
        return conn.sent, stats["requests"], end

    def sockets(self, stream):
        """enip_srv_tcp on a thread over a real socket pair: everything written, then the replies read"""
        self.network.recv = self.saved_recv
        a, b = socket.socketpair()
        box = {}

        def run():
            try:
                self.emain.enip_srv_tcp(b, ADDR, "enip_c06s", self.logix.process, **self.kwds)
                box["end"] = "ok"
            except Exception:
                box["end"] = "aborted"
            finally:
                b.close()
        stats, _key = self.emain.stats_for(ADDR)
        t = threading.Thread(target=run, daemon=True)
        t.start()
        try:
            a.sendall(stream)        # every request is written (and the write side shut) before any reply is read
            a.shutdown(socket.SHUT_WR)
        except OSError:              # the server has already ended the session and closed
            pass
        got = b""
        a.settimeout(20)
        while True:
            try:
                blk = a.recv(65536)
            except ConnectionResetError:     # the server closed with requests still unread (session ended early)
                break
            if not blk:
                break
            got += blk
        t.join(20)
        a.close()
        return split_frames(got), stats["requests"], box.get("end", "hung")

    def single(self, frames):
        """logix.process frame by frame, doing what enip_srv_tcp does around it"""
        cpppo, parser = self.cpppo, self.parser
        sent, n, end = [], 0, "open"
        for fb in frames:
            data = cpppo.dotdict()
            with parser.enip_machine(context="enip") as machine:
                for _m, _s in machine.run(path="request", source=cpppo.peekable(fb), data=data):
                    pass
            n += 1
            try:
                proceed = self.logix.process(ADDR, data=data, **self.kwds)
            except Exception:
                self.logix.process(ADDR, data=cpppo.dotdict())
                end = "aborted"
                break
            if not proceed:
                end = "closed"
                break
            if not data.response.enip.get("input") and not data.response.enip.status:
                end = "aborted"         # enip_srv_tcp asserts and drops the connection
                break
            sent.append(bytes(parser.enip_encode(data.response.enip)))
            if data.response.enip.status:
                end = "closed"
                break
        if end == "open":                # EOF: enip_srv_tcp hands an empty request to the processor
            self.logix.process(ADDR, data=cpppo.dotdict(), **self.kwds)
        return sent, n, end


def show_run(sent, n, end, tail):
    return f"{','.join(s.hex() for s in sent) if sent else '-'} n={n} e={end} {tail}"


def chunks_of(case, frames):
    stream = b"".join(frames)
    cuts = case.get("cuts", "one")
    if cuts == "one":
        return [stream]
    if cuts == "frames":
        return list(frames)
    pts = sorted({c for c in cuts if 0 < c < len(stream)})
    return [stream[a:b] for a, b in zip([0] + pts, pts + [len(stream)])]


def run_case(case, sockets=False):
    logging.disable(logging.CRITICAL)
    sessions = [[frame_bytes(fr) for fr in frames] for frames in sessions_of(case)]

    def drive(mode):
        rig = Rig(case)
        try:
            runs = []
            for frames in sessions:
                if mode == "one":
                    sent, n, end = rig.tcp([b"".join(frames)])
                elif mode == "single":
                    sent, n, end = rig.single(frames)
                elif mode == "cuts":
                    sent, n, end = rig.tcp(chunks_of(case, frames))
                else:
                    sent, n, end = rig.sockets(b"".join(frames))
                runs.append((sent, n, end, rig.tail()))
            return runs
        finally:
            rig.close()
    one = drive("one")
    first = " // ".join(show_run(*r) for r in one)
    second = " // ".join(show_run(*r) for r in drive("single"))
    # other deliveries of the same stream must give the same replies
    modes = []
    if case.get("cuts", "one") != "one":
        modes.append("cuts")
    if sockets:
        modes.append("sockets")
    same = "same"
    for m in modes:
        runs = drive(m)
        if m == "sockets":
            runs = [(s2, n2, (r1[2] if e2 == "ok" else e2), t2) for (s2, n2, e2, t2), r1 in zip(runs, one)]
        other = " // ".join(show_run(*r) for r in runs)
        if other != first:
            same = f"{m}-differs:{other}"
            break
    return f"{first} || {second} || {same}"


# --------------------------------------------------------------------------------------------------
# generators
# --------------------------------------------------------------------------------------------------
def rand_ctx(rng, used):
    while True:
        r = rng.random()
        if r < 0.1:
            c = bytes([rng.choice([0, 0xff, 0x80])] * 7 + [len(used) & 0xff])
        elif r < 0.2:
            c = str(len(used)).encode().ljust(8, b"\0")          # as cpppo's client numbers them
        else:
            c = bytes(rng.randrange(256) for _ in range(8))
        if c.hex() not in used:
            used.add(c.hex())
            return c.hex()


def rand_sess(rng):
    return rng.choice([0, 1, 0xffffffff, 0x80000000, rng.randrange(1 << 32), rng.randrange(1 << 32)])


def rand_wrap(rng, route_cfg, bad_route=0.04, bad_target=0.04):
    if rng.random() < 0.3:
        return None
    r = rng.random()
    if route_cfg and r < 0.6:
        route = [list(s) for s in route_cfg]
    elif r < 0.75:
        route = []
    else:
        route = [[1, 0]]
    if rng.random() < bad_route:
        route = rng.choice([[[1, 1]], [[2, 0]], [[1, 0], [2, 3]], [[14, 255]]])
    cls, ins = 6, 1
    if rng.random() < bad_target:
        cls, ins = rng.choice([(2, 1), (2, 1), (2, 0), (6, 0), (1, 1), (0x66, 1), (9, 9), (0x93, 1), (6, 2)])
    return {"cls": cls, "ins": ins, "prio": rng.choice([5, 1, 0, 10]), "ticks": rng.choice([157, 250, 0, 255]),
            "route": route}


def rand_unknown(rng, tags):
    code = rng.choice([c for c in range(0x80) if c not in SUPPORTED])
    t = rng.choice(tags)
    path = rng.choice([[["c", 2], ["i", 1]], [["s", t["name"]]], [["c", 2], ["i", 1], ["a", 1]], [["s", "nosuch"]]])
    return {"code": code, "path": path, "tail": [rng.randrange(256) for _ in range(rng.choice([0, 0, 2, 4, 7]))]}


SERIALS = []          # connection serials used by the Forward Opens of the case being generated


def rand_send(rng, tags, route_cfg, fail):
    body = {"k": "send", "unit": rng.random() < 0.05, "iface": rng.choice([0, 0, 0, 7]),
            "timeout": rng.choice([5, 0, 65535]), "wrap": rand_wrap(rng, route_cfg, fail * 0.25, fail * 0.25)}
    r = rng.random()
    if r < fail * 0.25:
        body["unk"] = rand_unknown(rng, tags)
        return body
    if r < fail * 0.5:
        body["req"] = rng.choice([
            {"op": "rt", "path": [["s", "nosuch"]], "n": 1},
            {"op": "wt", "path": [["c", 9], ["i", 9], ["a", 1]], "ty": 0xc3, "n": 1, "vals": [1]},
            {"op": "gs", "path": [["c", 0x93], ["i", 7], ["a", 1]]},
            {"op": "rt", "path": [["s", "A"], ["s", "nosuch"]], "n": 1},
            {"op": "mu", "path": [["c", 2], ["i", 9]], "reqs": [{"op": "rt", "path": [["s", tags[0]["name"]]], "n": 1}]},
        ])
        return body
    if rng.random() < 0.07:
        # the Connection Manager's own services, bare or in an Unconnected Send
        body["cm"] = rand_cm(rng, SERIALS)
        return body
    body["req"] = rand_req(rng, tags, multi=True, invalid=0.2)
    if rng.random() < 0.06 + fail * 0.3:
        # attribute services (and bundles holding them) addressed to an unknown Class / Instance / Attribute
        lost = rand_lost_attr(rng, tags)
        if rng.random() < 0.5:
            members = [rand_req(rng, tags, multi=False, invalid=0.2) for _ in range(rng.randint(0, 3))]
            members.insert(rng.randint(0, len(members)), lost)
            if rng.random() < 0.4:
                members.insert(rng.randint(0, len(members)), rand_lost_attr(rng, tags))
            body["req"] = {"op": "mu", "path": [["c", 2], ["i", 1]], "reqs": members}
        else:
            body["req"] = lost
    if body["req"]["op"] == "rf" and body["wrap"] is None:      # a bare 0x52 is read as an Unconnected Send
        body["wrap"] = {"cls": 6, "ins": 1, "prio": 5, "ticks": 157, "route": []}
    return body


def ncp(large, typ, size, variable=1, prio=0, redundant=0, reserved=0):
    v = (variable << 9) + (prio << 10) + (typ << 13) + (redundant << 15)
    if large:
        return ((v << 16) + size + (reserved << 16)) & 0xffffffff
    return (v + size + (reserved << 12)) & 0xffff


def rand_cm(rng, serials):
    """[Large] Forward Open (all connection types, size 0, reserved bits, re-opened IDs) / Forward Close"""
    if serials and rng.random() < 0.25:
        return {"k": "fc", "prio": 5, "ticks": 157, "serial": rng.choice(serials + [0xfffe]), "vendor": 0x1234,
                "oserial": rng.randrange(1 << 32), "cpath": [["c", 2], ["i", 1]]}
    large = rng.random() < 0.5
    serial = rng.choice([1, 2, 7, 0xffff, rng.randrange(65536)])
    serials.append(serial)
    size = rng.choice([0, 1, 500, 511, 4000, 0xffff] if large else [0, 1, 500, 511])
    return {"k": "fo", "large": large, "prio": rng.choice([5, 0, 255]), "ticks": rng.choice([157, 0]),
            "otid": rng.choice([1, 1, 2, 0, 0xffffffff]), "toid": rng.choice([2, 0x12345678]), "serial": serial,
            "vendor": rng.choice([0x1234, 0, 0xffff]), "oserial": rng.randrange(1 << 32), "mult": rng.choice([0, 1, 7]),
            "otrpi": rng.choice([1000, 0, 0xffffffff]), "torpi": rng.choice([2000, 1]),
            "otncp": ncp(large, rng.choice([0, 1, 2, 2, 3]), size, rng.randrange(2), rng.randrange(4), rng.randrange(2),
                         rng.choice([0, 0, 1])),
            "toncp": ncp(large, rng.choice([0, 1, 1, 2, 3]), rng.choice([size, 100]), rng.randrange(2), rng.randrange(4)),
            "tct": rng.choice([0xa3, 0x01, 0]), "cpath": rng.choice([[["c", 2], ["i", 1]], [["c", 0x93], ["i", 1]], []])}


def rand_lost_attr(rng, tags):
    """Get/Set Attribute Single / Get Attributes All whose path names no existing Object or Attribute"""
    addrs = [t["addr"] for t in tags if t.get("addr")]
    c, i, a = rng.choice([[0x77, 1, 1], [0x93, 99, 7], [300, 7, 1], [0x401, 1, 200], [2, 99, 1], [2, 1, 250]]
                         + [[x[0], x[1] + 40, x[2]] for x in addrs] + [[x[0], x[1], x[2] + 100] for x in addrs])
    op = rng.choice(["gs", "gs", "ss", "ga"])
    if op == "ga":
        return {"op": "ga", "path": [["c", c], ["i", i]]}
    if op == "ss":
        return {"op": "ss", "path": [["c", c], ["i", i], ["a", a]], "data": [rng.randrange(256) for _ in range(rng.choice([1, 2, 4]))]}
    return {"op": "gs", "path": [["c", c], ["i", i], ["a", a]]}


def extra_items_body(rng, tags):
    """a SendRRData whose item list is not [null address, unconnected data] although it carries a perfectly good
    request: a third item after the two (eg. the 0x8000 Sockaddr Info that accompanies a Forward Open for an I/O
    connection), the data item alone, two null items first"""
    t = rng.choice(tags)
    req = rng.choice([{"op": "rt", "path": [["s", t["name"]]], "n": 1}, {"op": "ga", "path": [["c", 2], ["i", 1]]},
                      {"op": "wt", "path": [["s", t["name"]]], "ty": lc.TYPES[t["type"]], "n": 1,
                       "vals": [lg.ArraySpec.zero(t["type"])]}])
    data = [0xb2, list(cip_bytes({"req": req}))]
    extra = lambda: [rng.choice([0x8000, 0x8001, 0, 0x1234]), [rng.randrange(256) for _ in range(rng.choice([0, 16, 16, 3]))]]
    items = rng.choice([[[0, []], data, extra()], [[0, []], data, extra(), extra()], [data], [[0, []], [0, []], data]])
    return {"k": "items", "unit": rng.random() < 0.1, "iface": 0, "timeout": rng.choice([5, 0]), "items": items}


def rand_items(rng):
    n = rng.choice([0, 1, 1, 2, 3])
    items = []
    for _ in range(n):
        t = rng.choice([0, 0, 0x1234, 0xb3, 0x8000])
        items.append([t, [rng.randrange(256) for _ in range(rng.choice([0, 0, 3, 6]))]])
    return {"k": "items", "unit": False, "iface": 0, "timeout": 5, "items": items}


def rand_frame(rng, tags, route_cfg, used, fail, end):
    r = rng.random()
    sess = rand_sess(rng)
    status = 0 if rng.random() > fail * 0.15 else rng.choice([1, 7, 8, 0x65, 0x10000])
    opt = 0 if rng.random() < 0.85 else rng.choice([1, 0xffffffff, 9])
    if r < 0.08:
        body = {"k": "reg", "proto": rng.choice([1, 1, 2, 0]), "opts": rng.choice([0, 0, 7]),
                "extra": [] if rng.random() < 0.9 else [1, 2, 3]}
    elif r < 0.08 + end:
        body = {"k": "unreg", "data": [] if rng.random() < 0.8 else [0]}
    elif r < 0.2:
        body = {"k": rng.choice(["ls", "li", "lf", "lg"])}
    elif r < 0.2 + fail * 0.12:
        body = rng.choice([
            {"k": "xcmd", "cmd": rng.choice([0, 2, 0x67, 0x72, 0x99, 0xffff]),
             "data": [rng.randrange(256) for _ in range(rng.choice([0, 0, 3]))]},
            {"k": "regshort", "data": [1, 0, 0][:rng.randrange(4)]},
            rand_items(rng), extra_items_body(rng, tags)])
    else:
        body = rand_send(rng, tags, route_cfg, fail)
    return {"sess": sess, "status": status, "ctx": rand_ctx(rng, used), "opt": opt, "body": body}


def rand_case(rng, nmax=40, big=False):
    tags = lg.rand_tags(rng, big=big)
    route = rng.choice([None, None, None, False, [[1, 0]], [[1, 0]], [[2, 5]], [[1, 0], [2, 3]]])
    fail = rng.choice([0.0, 0.05, 0.05, 0.15, 0.5])
    end = rng.choice([0.0, 0.0, 0.02, 0.1])
    n = rng.choice([1, 2, 3, 5, 8, 13, 20, 40, rng.randint(1, nmax)])
    n = min(n, nmax)
    used = set()
    frames = []
    del SERIALS[:]
    if rng.random() < 0.7:
        frames.append({"sess": 0, "status": 0, "ctx": rand_ctx(rng, used), "opt": 0,
                       "body": {"k": "reg", "proto": 1, "opts": 0, "extra": []}})
    while len(frames) < n:
        frames.append(rand_frame(rng, tags, route, used, fail, end))
    if rng.random() < 0.3:
        # an Attribute whose data store refuses every assignment: top-level writes (valid and not) and reads of it
        lk = {"name": rng.choice(["Locked", "RO_1"]), "type": rng.choice(["SINT", "INT", "DINT", "REAL", "BOOL"]),
              "len": rng.choice([1, 4]), "addr": None, "refuse": True}
        tags = tags + [lk]
        for _ in range(rng.randint(1, 4)):
            while True:
                req = rand_req(rng, [lk], multi=False, invalid=0.3)
                if req["op"] in ("rt", "rf", "wt", "wf"):
                    break
            body = {"k": "send", "unit": False, "iface": 0, "timeout": 5, "wrap": rand_wrap(rng, route, 0.0, 0.0), "req": req}
            if req["op"] == "rf" and body["wrap"] is None:
                body["wrap"] = {"cls": 6, "ins": 1, "prio": 5, "ticks": 157, "route": []}
            frames.insert(rng.randint(0, len(frames)), {"sess": rand_sess(rng), "status": 0, "ctx": rand_ctx(rng, used),
                                                        "opt": 0, "body": body})
    nreg = sum(1 for f in frames if f["body"]["k"] == "reg")
    nreg += sum(2 for f in frames if "cm" in f["body"] and f["body"]["cm"]["k"] == "fo" and rng.random() < 0.9)
    rand = []
    for _ in range(nreg):
        while rng.random() < 0.2:
            rand.append(0)
        rand.append(rng.choice([1, 0xffffffff, rng.randrange(1, 1 << 32), rng.randrange(1, 1 << 32)]))
    if rand and rng.random() < 0.15:
        rand[-1] = rand[0]                 # a handle drawn twice
    if rand and rng.random() < 0.05:
        rand = [0] * rng.randint(0, 2)     # the random source runs dry
    cuts = rng.choice(["one", "one", "one", "frames", "rand"])
    if cuts == "rand":
        total = sum(len(frame_bytes(f)) for f in frames)
        cuts = sorted(rng.randrange(1, max(total, 2)) for _ in range(rng.randint(1, 6)))
    case = {"budget": rng.choice([488, 488, 488, 100, 24]), "tags": tags, "route": route, "rand": rand, "cuts": cuts,
            "frames": frames}
    if rng.random() < 0.3:
        # a request size limit at, just below or just above the payload of one of the requests
        f = rng.choice(frames)
        case["size"] = max(0, len(payload_bytes(f["body"])) + rng.choice([0, 0, 0, -1, 1, 60]))
    return case


TABLE = [[1, 9]]                     # the routing table used by the routed cases: port 1, link 9 --> the route's device


def routed_wrap(rest, cls=6, ins=1):
    # priority/ticks give the forwarding UCMM a timeout of 2^5 * 157 ms: the route's device always answers in time
    return {"cls": cls, "ins": ins, "prio": 5, "ticks": 157, "route": [list(TABLE[0])] + [list(x) for x in rest]}


def routed_kinds(tags):
    """requests forwarded through the routing table (succeeding and failing) and local ones"""
    a = tags[0]["name"]

    def send(req=None, unk=None, wrap=None):
        b = {"k": "send", "unit": False, "iface": 0, "timeout": 5, "wrap": wrap}
        if req is not None:
            b["req"] = req
        else:
            b["unk"] = unk
        return b
    rd = {"op": "rt", "path": [["s", a]], "n": 1}
    wr = {"op": "wt", "path": [["s", a], ["e", 1]], "ty": 0xc3, "n": 1, "vals": [7]}
    return {
        "r-read": send(rd, wrap=routed_wrap([])),
        "r-write": send(wr, wrap=routed_wrap([])),
        "r-read-on": send({"op": "rf", "path": [["s", a]], "n": 2, "off": 0}, wrap=routed_wrap([[1, 0]])),
        "r-gas-lost": send({"op": "gs", "path": [["c", 0x77], ["i", 1], ["a", 1]]}, wrap=routed_wrap([])),
        "r-unknown-svc": send(unk={"code": 0x77, "path": [["c", 2], ["i", 1]], "tail": [1, 0]}, wrap=routed_wrap([])),
        "r-bad-rest": send(rd, wrap=routed_wrap([[3, 3]])),
        "r-bad-send-path": send(wr, wrap=routed_wrap([[1, 0]], cls=2)),
        "l-read": send(rd, wrap={"cls": 6, "ins": 1, "prio": 5, "ticks": 157, "route": [[1, 0]]}),
        "l-unknown-svc": send(unk={"code": 0x77, "path": [["c", 2], ["i", 1]], "tail": []}, wrap=None),
        "reg": {"k": "reg", "proto": 1, "opts": 0, "extra": []},
    }


def routed_small_cases(full=True):
    """every sequence of up to three one-request connections over the routed kinds (quick: up to two, and the triples
    good - failing - good), and pairs written together"""
    import itertools
    tags = [{"name": "A", "type": "INT", "len": 4, "addr": None}]
    kinds = routed_kinds(tags)
    core = ["r-read", "r-write", "r-read-on", "r-unknown-svc", "r-bad-rest", "l-read"]
    n = [0]

    def frame(body):
        n[0] += 1
        return {"sess": 0x5000 + n[0], "status": 0, "ctx": struct.pack("<II", 0xC0DE0000 + n[0], n[0]).hex(), "opt": 0,
                "body": body}

    def case(sessions, rand=(11, 12, 13, 14, 15, 16)):
        return {"budget": 488, "tags": tags, "route": [[1, 0]], "routes": TABLE, "rand": list(rand), "cuts": "one",
                "sessions": sessions}
    for k in kinds:
        yield case([[frame(kinds[k])]])
    for ln in (2, 3):
        for seq in itertools.product(core, repeat=ln):
            if full or ln == 2 or (seq[0] in ("r-read", "r-write") and seq[1] in ("r-unknown-svc", "r-bad-rest")
                                   and seq[2] in ("r-read", "r-write")):
                yield case([[frame(kinds[k])] for k in seq])
    for ka in ("r-read", "r-write", "r-gas-lost", "r-bad-send-path", "reg"):
        for kb in ("r-read", "r-write", "l-read", "r-unknown-svc"):
            yield case([[frame(kinds[ka]), frame(kinds[kb])], [frame(kinds["r-write"]), frame(kinds["r-read"])]])
    # the random source cannot give the forwarding connection a session handle; then it can
    yield case([[frame(kinds["r-read"])], [frame(kinds["r-read"])]], rand=(0, 0))
    yield case([[frame(kinds["reg"]), frame(kinds["r-read"])], [frame(kinds["r-write"])]], rand=(0, 21, 0, 22))


def rand_routed_case(rng):
    tags = lg.rand_tags(rng)
    route = rng.choice([None, None, False, [[1, 0]], [[2, 5]]])
    used = set()
    del SERIALS[:]
    sessions = []
    nreq = 0
    for _ in range(rng.randint(1, 6)):
        frames = []
        if rng.random() < 0.5:
            frames.append({"sess": 0, "status": 0, "ctx": rand_ctx(rng, used), "opt": 0,
                           "body": {"k": "reg", "proto": 1, "opts": 0, "extra": []}})
        for _ in range(rng.choice([1, 1, 2, 3, 5])):
            r = rng.random()
            body = rand_send(rng, tags, route, rng.choice([0.0, 0.0, 0.3]))
            if r < 0.7 and "cm" not in body:      # forward it (the Connection Manager's own services stay local)
                rest = rng.choice([[], [], [list(x) for x in route] if route else [[1, 0]]])
                if rng.random() < 0.08:
                    rest = [[3, 3]]
                cls, ins = (6, 1) if rng.random() < 0.92 else rng.choice([(2, 1), (6, 0), (9, 9)])
                body["wrap"] = routed_wrap(rest, cls, ins)
                if not rest and "req" in body and body["req"]["op"] == "rf":
                    body["wrap"] = routed_wrap([list(x) for x in route] if route else [[1, 0]], cls, ins)
            frames.append({"sess": rand_sess(rng), "status": 0 if rng.random() < 0.95 else 7, "ctx": rand_ctx(rng, used),
                           "opt": 0, "body": body})
            nreq += 1
        sessions.append(frames)
    nreg = sum(1 for fs in sessions for f in fs if f["body"]["k"] == "reg")
    nreg += sum(2 for fs in sessions for f in fs if "cm" in f["body"])
    rand = []
    for _ in range(nreg + nreq):
        if rng.random() < 0.15:
            rand.append(0)
        rand.append(rng.randrange(1, 1 << 32))
    if rng.random() < 0.05:
        rand = rand[:rng.randint(0, 2)]
    return {"budget": rng.choice([488, 488, 100]), "tags": tags, "route": route, "routes": TABLE, "rand": rand,
            "cuts": rng.choice(["one", "one", "frames"]), "sessions": sessions}


def small_cases():
    """every frame kind alone and every ordered pair of kinds, on a fixed device"""
    tags = [{"name": "A", "type": "INT", "len": 4, "addr": None},
            {"name": "B", "type": "DINT", "len": 1, "addr": [0x93, 1, 2]},
            {"name": "Locked", "type": "INT", "len": 2, "addr": None, "refuse": True}]
    usend = {"cls": 6, "ins": 1, "prio": 5, "ticks": 157, "route": [[1, 0]]}

    def send(req=None, unk=None, wrap=usend, unit=False):
        b = {"k": "send", "unit": unit, "iface": 0, "timeout": 5, "wrap": wrap}
        if req is not None:
            b["req"] = req
        else:
            b["unk"] = unk
        return b
    rdA = {"op": "rt", "path": [["s", "A"]], "n": 2}

    def send_cm(cm, wrap=None):
        return {"k": "send", "unit": False, "iface": 0, "timeout": 5, "wrap": wrap, "cm": cm}
    kinds = {
        "reg": {"k": "reg", "proto": 1, "opts": 0, "extra": []},
        "unreg": {"k": "unreg", "data": []},
        "ls": {"k": "ls"}, "li": {"k": "li"}, "lf": {"k": "lf"}, "lg": {"k": "lg"},
        "rt": send(rdA), "rt-direct": send(rdA, wrap=None), "rt-unit": send(rdA, unit=True),
        "rf": send({"op": "rf", "path": [["s", "A"], ["e", 1]], "n": 3, "off": 2}),
        "wt": send({"op": "wt", "path": [["s", "a"]], "ty": 0xc3, "n": 2, "vals": [-7, 9]}),
        "wf": send({"op": "wf", "path": [["s", "B"]], "ty": 0xc4, "n": 1, "off": 0, "vals": [123456]}),
        "gs": send({"op": "gs", "path": [["c", 0x93], ["i", 1], ["a", 2]]}),
        "ss": send({"op": "ss", "path": [["c", 0x93], ["i", 1], ["a", 2]], "data": [1, 2, 3, 4]}),
        "ga": send({"op": "ga", "path": [["c", 2], ["i", 1]]}),
        "mu": send({"op": "mu", "path": [["c", 2], ["i", 1]], "reqs": [rdA, {"op": "wt", "path": [["s", "A"], ["e", 3]],
                                                                            "ty": 0xc3, "n": 1, "vals": [5]}]}),
        "wt-locked": send({"op": "wt", "path": [["s", "Locked"]], "ty": 0xc3, "n": 2, "vals": [1, 2]}),
        "rt-range": send({"op": "rt", "path": [["s", "A"], ["e", 9]], "n": 1}),
        "rt-nosuch": send({"op": "rt", "path": [["s", "nosuch"]], "n": 1}),
        "unk-svc": send(unk={"code": 0x77, "path": [["c", 2], ["i", 1]], "tail": [1, 0]}),
        "bad-route": send(rdA, wrap=dict(usend, route=[[1, 1]])),
        "empty-route": send(rdA, wrap=dict(usend, route=[])),
        "usend-router": send(rdA, wrap=dict(usend, cls=2)),
        "usend-identity": send(rdA, wrap=dict(usend, cls=1)),
        "usend-none": send(rdA, wrap=dict(usend, cls=9, ins=9)),
        "fo": send_cm({"k": "fo", "large": False, "prio": 5, "ticks": 157, "otid": 1, "toid": 2, "serial": 7, "vendor": 0x1234,
                       "oserial": 0xdeadbeef, "mult": 1, "otrpi": 1000, "torpi": 2000, "otncp": ncp(False, 2, 500),
                       "toncp": ncp(False, 1, 500), "tct": 0xa3, "cpath": [["c", 2], ["i", 1]]}),
        "lfo": send_cm({"k": "fo", "large": True, "prio": 5, "ticks": 157, "otid": 1, "toid": 2, "serial": 8, "vendor": 0x1234,
                        "oserial": 0xdeadbeef, "mult": 1, "otrpi": 1000, "torpi": 2000, "otncp": ncp(True, 0, 4000),
                        "toncp": ncp(True, 2, 4000), "tct": 0xa3, "cpath": [["c", 2], ["i", 1]]}, wrap=usend),
        "fc": send_cm({"k": "fc", "prio": 5, "ticks": 157, "serial": 8, "vendor": 0x1234, "oserial": 0xdeadbeef,
                       "cpath": [["c", 2], ["i", 1]]}),
        "items-1": {"k": "items", "unit": False, "iface": 0, "timeout": 5, "items": [[0, []]]},
        "items-0": {"k": "items", "unit": False, "iface": 0, "timeout": 5, "items": []},
        "items-3": {"k": "items", "unit": False, "iface": 0, "timeout": 5,
                    "items": [[0, []], [0xb2, list(cip_bytes({"req": rdA}))], [0x8000, [0, 2, 0xaf, 0x12] + [0] * 12]]},
        "xcmd": {"k": "xcmd", "cmd": 0x99, "data": []},
        "nop": {"k": "xcmd", "cmd": 0, "data": [1, 2]},
        "regshort": {"k": "regshort", "data": [1, 0]},
    }

    def frame(i, body, status=0):
        return {"sess": 0x11220000 + i, "status": status, "ctx": bytes([0xA0 + i] * 8).hex(), "opt": 0, "body": body}
    for route in (None, [[1, 0]], False):
        for ka, a in kinds.items():
            yield {"budget": 488, "tags": tags, "route": route, "rand": [0, 77, 0, 78], "cuts": "one",
                   "frames": [frame(0, a)]}
    names = list(kinds)
    for ka in names:
        for kb in names:
            yield {"budget": 488, "tags": tags, "route": [[1, 0]], "rand": [0, 77, 77], "cuts": "one",
                   "frames": [frame(0, kinds[ka]), frame(1, kinds[kb])]}
    for ka in ("ls", "rt", "reg", "unk-svc", "unreg"):
        yield {"budget": 488, "tags": tags, "route": None, "rand": [5], "cuts": "one",
               "frames": [frame(0, kinds[ka], status=7), frame(1, kinds["rt"])]}
    # an Attribute that refuses the store: fragmented, bare, wrong type, beyond the end, read back, pipelined
    locked = [send({"op": "wf", "path": [["s", "locked"], ["e", 1]], "ty": 0xc3, "n": 1, "off": 0, "vals": [5]}),
              send({"op": "wt", "path": [["s", "Locked"]], "ty": 0xc2, "n": 1, "vals": [5]}, wrap=None),
              send({"op": "wt", "path": [["s", "Locked"]], "ty": 0xc4, "n": 1, "vals": [5]}),
              send({"op": "wt", "path": [["s", "Locked"], ["e", 1]], "ty": 0xc3, "n": 2, "vals": [5, 6]}),
              send({"op": "rt", "path": [["s", "Locked"]], "n": 2})]
    for a in locked:
        yield {"budget": 488, "tags": tags, "route": None, "rand": [], "cuts": "one", "frames": [frame(0, a), frame(1, locked[4])]}
    yield {"budget": 488, "tags": tags, "route": None, "rand": [], "cuts": "one",
           "frames": [frame(i, a) for i, a in enumerate(locked + [kinds["wt"], kinds["rt"]])]}
    # a request size limit exactly at, one below and one above the payload of each kind of request
    for ka, a in kinds.items():
        n = len(payload_bytes(a))
        for size in sorted({max(n - 1, 0), n, n + 1}):
            yield {"budget": 488, "tags": tags, "route": None, "rand": [77, 78, 79], "cuts": "one", "size": size,
                   "frames": [frame(0, a), frame(1, kinds["rt"])]}


# --------------------------------------------------------------------------------------------------
# the property oracle (from the statement; independent of the Lean model)
# --------------------------------------------------------------------------------------------------
def parse_run(s):
    reps, n, e, sess, dump = s.split(" ")
    frames = [] if reps == "-" else [bytes.fromhex(h) for h in reps.split(",")]
    return frames, int(n[2:]), e[2:]


def decode_reply(b):
    cmd, ln, sess, status = struct.unpack("<HHII", b[:12])
    return {"cmd": cmd, "len": ln, "sess": sess, "status": status, "ctx": b[12:20].hex(),
            "opt": struct.unpack("<I", b[20:24])[0], "payload": b[24:]}


def parse_send_payload(p):
    """-> (iface, timeout, [(type, data)…]) or None"""
    if len(p) < 8:
        return None
    iface, timeout, count = struct.unpack("<IHH", p[:8])
    items, pos = [], 8
    for _ in range(count):
        if pos + 4 > len(p):
            return None
        t, n = struct.unpack("<HH", p[pos:pos + 4])
        if pos + 4 + n > len(p):
            return None
        items.append((t, p[pos + 4:pos + 4 + n]))
        pos += 4 + n
    return iface, timeout, items if pos == len(p) else None


def service_of(body):
    if "unk" in body:
        return body["unk"]["code"]
    if "cm" in body:
        return 0x4e if body["cm"]["k"] == "fc" else (0x5b if body["cm"]["large"] else 0x54)
    return SVC[body["req"]["op"]]


def op_name(body):
    if "cm" in body:
        return "Forward Close" if body["cm"]["k"] == "fc" else ("Large Forward Open" if body["cm"]["large"] else "Forward Open")
    return body["req"]["op"]


def expectation(case, body):
    """what the statement requires of a SendRRData request: 'reply' (supported service over an acceptable route),
    'refuse' (unsupported service / refused route path), 'either' (the statement does not decide)"""
    w = body["wrap"]
    exp = "reply"
    if w is not None:
        route = [list(x) for x in w["route"]]
        routed = bool(route) and route[0] in [list(x) for x in (case.get("routes") or [])]
        if routed:
            route = route[1:]        # forwarded to the route's device, which sees the rest of the route path
        cfg = case["route"]
        if cfg is not None and route and [list(x) for x in (cfg or [])] != route:
            return "refuse"
        if not routed or route:      # (forwarded without a route path, the request travels bare)
            if w["cls"] != 6:
                # an Unconnected Send is a service of the Connection Manager: to any other Object it cannot be routed
                return "refuse"
            if w["ins"] != 1:
                exp = "either"       # the class-level instance, or an instance that may not exist
        if routed and not rand_suffices(case):
            exp = "either"           # the forwarding connection needs a session handle of its own
    if "unk" in body:
        return "refuse"
    # a known service is a supported request whatever its own path names: an unknown Tag / Object is answered
    # by the Message Router with a CIP failure status inside a normal reply (service | 0x80, encapsulation status 0)
    return exp


def rand_suffices(case):
    """the scripted random source holds a non-zero value for every Register Session and every forwarded request"""
    need = 0
    routes = [list(x) for x in (case.get("routes") or [])]
    for frames in sessions_of(case):
        for fr in frames:
            b = fr["body"]
            if b["k"] == "reg":
                need += 1
            elif "cm" in b and b["cm"]["k"] == "fo":
                need += 2
            elif b["k"] == "send" and b["wrap"] and b["wrap"]["route"] and list(b["wrap"]["route"][0]) in routes:
                need += 1
    return len([v for v in case["rand"] if v]) >= need


def bundle_problem(req, item):
    """a Multiple Service Packet reply (status 0): one reply per bundled request, in order, each with its request's
    service code | 0x80"""
    if len(item) < 6 or item[2] != 0:
        return None                   # the bundle itself failed: a reply with a CIP failure status
    body = item[4 + 2 * item[3]:]
    n = int.from_bytes(body[:2], "little")
    members = req["reqs"]
    if n != len(members):
        return f"{len(members)} bundled requests answered by {n} replies"
    offs = [int.from_bytes(body[2 + 2 * k: 4 + 2 * k], "little") for k in range(n)] + [len(body)]
    for k, m in enumerate(members):
        if not (2 + 2 * n <= offs[k] < offs[k + 1] <= len(body)):
            return f"bundled reply #{k} has no bytes (offsets {offs})"
        got = body[offs[k]]
        if got != (SVC[m["op"]] | 0x80):
            return (f"bundled request #{k} ({m['op']}, service {SVC[m['op']]:#x}) answered by "
                    f"{body[offs[k]:offs[k + 1]].hex()}: service code {got:#x} is not {SVC[m['op']]:#x} | 0x80")
    return None


def oracle_run(case, frames, replies, label):
    by_ctx = {fr["ctx"]: i for i, fr in enumerate(frames)}
    decoded = [decode_reply(b) for b in replies]
    idx = []
    for k, r in enumerate(decoded):
        if r["len"] != len(r["payload"]):
            return f"{label}: reply #{k} length field {r['len']} != payload {len(r['payload'])}"
        if r["ctx"] not in by_ctx:
            return f"{label}: reply #{k} carries sender context {r['ctx']} of no request"
        idx.append(by_ctx[r["ctx"]])
    for k in range(1, len(idx)):
        if idx[k] == idx[k - 1]:
            return f"{label}: request #{idx[k]} answered twice"
        if idx[k] < idx[k - 1]:
            return f"{label}: reply to request #{idx[k]} sent after the reply to request #{idx[k - 1]}"
    k = 0
    ended = False        # the session may have ended (after a non-zero status / an unparsable frame)
    enough = rand_suffices(case)
    for i, fr in enumerate(frames):
        body = fr["body"]
        kind = body["k"]
        mine = k < len(idx) and idx[k] == i
        if kind == "unreg":
            if mine:
                return f"{label}: Unregister Session (request #{i}) was answered"
            if k < len(idx):
                return f"{label}: reply to request #{idx[k]} after Unregister Session (request #{i})"
            return None
        if case.get("size") is not None and len(payload_bytes(body)) > int(case["size"]):
            # larger than the server is configured to accept: the statement does not decide; whatever is sent for it
            # must be its own one reply
            if mine:
                r = decoded[k]
                k += 1
                if r["cmd"] != command_of(body):
                    return f"{label}: reply to #{i} has command {r['cmd']:#x}, request {command_of(body):#x}"
                if r["status"] != 0:
                    ended = True
            elif k == len(idx):
                return None
            else:
                ended = True
            continue
        # frames outside the simulator's grammar: the statement speaks of well-formed requests only
        malformed = kind in ("regshort", "xcmd", "items")
        if not mine:
            if k == len(idx) and (ended or malformed):
                return None          # nothing more was sent: the session was over
            if malformed:
                ended = True
                continue
            return f"{label}: request #{i} ({kind}) got no reply" + (
                f" (next reply answers #{idx[k]})" if k < len(idx) else "")
        r = decoded[k]
        k += 1
        if r["cmd"] != command_of(body):
            return f"{label}: reply to #{i} has command {r['cmd']:#x}, request {command_of(body):#x}"
        if kind != "reg" and r["sess"] != fr["sess"]:
            return f"{label}: reply to #{i} has session handle {r['sess']:#x}, request {fr['sess']:#x}"
        if malformed:
            if r["status"] == 0:
                if kind != "items":
                    return f"{label}: unparsable request #{i} answered with status 0"
                # a SendRRData whose item list is not [null address, unconnected data]: either it is unsupported
                # (non-zero status), or it is served -- then inside the SendRRData framing, with the reply bit
                sp = parse_send_payload(r["payload"])
                reqs = [bytes(b) for t, b in body["items"] if t == 0xb2 and b]
                if sp is None or sp[2] is None or [t for t, _ in sp[2]] != [0, 0xb2] or sp[2][0][1] != b"":
                    got = "unreadable" if sp is None or sp[2] is None else [hex(t) for t, _ in sp[2]]
                    return (f"{label}: request #{i} with CPF items {[hex(t) for t, _ in body['items']]} answered with "
                            f"status 0 and CPF items {got}: neither refused nor [null address, unconnected data]")
                if not reqs or not sp[2][1][1] or sp[2][1][1][0] != (reqs[0][0] | 0x80):
                    return f"{label}: request #{i} (CPF items {[hex(t) for t, _ in body['items']]}) answered with status 0 without its service code | 0x80"
                continue
            ended = True
            continue
        if kind == "reg":
            if r["status"] == 0:
                if r["sess"] == 0:
                    return f"{label}: Register Session (request #{i}) returned session handle 0"
            elif fr["status"] == 0 and enough:
                return f"{label}: Register Session (request #{i}) refused with status {r['status']:#x}"
        elif fr["status"] != 0:
            pass                     # a request whose own status field is set: the statement does not decide
        elif kind in ("ls", "li", "lf", "lg"):
            if r["status"] != 0:
                return f"{label}: {kind} request #{i} answered with status {r['status']:#x}"
        else:
            exp = expectation(case, body)
            svc = service_of(body)
            good = None
            if r["status"] == 0:
                sp = parse_send_payload(r["payload"])
                if sp is None or sp[2] is None:
                    good = "payload is not a SendRRData item list"
                elif [t for t, _ in sp[2]] != [0, 0xb2] or sp[2][0][1] != b"":
                    good = f"CPF items {[hex(t) for t, _ in sp[2]]} are not [null address, unconnected data]"
                elif not sp[2][1][1] or sp[2][1][1][0] != (svc | 0x80):
                    got = sp[2][1][1][:1].hex() or "nothing"
                    good = f"data item starts with {got}, not service {svc:#x} | 0x80"
                elif "req" in body and body["req"]["op"] == "mu":
                    good = bundle_problem(body["req"], sp[2][1][1])
            if exp == "refuse" and r["status"] == 0:
                return f"{label}: unsupported/unroutable request #{i} answered with encapsulation status 0"
            if exp == "reply" and r["status"] != 0:
                return f"{label}: supported request #{i} ({op_name(body)}) answered with status {r['status']:#x}"
            if r["status"] == 0 and good:
                return f"{label}: reply to request #{i}: {good}"
        if r["status"] != 0:
            ended = True
    if k < len(idx):
        return f"{label}: {len(idx) - k} replies beyond the requests"
    return None


class C06(Suite):
    id = "C06"
    props_module = "Cpppo.Props.C06"
    rule = ("exhaustive: every frame kind alone (3 route personalities), every ordered pair of 32 kinds, each kind under a "
            "request size limit of its payload length -1/0/+1; [Large] Forward Open / Forward Close in random sessions; random: "
            "devices of 1-5 tags, sessions of 1..40 requests of all kinds (Register, List*, Legacy, Read/Write Tag "
            "[Fragmented], Get/Set Attribute Single, Get Attributes All, Multiple Service Packets, direct and in an "
            "Unconnected Send, ~0-50% failing: unknown services, unknown targets, refused routes, bad send paths, "
            "malformed item lists, unknown commands, short Register, Unregister), random contexts/handles/status/"
            "options, scripted random source (zeros, duplicates, exhaustion); whole stream in one recv, one recv per "
            "frame, random recv boundaries, (thorough) a real socket pair; and frame by frame through logix.process. "
            "Routed: a UCMM routing table whose entry leads over real TCP to a server in this process; all sequences "
            "of up to three one-request connections over forwarded (good, failing) and local requests, pairs written "
            "together, random multi-connection sessions; attribute services to unknown objects bare and in bundles. "
            "non-trivial = >= 2 requests answered in a session that also contains a failing, unregistering or "
            "state-changing request; distinct by case")
    assumptions = ["frames are complete (segmentation and truncation are C02's subject); connections one after the other, "
                   "never concurrent (C09); forwarding one hop, with a timeout the route's device always meets",
                   "embedded requests address tag-holding objects or nothing that exists, or are the Connection Manager's own "
                   "[Large] Forward Open / Forward Close (other services of the built-in Identity/TCPIP/Connection "
                   "Manager objects and connected transport -- SendUnitData with a connection id -- are outside the "
                   "model); service codes < 0x80",
                   "the random source of session handles is modelled as an arbitrary stream (scripted in the check)"]
    trusted_extra = ["the byte encoding of request frames is done by the harness (by hand from the layout; the embedded "
                     "tag request by cpppo's Logix.produce); decoding of request bytes is not modelled (C01)"]

    def setup(self, tier, rng):
        # the unrepaired simulator (no isinstance check in UCMM.request) is compared with `serveOld`
        self.tier = tier

    def cases(self, tier, rng):
        for c in small_cases():
            yield c
        for c in routed_small_cases(full=(tier != "quick")):
            yield c
        n = 180 if tier == "quick" else 5000
        for _ in range(n):
            yield rand_case(rng, big=(tier == "thorough" and rng.random() < 0.1))
        for _ in range(40 if tier == "quick" else 500):
            yield rand_routed_case(rng)

    def search_cases(self, tier, rng):
        for c in small_cases():
            yield c
        for c in routed_small_cases():
            yield c
        for k in range(3000):
            yield rand_case(rng, nmax=12) if k % 4 else rand_routed_case(rng)

    def impl(self, c):
        nf = sum(len(f) for f in sessions_of(c))
        socks = getattr(self, "tier", "quick") == "thorough" and nf % 4 == 0
        return run_case(c, sockets=socks)

    def model_line(self, c):
        if "tagline" not in c:
            try:
                rig = Rig(c)
                rig.close()
            except Exception:
                return "srv-setup-failed"
        route = "*" if c["route"] is None else route_line(c["route"])
        routes = route_line(c.get("routes") or [])
        rand = ",".join(map(str, c["rand"])) if c["rand"] else "-"
        sessions = "!".join(";".join(frame_line(fr) for fr in frames) if frames else "-" for frames in sessions_of(c))
        size = "-" if c.get("size") is None else str(c["size"])
        return f"sess 1 {route} {routes} {size} {c.get('refusing', '-')} {c['budget']} {c['tagline']} {rand} {sessions}"

    def known_key(self, c):
        return json.dumps({"budget": c["budget"], "tags": c["tags"], "route": c["route"], "rand": c["rand"],
                           "routes": c.get("routes") or [], "size": c.get("size"), "sessions": sessions_of(c)},
                          sort_keys=True)

    def oracle(self, c, out):
        if out.startswith("harness-exception"):
            return out
        first, second, same = out.split(" || ")
        sessions = sessions_of(c)
        runs1, runs2 = first.split(" // "), second.split(" // ")
        if len(runs1) != len(sessions) or len(runs2) != len(sessions):
            return "harness: runs do not match the sessions"
        for j, frames in enumerate(sessions):
            where = f"connection #{j}: " if len(sessions) > 1 else ""
            r1, n1, e1 = parse_run(runs1[j])
            why = oracle_run(c, frames, r1, where + "all requests written before any reply is read")
            if why:
                return why
            r2, n2, e2 = parse_run(runs2[j])
            why = oracle_run(c, frames, r2, where + "one request at a time")
            if why:
                return why
            if r1 != r2:
                k = next((x for x, (a, b) in enumerate(zip(r1, r2)) if a != b), min(len(r1), len(r2)))
                return f"{where}reply #{k} differs between pipelined and one-at-a-time delivery"
        if same != "same":
            return f"replies depend on how the stream is delivered: {same[:200]}"
        return None

    def nontrivial(self, c, out):
        if out.startswith("harness-exception"):
            return None
        r1 = [b for run in out.split(" || ")[0].split(" // ") for b in parse_run(run)[0]]
        if len(r1) < 2:
            return None
        allf = [f for frames in sessions_of(c) for f in frames]
        kinds = {f["body"]["k"] for f in allf}
        ops = {f["body"]["req"]["op"] for f in allf if "req" in f["body"]}
        failing = any(decode_reply(b)["status"] for b in r1) or kinds & {"unreg", "xcmd", "regshort"}
        if failing or ops & {"wt", "wf", "ss", "mu"}:
            return self.known_key(c)
        return None

    def classify(self, c, out):
        if out.startswith("harness-exception"):
            return "harness-exception"
        sessions = sessions_of(c)
        if len(sessions) > 1 or c.get("routes"):
            nrouted = sum(1 for frames in sessions for f in frames
                          if f["body"]["k"] == "send" and f["body"]["wrap"] and f["body"]["wrap"]["route"]
                          and list(f["body"]["wrap"]["route"][0]) in [list(x) for x in c.get("routes") or []])
            nfail = sum(1 for run in out.split(" || ")[0].split(" // ") for b in parse_run(run)[0]
                        if decode_reply(b)["status"])
            return f"connections={min(len(sessions), 4)}{'+' if len(sessions) > 4 else ''} routed={min(nrouted, 5)} failed={min(nfail, 3)}"
        first = out.split(" || ")[0]
        r1, n, e = parse_run(first)
        nf = len(sessions[0])
        size = "1" if nf == 1 else "2" if nf == 2 else "3-8" if nf <= 8 else "9-20" if nf <= 20 else "21-40"
        last = "status" if r1 and decode_reply(r1[-1])["status"] else ("unreg" if e == "closed" else e)
        cuts = c.get("cuts", "one")
        return f"frames={size} end={last} recv={'cuts' if isinstance(cuts, list) else cuts}"

    def shrink(self, c):
        c = {k: v for k, v in c.items() if k not in ("tagline", "addrs", "refusing")}
        if "sessions" in c:
            ss = c["sessions"]
            for j in range(len(ss)):
                if len(ss) > 1:
                    yield dict(c, sessions=ss[:j] + ss[j + 1:])
            for j, fs in enumerate(ss):
                for sub in self.shrink_frames(fs):
                    if sub:
                        yield dict(c, sessions=ss[:j] + [sub] + ss[j + 1:])
            if len(ss) == 1 and not c.get("routes"):
                yield dict({k: v for k, v in c.items() if k not in ("sessions", "routes")}, frames=ss[0])
        else:
            for sub in self.shrink_frames(c["frames"]):
                if sub:
                    yield dict(c, frames=sub)
        if c.get("cuts", "one") != "one":
            yield dict(c, cuts="one")
        if len(c["tags"]) > 1:
            used = json.dumps(sessions_of(c)).lower()
            for i, t in enumerate(c["tags"]):
                if json.dumps(t["name"])[1:-1].lower() not in used:
                    yield dict(c, tags=c["tags"][:i] + c["tags"][i + 1:])

    @staticmethod
    def shrink_frames(fs):
        for i in range(len(fs)):
            if len(fs) > 1:
                yield fs[:i] + fs[i + 1:]
        for i, fr in enumerate(fs):
            b = fr["body"]
            if b["k"] == "send" and "req" in b and b["req"]["op"] == "mu" and len(b["req"]["reqs"]) > 1:
                for j in range(len(b["req"]["reqs"])):
                    nb = dict(b, req=dict(b["req"], reqs=b["req"]["reqs"][:j] + b["req"]["reqs"][j + 1:]))
                    yield fs[:i] + [dict(fr, body=nb)] + fs[i + 1:]
            if fr["opt"] or fr["status"]:
                yield fs[:i] + [dict(fr, opt=0, status=0)] + fs[i + 1:]
