"""
C06: exactly one matching reply per request, in request order -- the real `enip_srv_tcp` / `logix.process`
vs Cpppo.Session.serve (Lean).

A case = {"budget", "tags", "route", "rand", "cuts", "frames": [frame, …]}
  route  = None (UCMM.route_path None: any) | False | [[port, link], …]
  rand   = the values `random.randint` delivers to UCMM.request (Register Session)
  cuts   = "one" (the whole stream in one recv: every request is written before any reply is read)
         | "frames" (one recv per frame) | [offsets …] (arbitrary recv boundaries)
  frame  = {"sess", "status", "ctx": hex8, "opt", "body": body}
  body   = {"k": "reg", "proto", "opts", "extra": [bytes]} | {"k": "regshort", "data"} | {"k": "unreg", "data"}
         | {"k": "ls" | "li" | "lf" | "lg"} | {"k": "xcmd", "cmd", "data"}
         | {"k": "send", "unit", "iface", "timeout", "wrap": None | {"cls","ins","prio","ticks","route"}, "req": lgx request}
         | {"k": "send", …, "unk": {"code", "path", "tail": [bytes]}}
         | {"k": "items", "unit", "iface", "timeout", "items": [[type, [bytes]], …]}

The request frames are built by hand from the wire layout (the embedded tag request with cpppo's own
`Logix.produce`), served (A) by the real `enip_srv_tcp` over a scripted connection (all requests delivered before
any reply is read, or in the given recv pieces; thorough: also over a real socket pair), (B) frame by frame by
`logix.process` on an identically prepared device; the reply frames, the number of frames consumed, how the
session ended, `UCMM.sessions[addr]` and the bytes of every Attribute are compared with the model.
"""
import json
import logging
import socket
import struct
import threading

from framework import Suite
from corr import logix_common as lc
from corr import logix_gen as lg
from corr.c03 import rand_req

ADDR = ("127.0.0.1", 44444)
CMD = {"reg": 0x65, "regshort": 0x65, "unreg": 0x66, "ls": 0x04, "li": 0x63, "lf": 0x64, "lg": 0x01}
KNOWN_CMDS = (0x01, 0x04, 0x63, 0x64, 0x65, 0x66, 0x6f, 0x70)
SUPPORTED = (0x01, 0x03, 0x0a, 0x0e, 0x10, 0x4c, 0x4d, 0x52, 0x53)
SVC = {"rt": 0x4c, "rf": 0x52, "wt": 0x4d, "wf": 0x53, "gs": 0x0e, "ss": 0x10, "ga": 0x01, "mu": 0x0a}
CPF_KNOWN = (0x01, 0x0c, 0xa1, 0xb1, 0xb2, 0x100)


# --------------------------------------------------------------------------------------------------
# wire encoding of request frames (by hand, from the layout)
# --------------------------------------------------------------------------------------------------
def enc_seg(seg):
    k, v = seg
    if k == "s":
        b = v.encode("latin-1")
        return b"\x91" + bytes([len(b)]) + b + (b"\x00" if len(b) % 2 else b"")
    base = {"c": 0x20, "i": 0x24, "a": 0x30, "e": 0x28}[k]
    if v < 256:
        return bytes([base, v])
    if v < 65536:
        return bytes([base + 1, 0]) + struct.pack("<H", v)
    return bytes([base + 2, 0]) + struct.pack("<I", v)


def enc_epath(path):
    body = b"".join(enc_seg(s) for s in path)
    return bytes([len(body) // 2]) + body


def cip_bytes(body):
    """bytes of the embedded CIP request"""
    if "req" in body:
        from cpppo.server.enip import logix
        return bytes(logix.Logix.produce(lc.req_dotdict(body["req"])))
    u = body["unk"]
    return bytes([u["code"]]) + enc_epath(u["path"]) + bytes(u["tail"])


def wrap_bytes(wrap, cip):
    if wrap is None:
        return cip
    out = b"\x52" + enc_epath([["c", wrap["cls"]], ["i", wrap["ins"]]]) + bytes([wrap["prio"], wrap["ticks"]])
    out += struct.pack("<H", len(cip)) + cip + (b"\x00" if len(cip) % 2 else b"")
    out += bytes([len(wrap["route"]), 0]) + b"".join(bytes([p, l]) for p, l in wrap["route"])
    return out


def cpf_bytes(items):
    out = struct.pack("<H", len(items))
    for t, b in items:
        out += struct.pack("<HH", t, len(b)) + bytes(b)
    return out


def payload_bytes(body):
    k = body["k"]
    if k == "reg":
        return struct.pack("<HH", body["proto"], body["opts"]) + bytes(body["extra"])
    if k in ("regshort", "unreg", "xcmd"):
        return bytes(body["data"])
    if k in ("ls", "li", "lf", "lg"):
        return b""
    head = struct.pack("<IH", body["iface"], body["timeout"])
    if k == "send":
        return head + cpf_bytes([(0, b""), (0xb2, wrap_bytes(body["wrap"], cip_bytes(body)))])
    if k == "items":
        return head + cpf_bytes([(t, bytes(b)) for t, b in body["items"]])
    raise ValueError(k)


def command_of(body):
    k = body["k"]
    if k in CMD:
        return CMD[k]
    if k == "xcmd":
        return body["cmd"]
    return 0x70 if body["unit"] else 0x6f


def frame_bytes(fr):
    p = payload_bytes(fr["body"])
    return (struct.pack("<HHII", command_of(fr["body"]), len(p), fr["sess"], fr["status"]) + bytes.fromhex(fr["ctx"])
            + struct.pack("<I", fr["opt"]) + p)


# --------------------------------------------------------------------------------------------------
# the same description for the Lean driver
# --------------------------------------------------------------------------------------------------
def route_line(route):
    return ",".join(f"{p}:{l}" for p, l in route) if route else "-"


def body_line(body):
    k = body["k"]
    if k == "reg":
        return f"R^{body['proto']}^{body['opts']}^{lc.hexs(bytes(body['extra']))}"
    if k == "regshort":
        return f"Rs^{lc.hexs(bytes(body['data']))}"
    if k == "unreg":
        return f"U^{lc.hexs(bytes(body['data']))}"
    if k in ("ls", "li", "lf", "lg"):
        return {"ls": "LS", "li": "LI", "lf": "LF", "lg": "LG"}[k]
    if k == "xcmd":
        return f"X^{body['cmd']}^{lc.hexs(bytes(body['data']))}"
    head = f"{1 if body['unit'] else 0}^{body['iface']}^{body['timeout']}"
    if k == "items":
        items = ",".join(f"{t}:{lc.hexs(bytes(b))}" for t, b in body["items"]) if body["items"] else "-"
        return f"B^{head}^{items}"
    w = body["wrap"]
    wl = "d" if w is None else f"u_{w['cls']}_{w['ins']}_{w['prio']}_{w['ticks']}_{route_line(w['route'])}"
    raw = lc.hexs(cip_bytes(body))
    if "req" in body:
        return f"S^{head}^{wl}^q^{raw}^{lc.req_line(body['req'])}"
    u = body["unk"]
    return f"S^{head}^{wl}^k^{u['code']}^{lc.path_line(u['path'])}^{raw}"


def frame_line(fr):
    return f"{fr['sess']}~{fr['status']}~{fr['ctx']}~{fr['opt']}~{body_line(fr['body'])}"


# --------------------------------------------------------------------------------------------------
# driving the real code
# --------------------------------------------------------------------------------------------------
class ScriptedRandom:
    """stands in for the `random` module inside cpppo.server.enip.ucmm"""

    def __init__(self, values):
        self.values = list(values)

    def randint(self, lo, hi):
        return self.values.pop(0)      # IndexError when the script is exhausted


class FakeConn:
    def __init__(self, chunks):
        self.chunks = list(chunks)
        self.sent = []
        self.eof_delivered = False

    def send(self, b):
        self.sent.append(bytes(b))
        return len(b)

    def close(self):
        pass


def split_frames(stream):
    """reply frames in a byte stream (by the length field)"""
    out = []
    while stream:
        n = 24 + struct.unpack("<H", stream[2:4])[0]
        out.append(stream[:n])
        stream = stream[n:]
    return out


class Rig:
    """the real simulator prepared for one case: tags, UCMM personality, scripted random source"""

    def __init__(self, case):
        import cpppo
        from cpppo.server import network
        from cpppo.server.enip import main as emain, logix, ucmm, parser
        self.cpppo, self.network, self.emain, self.logix, self.ucmm, self.parser = cpppo, network, emain, logix, ucmm, parser
        self.dev = lc.Device(case)           # device.lookup_reset(); logix.setup_reset(); logix.setup( tags )
        case["addrs"] = {k: list(v) for k, v in self.dev.addrs.items()}
        case["tagline"] = self.dev.tag_line(case)
        logix.setup_reset()                  # the UCMM is created by the first process(), as main() arranges it
        route = case["route"]
        if route is None:
            self.ucmm_class = ucmm.UCMM
        else:
            rp = [{"port": p, "link": l} for p, l in route] if route else False
            self.ucmm_class = type("UCMM_routed", (ucmm.UCMM,), {"route_path": rp})
        ucmm.UCMM.sessions.clear()
        self.saved_random = ucmm.random
        ucmm.random = ScriptedRandom(case["rand"])
        self.saved_recv = network.recv
        emain.connections.clear()
        control = cpppo.apidict(timeout=1.0)
        control["done"] = False
        control["disable"] = False
        control["latency"] = 0.01
        self.kwds = {"server": cpppo.dotdict({"control": control}), "UCMM_class": self.ucmm_class}

    def close(self):
        self.ucmm.random = self.saved_random
        self.network.recv = self.saved_recv
        self.dev.close()

    def tail(self):
        sess = self.ucmm.UCMM.sessions.get(ADDR)
        return f"s={'-' if sess is None else sess} d={self.dev.dump()}"

    def tcp(self, chunks):
        """enip_srv_tcp over a scripted connection -> (reply frames, requests, end)"""
        conn = FakeConn(chunks)

        def fake_recv(c, maxlen=4096, timeout=0):
            if c.chunks:
                return c.chunks.pop(0)
            c.eof_delivered = True
            return b""
        self.network.recv = fake_recv
        stats, _key = self.emain.stats_for(ADDR)
        end = None
        try:
            self.emain.enip_srv_tcp(conn, ADDR, "enip_c06", self.logix.process, **self.kwds)
        except Exception:
            end = "aborted"
        if end is None:
            end = "open" if conn.eof_delivered else "closed"
        return conn.sent, stats["requests"], end

    def sockets(self, stream):
        """enip_srv_tcp on a thread over a real socket pair: everything written, then the replies read"""
        self.network.recv = self.saved_recv
        a, b = socket.socketpair()
        box = {}

        def run():
            try:
                self.emain.enip_srv_tcp(b, ADDR, "enip_c06s", self.logix.process, **self.kwds)
                box["end"] = "ok"
            except Exception:
                box["end"] = "aborted"
            finally:
                b.close()
        stats, _key = self.emain.stats_for(ADDR)
        t = threading.Thread(target=run, daemon=True)
        t.start()
        try:
            a.sendall(stream)        # every request is written (and the write side shut) before any reply is read
            a.shutdown(socket.SHUT_WR)
        except OSError:              # the server has already ended the session and closed
            pass
        got = b""
        a.settimeout(20)
        while True:
            try:
                blk = a.recv(65536)
            except ConnectionResetError:     # the server closed with requests still unread (session ended early)
                break
            if not blk:
                break
            got += blk
        t.join(20)
        a.close()
        return split_frames(got), stats["requests"], box.get("end", "hung")

    def single(self, frames):
        """logix.process frame by frame, doing what enip_srv_tcp does around it"""
        cpppo, parser = self.cpppo, self.parser
        sent, n, end = [], 0, "open"
        for fb in frames:
            data = cpppo.dotdict()
            with parser.enip_machine(context="enip") as machine:
                for _m, _s in machine.run(path="request", source=cpppo.peekable(fb), data=data):
                    pass
            n += 1
            try:
                proceed = self.logix.process(ADDR, data=data, **self.kwds)
            except Exception:
                self.logix.process(ADDR, data=cpppo.dotdict())
                end = "aborted"
                break
            if not proceed:
                end = "closed"
                break
            if not data.response.enip.get("input") and not data.response.enip.status:
                end = "aborted"         # enip_srv_tcp asserts and drops the connection
                break
            sent.append(bytes(parser.enip_encode(data.response.enip)))
            if data.response.enip.status:
                end = "closed"
                break
        return sent, n, end


def show_run(sent, n, end, tail):
    return f"{','.join(s.hex() for s in sent) if sent else '-'} n={n} e={end} {tail}"


def chunks_of(case, frames):
    stream = b"".join(frames)
    cuts = case.get("cuts", "one")
    if cuts == "one":
        return [stream]
    if cuts == "frames":
        return list(frames)
    pts = sorted({c for c in cuts if 0 < c < len(stream)})
    return [stream[a:b] for a, b in zip([0] + pts, pts + [len(stream)])]


def run_case(case, sockets=False):
    logging.disable(logging.CRITICAL)
    frames = [frame_bytes(fr) for fr in case["frames"]]
    rig = Rig(case)
    try:
        sent, n, end = rig.tcp([b"".join(frames)])
        first = show_run(sent, n, end, rig.tail())
    finally:
        rig.close()
    rig = Rig(case)
    try:
        second = show_run(*rig.single(frames), rig.tail())
    finally:
        rig.close()
    # other deliveries of the same stream must give the same replies
    modes = []
    if case.get("cuts", "one") != "one":
        modes.append("cuts")
    if sockets:
        modes.append("sockets")
    same = "same"
    for m in modes:
        rig = Rig(case)
        try:
            if m == "cuts":
                s2, n2, e2 = rig.tcp(chunks_of(case, frames))
            else:
                s2, n2, e2 = rig.sockets(b"".join(frames))
                e2 = end if e2 == "ok" else e2
            other = show_run(s2, n2, e2, rig.tail())
        finally:
            rig.close()
        if other != first:
            same = f"{m}-differs:{other}"
            break
    return f"{first} || {second} || {same}"


# --------------------------------------------------------------------------------------------------
# generators
# --------------------------------------------------------------------------------------------------
def rand_ctx(rng, used):
    while True:
        r = rng.random()
        if r < 0.1:
            c = bytes([rng.choice([0, 0xff, 0x80])] * 7 + [len(used) & 0xff])
        elif r < 0.2:
            c = str(len(used)).encode().ljust(8, b"\0")          # as cpppo's client numbers them
        else:
            c = bytes(rng.randrange(256) for _ in range(8))
        if c.hex() not in used:
            used.add(c.hex())
            return c.hex()


def rand_sess(rng):
    return rng.choice([0, 1, 0xffffffff, 0x80000000, rng.randrange(1 << 32), rng.randrange(1 << 32)])


def rand_wrap(rng, route_cfg, bad_route=0.04, bad_target=0.04):
    if rng.random() < 0.3:
        return None
    r = rng.random()
    if route_cfg and r < 0.6:
        route = [list(s) for s in route_cfg]
    elif r < 0.75:
        route = []
    else:
        route = [[1, 0]]
    if rng.random() < bad_route:
        route = rng.choice([[[1, 1]], [[2, 0]], [[1, 0], [2, 3]], [[14, 255]]])
    cls, ins = 6, 1
    if rng.random() < bad_target:
        cls, ins = rng.choice([(2, 1), (2, 1), (2, 0), (6, 0), (1, 1), (0x66, 1), (9, 9), (0x93, 1), (6, 2)])
    return {"cls": cls, "ins": ins, "prio": rng.choice([5, 1, 0, 10]), "ticks": rng.choice([157, 250, 0, 255]),
            "route": route}


def rand_unknown(rng, tags):
    code = rng.choice([c for c in range(0x80) if c not in SUPPORTED])
    t = rng.choice(tags)
    path = rng.choice([[["c", 2], ["i", 1]], [["s", t["name"]]], [["c", 2], ["i", 1], ["a", 1]], [["s", "nosuch"]]])
    return {"code": code, "path": path, "tail": [rng.randrange(256) for _ in range(rng.choice([0, 0, 2, 4, 7]))]}


def rand_send(rng, tags, route_cfg, fail):
    body = {"k": "send", "unit": rng.random() < 0.05, "iface": rng.choice([0, 0, 0, 7]),
            "timeout": rng.choice([5, 0, 65535]), "wrap": rand_wrap(rng, route_cfg, fail * 0.25, fail * 0.25)}
    r = rng.random()
    if r < fail * 0.25:
        body["unk"] = rand_unknown(rng, tags)
        return body
    if r < fail * 0.5:
        body["req"] = rng.choice([
            {"op": "rt", "path": [["s", "nosuch"]], "n": 1},
            {"op": "wt", "path": [["c", 9], ["i", 9], ["a", 1]], "ty": 0xc3, "n": 1, "vals": [1]},
            {"op": "gs", "path": [["c", 0x93], ["i", 7], ["a", 1]]},
            {"op": "rt", "path": [["s", "A"], ["s", "nosuch"]], "n": 1},
            {"op": "mu", "path": [["c", 2], ["i", 9]], "reqs": [{"op": "rt", "path": [["s", tags[0]["name"]]], "n": 1}]},
        ])
        return body
    body["req"] = rand_req(rng, tags, multi=True, invalid=0.2)
    if body["req"]["op"] == "rf" and body["wrap"] is None:      # a bare 0x52 is read as an Unconnected Send
        body["wrap"] = {"cls": 6, "ins": 1, "prio": 5, "ticks": 157, "route": []}
    return body


def rand_items(rng):
    n = rng.choice([0, 1, 1, 2, 3])
    items = []
    for _ in range(n):
        t = rng.choice([0, 0, 0x1234, 0xb3, 0x8000])
        items.append([t, [rng.randrange(256) for _ in range(rng.choice([0, 0, 3, 6]))]])
    return {"k": "items", "unit": False, "iface": 0, "timeout": 5, "items": items}


def rand_frame(rng, tags, route_cfg, used, fail, end):
    r = rng.random()
    sess = rand_sess(rng)
    status = 0 if rng.random() > fail * 0.15 else rng.choice([1, 7, 8, 0x65, 0x10000])
    opt = 0 if rng.random() < 0.85 else rng.choice([1, 0xffffffff, 9])
    if r < 0.08:
        body = {"k": "reg", "proto": rng.choice([1, 1, 2, 0]), "opts": rng.choice([0, 0, 7]),
                "extra": [] if rng.random() < 0.9 else [1, 2, 3]}
    elif r < 0.08 + end:
        body = {"k": "unreg", "data": [] if rng.random() < 0.8 else [0]}
    elif r < 0.2:
        body = {"k": rng.choice(["ls", "li", "lf", "lg"])}
    elif r < 0.2 + fail * 0.12:
        body = rng.choice([
            {"k": "xcmd", "cmd": rng.choice([0, 2, 0x67, 0x72, 0x99, 0xffff]),
             "data": [rng.randrange(256) for _ in range(rng.choice([0, 0, 3]))]},
            {"k": "regshort", "data": [1, 0, 0][:rng.randrange(4)]},
            rand_items(rng)])
    else:
        body = rand_send(rng, tags, route_cfg, fail)
    return {"sess": sess, "status": status, "ctx": rand_ctx(rng, used), "opt": opt, "body": body}


def rand_case(rng, nmax=40, big=False):
    tags = lg.rand_tags(rng, big=big)
    route = rng.choice([None, None, None, False, [[1, 0]], [[1, 0]], [[2, 5]], [[1, 0], [2, 3]]])
    fail = rng.choice([0.0, 0.05, 0.05, 0.15, 0.5])
    end = rng.choice([0.0, 0.0, 0.02, 0.1])
    n = rng.choice([1, 2, 3, 5, 8, 13, 20, 40, rng.randint(1, nmax)])
    n = min(n, nmax)
    used = set()
    frames = []
    if rng.random() < 0.7:
        frames.append({"sess": 0, "status": 0, "ctx": rand_ctx(rng, used), "opt": 0,
                       "body": {"k": "reg", "proto": 1, "opts": 0, "extra": []}})
    while len(frames) < n:
        frames.append(rand_frame(rng, tags, route, used, fail, end))
    nreg = sum(1 for f in frames if f["body"]["k"] == "reg")
    rand = []
    for _ in range(nreg):
        while rng.random() < 0.2:
            rand.append(0)
        rand.append(rng.choice([1, 0xffffffff, rng.randrange(1, 1 << 32), rng.randrange(1, 1 << 32)]))
    if rand and rng.random() < 0.15:
        rand[-1] = rand[0]                 # a handle drawn twice
    if rand and rng.random() < 0.05:
        rand = [0] * rng.randint(0, 2)     # the random source runs dry
    cuts = rng.choice(["one", "one", "one", "frames", "rand"])
    if cuts == "rand":
        total = sum(len(frame_bytes(f)) for f in frames)
        cuts = sorted(rng.randrange(1, max(total, 2)) for _ in range(rng.randint(1, 6)))
    return {"budget": rng.choice([488, 488, 488, 100, 24]), "tags": tags, "route": route, "rand": rand, "cuts": cuts,
            "frames": frames}


def small_cases():
    """every frame kind alone and every ordered pair of kinds, on a fixed device"""
    tags = [{"name": "A", "type": "INT", "len": 4, "addr": None},
            {"name": "B", "type": "DINT", "len": 1, "addr": [0x93, 1, 2]}]
    usend = {"cls": 6, "ins": 1, "prio": 5, "ticks": 157, "route": [[1, 0]]}

    def send(req=None, unk=None, wrap=usend, unit=False):
        b = {"k": "send", "unit": unit, "iface": 0, "timeout": 5, "wrap": wrap}
        if req is not None:
            b["req"] = req
        else:
            b["unk"] = unk
        return b
    rdA = {"op": "rt", "path": [["s", "A"]], "n": 2}
    kinds = {
        "reg": {"k": "reg", "proto": 1, "opts": 0, "extra": []},
        "unreg": {"k": "unreg", "data": []},
        "ls": {"k": "ls"}, "li": {"k": "li"}, "lf": {"k": "lf"}, "lg": {"k": "lg"},
        "rt": send(rdA), "rt-direct": send(rdA, wrap=None), "rt-unit": send(rdA, unit=True),
        "rf": send({"op": "rf", "path": [["s", "A"], ["e", 1]], "n": 3, "off": 2}),
        "wt": send({"op": "wt", "path": [["s", "a"]], "ty": 0xc3, "n": 2, "vals": [-7, 9]}),
        "wf": send({"op": "wf", "path": [["s", "B"]], "ty": 0xc4, "n": 1, "off": 0, "vals": [123456]}),
        "gs": send({"op": "gs", "path": [["c", 0x93], ["i", 1], ["a", 2]]}),
        "ss": send({"op": "ss", "path": [["c", 0x93], ["i", 1], ["a", 2]], "data": [1, 2, 3, 4]}),
        "ga": send({"op": "ga", "path": [["c", 2], ["i", 1]]}),
        "mu": send({"op": "mu", "path": [["c", 2], ["i", 1]], "reqs": [rdA, {"op": "wt", "path": [["s", "A"], ["e", 3]],
                                                                            "ty": 0xc3, "n": 1, "vals": [5]}]}),
        "rt-range": send({"op": "rt", "path": [["s", "A"], ["e", 9]], "n": 1}),
        "rt-nosuch": send({"op": "rt", "path": [["s", "nosuch"]], "n": 1}),
        "unk-svc": send(unk={"code": 0x77, "path": [["c", 2], ["i", 1]], "tail": [1, 0]}),
        "bad-route": send(rdA, wrap=dict(usend, route=[[1, 1]])),
        "empty-route": send(rdA, wrap=dict(usend, route=[])),
        "usend-router": send(rdA, wrap=dict(usend, cls=2)),
        "usend-identity": send(rdA, wrap=dict(usend, cls=1)),
        "usend-none": send(rdA, wrap=dict(usend, cls=9, ins=9)),
        "items-1": {"k": "items", "unit": False, "iface": 0, "timeout": 5, "items": [[0, []]]},
        "items-0": {"k": "items", "unit": False, "iface": 0, "timeout": 5, "items": []},
        "xcmd": {"k": "xcmd", "cmd": 0x99, "data": []},
        "nop": {"k": "xcmd", "cmd": 0, "data": [1, 2]},
        "regshort": {"k": "regshort", "data": [1, 0]},
    }

    def frame(i, body, status=0):
        return {"sess": 0x11220000 + i, "status": status, "ctx": bytes([0xA0 + i] * 8).hex(), "opt": 0, "body": body}
    for route in (None, [[1, 0]], False):
        for ka, a in kinds.items():
            yield {"budget": 488, "tags": tags, "route": route, "rand": [0, 77, 0, 78], "cuts": "one",
                   "frames": [frame(0, a)]}
    names = list(kinds)
    for ka in names:
        for kb in names:
            yield {"budget": 488, "tags": tags, "route": [[1, 0]], "rand": [0, 77, 77], "cuts": "one",
                   "frames": [frame(0, kinds[ka]), frame(1, kinds[kb])]}
    for ka in ("ls", "rt", "reg", "unk-svc", "unreg"):
        yield {"budget": 488, "tags": tags, "route": None, "rand": [5], "cuts": "one",
               "frames": [frame(0, kinds[ka], status=7), frame(1, kinds["rt"])]}


# --------------------------------------------------------------------------------------------------
# the property oracle (from the statement; independent of the Lean model)
# --------------------------------------------------------------------------------------------------
def parse_run(s):
    reps, n, e, sess, dump = s.split(" ")
    frames = [] if reps == "-" else [bytes.fromhex(h) for h in reps.split(",")]
    return frames, int(n[2:]), e[2:]


def decode_reply(b):
    cmd, ln, sess, status = struct.unpack("<HHII", b[:12])
    return {"cmd": cmd, "len": ln, "sess": sess, "status": status, "ctx": b[12:20].hex(),
            "opt": struct.unpack("<I", b[20:24])[0], "payload": b[24:]}


def parse_send_payload(p):
    """-> (iface, timeout, [(type, data)…]) or None"""
    if len(p) < 8:
        return None
    iface, timeout, count = struct.unpack("<IHH", p[:8])
    items, pos = [], 8
    for _ in range(count):
        if pos + 4 > len(p):
            return None
        t, n = struct.unpack("<HH", p[pos:pos + 4])
        if pos + 4 + n > len(p):
            return None
        items.append((t, p[pos + 4:pos + 4 + n]))
        pos += 4 + n
    return iface, timeout, items if pos == len(p) else None


def expectation(case, body):
    """what the statement requires of a SendRRData request: 'reply' (supported service over an acceptable route),
    'refuse' (unsupported service / refused route path), 'either' (the statement does not decide)"""
    w = body["wrap"]
    exp = "reply"
    if w is not None:
        cfg = case["route"]
        if cfg is not None and w["route"] and [list(s) for s in (cfg or [])] != [list(s) for s in w["route"]]:
            return "refuse"
        if w["cls"] != 6:
            # an Unconnected Send is a service of the Connection Manager: to any other Object it cannot be routed
            return "refuse"
        if w["ins"] != 1:
            exp = "either"       # the class-level instance, or an instance that may not exist
    if "unk" in body:
        return "refuse"
    # a known service is a supported request whatever its own path names: an unknown Tag / Object is answered
    # by the Message Router with a CIP failure status inside a normal reply (service | 0x80, encapsulation status 0)
    return exp


def oracle_run(case, replies, label):
    frames = case["frames"]
    by_ctx = {fr["ctx"]: i for i, fr in enumerate(frames)}
    decoded = [decode_reply(b) for b in replies]
    idx = []
    for k, r in enumerate(decoded):
        if r["len"] != len(r["payload"]):
            return f"{label}: reply #{k} length field {r['len']} != payload {len(r['payload'])}"
        if r["ctx"] not in by_ctx:
            return f"{label}: reply #{k} carries sender context {r['ctx']} of no request"
        idx.append(by_ctx[r["ctx"]])
    for k in range(1, len(idx)):
        if idx[k] == idx[k - 1]:
            return f"{label}: request #{idx[k]} answered twice"
        if idx[k] < idx[k - 1]:
            return f"{label}: reply to request #{idx[k]} sent after the reply to request #{idx[k - 1]}"
    k = 0
    ended = False        # the session may have ended (after a non-zero status / an unparsable frame)
    nonzero = [v for v in case["rand"] if v]
    regs = 0
    for i, fr in enumerate(frames):
        body = fr["body"]
        kind = body["k"]
        mine = k < len(idx) and idx[k] == i
        if kind == "unreg":
            if mine:
                return f"{label}: Unregister Session (request #{i}) was answered"
            if k < len(idx):
                return f"{label}: reply to request #{idx[k]} after Unregister Session (request #{i})"
            return None
        # frames outside the simulator's grammar: the statement speaks of well-formed requests only
        malformed = kind in ("regshort", "xcmd", "items")
        if not mine:
            if k == len(idx) and (ended or malformed):
                return None          # nothing more was sent: the session was over
            if malformed:
                ended = True
                continue
            return f"{label}: request #{i} ({kind}) got no reply" + (
                f" (next reply answers #{idx[k]})" if k < len(idx) else "")
        r = decoded[k]
        k += 1
        if r["cmd"] != command_of(body):
            return f"{label}: reply to #{i} has command {r['cmd']:#x}, request {command_of(body):#x}"
        if kind != "reg" and r["sess"] != fr["sess"]:
            return f"{label}: reply to #{i} has session handle {r['sess']:#x}, request {fr['sess']:#x}"
        if malformed:
            if r["status"] == 0:
                return f"{label}: unparsable request #{i} answered with status 0"
            ended = True
            continue
        if kind == "reg":
            regs += 1
            if r["status"] == 0:
                if r["sess"] == 0:
                    return f"{label}: Register Session (request #{i}) returned session handle 0"
            elif fr["status"] == 0 and regs <= len(nonzero):
                return f"{label}: Register Session (request #{i}) refused with status {r['status']:#x}"
        elif fr["status"] != 0:
            pass                     # a request whose own status field is set: the statement does not decide
        elif kind in ("ls", "li", "lf", "lg"):
            if r["status"] != 0:
                return f"{label}: {kind} request #{i} answered with status {r['status']:#x}"
        else:
            exp = expectation(case, body)
            svc = body["unk"]["code"] if "unk" in body else SVC[body["req"]["op"]]
            good = None
            if r["status"] == 0:
                sp = parse_send_payload(r["payload"])
                if sp is None or sp[2] is None:
                    good = "payload is not a SendRRData item list"
                elif [t for t, _ in sp[2]] != [0, 0xb2] or sp[2][0][1] != b"":
                    good = f"CPF items {[hex(t) for t, _ in sp[2]]} are not [null address, unconnected data]"
                elif not sp[2][1][1] or sp[2][1][1][0] != (svc | 0x80):
                    got = sp[2][1][1][:1].hex() or "nothing"
                    good = f"data item starts with {got}, not service {svc:#x} | 0x80"
            if exp == "refuse" and r["status"] == 0:
                return f"{label}: unsupported/unroutable request #{i} answered with encapsulation status 0"
            if exp == "reply" and r["status"] != 0:
                return f"{label}: supported request #{i} ({body['req']['op']}) answered with status {r['status']:#x}"
            if r["status"] == 0 and good:
                return f"{label}: reply to request #{i}: {good}"
        if r["status"] != 0:
            ended = True
    if k < len(idx):
        return f"{label}: {len(idx) - k} replies beyond the requests"
    return None


class C06(Suite):
    id = "C06"
    props_module = "Cpppo.Props.C06"
    rule = ("exhaustive: every frame kind alone (3 route personalities) and every ordered pair of 29 kinds; random: "
            "devices of 1-5 tags, sessions of 1..40 requests of all kinds (Register, List*, Legacy, Read/Write Tag "
            "[Fragmented], Get/Set Attribute Single, Get Attributes All, Multiple Service Packets, direct and in an "
            "Unconnected Send, ~0-50% failing: unknown services, unknown targets, refused routes, bad send paths, "
            "malformed item lists, unknown commands, short Register, Unregister), random contexts/handles/status/"
            "options, scripted random source (zeros, duplicates, exhaustion); whole stream in one recv, one recv per "
            "frame, random recv boundaries, (thorough) a real socket pair; and frame by frame through logix.process. "
            "non-trivial = >= 2 requests answered in a session that also contains a failing, unregistering or "
            "state-changing request; distinct by case")
    assumptions = ["frames are complete (segmentation and truncation are C02's subject); one connection (C09)",
                   "embedded requests address tag-holding objects or nothing that exists (built-in Identity/TCPIP/Connection "
                   "Manager services, Forward Open and connected (SendUnitData with a connection id) transport are "
                   "outside the model); service codes < 0x80",
                   "the random source of session handles is modelled as an arbitrary stream (scripted in the check)"]
    trusted_extra = ["the byte encoding of request frames is done by the harness (by hand from the layout; the embedded "
                     "tag request by cpppo's Logix.produce); decoding of request bytes is not modelled (C01)"]

    def setup(self, tier, rng):
        # the unrepaired simulator (no isinstance check in UCMM.request) is compared with `serveOld`
        self.tier = tier

    def cases(self, tier, rng):
        for c in small_cases():
            yield c
        n = 260 if tier == "quick" else 6000
        for _ in range(n):
            yield rand_case(rng, big=(tier == "thorough" and rng.random() < 0.1))

    def search_cases(self, tier, rng):
        for c in small_cases():
            yield c
        for _ in range(3000):
            yield rand_case(rng, nmax=12)

    def impl(self, c):
        socks = getattr(self, "tier", "quick") == "thorough" and len(c["frames"]) % 4 == 0
        return run_case(c, sockets=socks)

    def model_line(self, c):
        if "tagline" not in c:
            try:
                rig = Rig(c)
                rig.close()
            except Exception:
                return "srv-setup-failed"
        route = "*" if c["route"] is None else route_line(c["route"])
        rand = ",".join(map(str, c["rand"])) if c["rand"] else "-"
        frames = ";".join(frame_line(fr) for fr in c["frames"]) if c["frames"] else "-"
        return f"sess 1 {route} {c['budget']} {c['tagline']} {rand} {frames}"

    def known_key(self, c):
        return json.dumps({k: c[k] for k in ("budget", "tags", "route", "rand", "frames")}, sort_keys=True)

    def oracle(self, c, out):
        if out.startswith("harness-exception"):
            return out
        first, second, same = out.split(" || ")
        r1, n1, e1 = parse_run(first)
        why = oracle_run(c, r1, "all requests written before any reply is read")
        if why:
            return why
        r2, n2, e2 = parse_run(second)
        why = oracle_run(c, r2, "one request at a time")
        if why:
            return why
        if r1 != r2:
            k = next((j for j, (a, b) in enumerate(zip(r1, r2)) if a != b), min(len(r1), len(r2)))
            return f"reply #{k} differs between pipelined and one-at-a-time delivery"
        if same != "same":
            return f"replies depend on how the stream is delivered: {same[:200]}"
        return None

    def nontrivial(self, c, out):
        if out.startswith("harness-exception"):
            return None
        r1, _n, _e = parse_run(out.split(" || ")[0])
        if len(r1) < 2:
            return None
        kinds = {f["body"]["k"] for f in c["frames"]}
        ops = {f["body"]["req"]["op"] for f in c["frames"] if "req" in f["body"]}
        failing = any(decode_reply(b)["status"] for b in r1) or kinds & {"unreg", "xcmd", "regshort"}
        if failing or ops & {"wt", "wf", "ss", "mu"}:
            return self.known_key(c)
        return None

    def classify(self, c, out):
        if out.startswith("harness-exception"):
            return "harness-exception"
        first = out.split(" || ")[0]
        r1, n, e = parse_run(first)
        nf = len(c["frames"])
        size = "1" if nf == 1 else "2" if nf == 2 else "3-8" if nf <= 8 else "9-20" if nf <= 20 else "21-40"
        last = "status" if r1 and decode_reply(r1[-1])["status"] else ("unreg" if e == "closed" else e)
        cuts = c.get("cuts", "one")
        return f"frames={size} end={last} recv={'cuts' if isinstance(cuts, list) else cuts}"

    def shrink(self, c):
        fs = c["frames"]
        for i in range(len(fs)):
            if len(fs) > 1:
                yield dict(c, frames=fs[:i] + fs[i + 1:])
        if c.get("cuts", "one") != "one":
            yield dict(c, cuts="one")
        for i, fr in enumerate(fs):
            b = fr["body"]
            if b["k"] == "send" and "req" in b and b["req"]["op"] == "mu" and len(b["req"]["reqs"]) > 1:
                for j in range(len(b["req"]["reqs"])):
                    nb = dict(b, req=dict(b["req"], reqs=b["req"]["reqs"][:j] + b["req"]["reqs"][j + 1:]))
                    yield dict(c, frames=fs[:i] + [dict(fr, body=nb)] + fs[i + 1:])
            if fr["opt"] or fr["status"]:
                yield dict(c, frames=fs[:i] + [dict(fr, opt=0, status=0)] + fs[i + 1:])
        if len(c["tags"]) > 1:
            used = json.dumps(fs).lower()
            for i, t in enumerate(c["tags"]):
                if json.dumps(t["name"])[1:-1].lower() not in used:
                    yield dict(c, tags=c["tags"][:i] + c["tags"][i + 1:])
