"""C16: dotdict.py (dotdict_base)  vs  Cpppo.Dotdict (Lean).

A case is a sequence of operations on two dotdict slots (slot 1 is filled by copy/deepcopy); both
sides answer `res~dump0~dump1|...` (result of every operation and the raw structure of both slots
after it).  `eval` inside dotdict is spied on: an expression that is not a literal index ends the
case with `oom` on both sides (the model says the same when its `eval` meets such a text).

The oracle (class Spec + the generic checks in `Runner`) is written from the property statement and
knows nothing of the Lean model: its own stack normaliser for dotted paths, its own nested
dict/list tree, its own leaf-path enumeration, object identities for copy independence.
"""
import ast
import copy
import importlib
import json
import keyword
import re
import sys
import warnings

from framework import Suite

INT = r"-?(?:0|[1-9][0-9]*)"
RE_SEG_EVAL = re.compile(r"^([A-Za-z_][A-Za-z0-9_]*)(?:\[" + INT + r"\])+$")
RE_FINAL_IDX = re.compile(r"^ *" + INT + r"(?:\]\[ *" + INT + r")*$")
RE_COMP = re.compile(r"([A-Za-z_][A-Za-z0-9_]*)((?:\[" + INT + r"\])*)")
RE_IDENT = re.compile(r"^[A-Za-z_][A-Za-z0-9_]*$")

# from the class docstring: names of the dict interface that may not be used as keys
RESERVED = {"clear", "copy", "get", "set", "items", "iteritems", "iterkeys", "itervalues", "listitems",
            "listkeys", "listvalues", "keys", "values", "pop", "popitem", "setdefault", "update"}

ERRS = {KeyError: "!key", AttributeError: "!attr", TypeError: "!type", IndexError: "!index",
        NameError: "!name", ValueError: "!value", SyntaxError: "!syntax"}


class OutOfModel(BaseException):
    """eval was asked for something outside the modelled index expressions"""


def _attr_blacklist():
    d = mod().dotdict
    return {a for t in (int, list, d) for a in dir(t)}


_RECOGNISED = {}


class ExprRecogniser:
    """the index expressions the Lean model evaluates (same grammar as `pExpr` in Model/Dotdict.lean):
    expr := term (('+'|'-') term)* ; term := '-'? atom ; atom := INT | IDENT ('[' expr ']' | '.' IDENT)*"""
    START = "ABCDEFGHIJKLMNOPQRSTUVWXYZabcdefghijklmnopqrstuvwxyz_"
    DIGITS = "0123456789"

    def __init__(self, text, blacklist):
        self.t, self.i, self.black = text, 0, blacklist

    def peek(self):
        return self.t[self.i] if self.i < len(self.t) else None

    def whole(self):
        return self.expr() and self.i == len(self.t)

    def expr(self):
        if not self.term():
            return False
        while self.peek() in ("+", "-"):
            self.i += 1
            if not self.term():
                return False
        return True

    def term(self):
        while self.peek() == " ":
            self.i += 1
        if self.peek() == "-":
            self.i += 1
        return self.atom()

    def ident(self):
        j = self.i
        while j < len(self.t) and (self.t[j] in self.START or self.t[j] in self.DIGITS):
            j += 1
        word, self.i = self.t[self.i:j], j
        return word

    def atom(self):
        c = self.peek()
        if c is None:
            return False
        if c in self.DIGITS:
            j = self.i
            while j < len(self.t) and self.t[j] in self.DIGITS:
                j += 1
            digits, self.i = self.t[self.i:j], j
            return digits == "0" or digits[0] != "0"
        if c in self.START:
            word = self.ident()
            if keyword.iskeyword(word) or word in ("None", "True", "False"):
                return False
            return self.post()
        return False

    def post(self):
        while True:
            c = self.peek()
            if c == "[":
                self.i += 1
                if not self.expr() or self.peek() != "]":
                    return False
                self.i += 1
            elif c == ".":
                self.i += 1
                if self.peek() is None or self.peek() not in self.START:
                    return False
                word = self.ident()
                if word in self.black or word.startswith("__"):
                    return False
            else:
                return True


def mod():
    return importlib.import_module("cpppo.dotdict")


# ------------------------------------------------------------------------------------------------
# values: JSON form  int | {"d": {...}} plain dict | {"l": [...]} list | {"t": {...}} dotdict instance
# ------------------------------------------------------------------------------------------------
def wire(v):
    if v is None:
        return "N"
    if isinstance(v, int):
        return "i%d" % v
    if "l" in v:
        return "(" + ";".join(wire(e) for e in v["l"]) + ")"
    if "t" in v:
        return "<" + ",".join(k + "=" + wire(e) for k, e in v["t"].items()) + ">"
    return "{" + ",".join(k + "=" + wire(e) for k, e in v["d"].items()) + "}"


def build(v, dotdict):
    if v is None or isinstance(v, int):
        return v
    if "l" in v:
        return [build(e, dotdict) for e in v["l"]]
    if "t" in v:
        t = dotdict()
        for k, e in v["t"].items():
            dict.__setitem__(t, k, build(e, dotdict))
        return t
    return {k: build(e, dotdict) for k, e in v["d"].items()}


def show(o, base):
    if isinstance(o, bool):
        return "?bool"
    if o is None:
        return "N"
    if isinstance(o, int):
        return "i%d" % o
    if isinstance(o, base):
        return "<" + ",".join(k + "=" + show(e, base) for k, e in dict.items(o)) + ">"
    if isinstance(o, list):
        return "(" + ";".join(show(e, base) for e in o) + ")"
    return "?" + type(o).__name__


# ------------------------------------------------------------------------------------------------
# the specification side (independent of the Lean model)
# ------------------------------------------------------------------------------------------------
MISSING = object()


def plain(o, base):
    """raw structure of a real object: ('D', {k: ..}) mapping level, ('L', [..]) list, int, or other"""
    if isinstance(o, base):
        return ("D", {k: plain(e, base) for k, e in dict.items(o)})
    if isinstance(o, list):
        return ("L", [plain(e, base) for e in o])
    if isinstance(o, dict):
        return ("P", {k: plain(e, base) for k, e in o.items()})
    return o


def is_level(t):
    return isinstance(t, tuple) and t[0] == "D"


def is_list(t):
    return isinstance(t, tuple) and t[0] == "L"


class IdxExpr:
    """an index expression of a path component, parsed with Python's own `ast`"""
    OK = (ast.Expression, ast.Constant, ast.Name, ast.Subscript, ast.Attribute, ast.UnaryOp, ast.USub,
          ast.BinOp, ast.Add, ast.Sub, ast.Load)

    def __init__(self, text):
        self.text = text
        self.dotted = "." in text
        self.tree = None
        try:
            tree = ast.parse(text.lstrip(" "), mode="eval")     # eval() strips leading blanks
        except (SyntaxError, ValueError):
            return
        for node in ast.walk(tree):
            if not isinstance(node, self.OK):
                return
            if isinstance(node, ast.Constant) and (isinstance(node.value, bool) or not isinstance(node.value, int)):
                return
            if isinstance(node, ast.Name) and (keyword.iskeyword(node.id) or node.id in ("None", "True", "False")):
                return
            if isinstance(node, ast.Attribute) and (node.attr in RESERVED or node.attr.startswith("_") or
                                                    any(hasattr(t, node.attr) for t in (dict, int, list))):
                return
        self.tree = tree.body

    def value(self, level):
        """the value in the mapping `level` (names are its entries), or MISSING"""
        try:
            return self._ev(self.tree, level)
        except LookupError:
            return MISSING

    def _ev(self, n, level):
        if isinstance(n, ast.Constant):
            return n.value
        if isinstance(n, ast.Name):
            if n.id not in level[1]:
                raise LookupError(n.id)
            return level[1][n.id]
        if isinstance(n, ast.Attribute):
            v = self._ev(n.value, level)
            if not is_level(v) or n.attr not in v[1]:
                raise LookupError(n.attr)
            return v[1][n.attr]
        if isinstance(n, ast.Subscript):
            v, i = self._ev(n.value, level), self._ev(n.slice, level)
            if not is_list(v) or not isinstance(i, int) or not (-len(v[1]) <= i < len(v[1])):
                raise LookupError("index")
            return v[1][i]
        if isinstance(n, ast.UnaryOp):
            v = self._ev(n.operand, level)
            if not isinstance(v, int):
                raise LookupError("neg")
            return -v
        a, b = self._ev(n.left, level), self._ev(n.right, level)
        if isinstance(a, int) and isinstance(b, int):
            return a + b if isinstance(n.op, ast.Add) else a - b
        if is_list(a) and is_list(b) and isinstance(n.op, ast.Add):
            return ("L", a[1] + b[1])
        raise LookupError("arith")


def index_value(level, ix):
    """the int an index of a component denotes in the mapping `level`, or MISSING"""
    if isinstance(ix, int):
        return ix
    v = ix.value(level)
    return v if isinstance(v, int) and not isinstance(v, bool) else MISSING


def literal(comps):
    return all(isinstance(ix, int) for _, idx in comps for ix in idx)


_PARSED = {}


def parse_key(key):
    """memoised `parse_key_text` (the result is not mutated by its users)"""
    if key not in _PARSED:
        if len(_PARSED) > 200000:
            _PARSED.clear()
        _PARSED[key] = parse_key_text(key)
    return _PARSED[key]


RE_NAME = re.compile(r"[A-Za-z_][A-Za-z0-9_]*")
RE_INT_ONLY = re.compile(r"^ *-?(?:0+|[1-9][0-9]*)$")      # what Python reads as a decimal literal


def parse_key_text(key):
    """a well-formed dotted path -> list of (name, [indices]) after '..' normalisation (a run of k dots
    after a component goes k-1 levels up; leading dots and going above the root are ignored); an index is
    an int or an IdxExpr (the text between balanced brackets, dots included).
    None when the text is not a well-formed path (the precise clauses are then not applied);
    [] when the path addresses the root itself"""
    pos, n = 0, len(key)
    stack = []
    while pos < n and key[pos] == ".":
        pos += 1
    if pos == n:
        return None
    while pos < n:
        m = RE_NAME.match(key, pos)
        if not m:
            return None
        name = m.group(0)
        if keyword.iskeyword(name) or name in ("None", "True", "False"):
            return None
        pos = m.end()
        idx, dotted = [], False
        while pos < n and key[pos] == "[":
            depth, j = 0, pos
            while j < n:
                depth += {"[": 1, "]": -1}.get(key[j], 0)
                if depth == 0:
                    break
                j += 1
            if j >= n:
                return None                   # unbalanced
            text = key[pos + 1:j]
            if RE_INT_ONLY.match(text):
                idx.append(int(text))
            else:
                ix = IdxExpr(text)
                if ix.tree is None or ".." in text:
                    return None
                dotted = dotted or ix.dotted
                idx.append(ix)
            pos = j + 1
        stack.append((name, idx, dotted))
        dots = 0
        while pos < n and key[pos] == ".":
            dots += 1
            pos += 1
        if pos < n and dots == 0:
            return None
        if pos == n and dots == 1:
            return None                       # a single trailing dot: not a path
        for _ in range(max(0, dots - 1)):
            if stack:
                if stack.pop()[2]:
                    return None               # '..' over a component with a dotted index: the code back-tracks textually
    if stack and stack[-1][2]:
        # a component whose index expression contains a dot must be followed by '.' and another
        # component: the code splits at dots textually and needs the remainder to re-balance
        return None
    return [(name, idx) for name, idx, _ in stack]


def spec_get(t, comps):
    if not comps:
        return MISSING                         # the root itself is not addressable by a key
    for name, idx in comps:
        if not is_level(t) or name not in t[1]:
            return MISSING
        level, t = t, t[1][name]
        for ix in idx:
            i = index_value(level, ix)
            if i is MISSING or not is_list(t) or not (-len(t[1]) <= i < len(t[1])):
                return MISSING
            t = t[1][i]
    return t


def spec_value(v):
    """the tree a value becomes when it is assigned; MISSING if the assignment has no defined outcome"""
    if v is None or isinstance(v, int):
        return v
    if "l" in v:
        return ("L", [spec_value(e) for e in v["l"]])
    if "t" in v:
        return ("D", {k: spec_value(e) for k, e in v["t"].items()})
    t = ("D", {})
    for k, e in v["d"].items():               # a plain dict becomes a level; dotted keys expand
        comps = parse_key(k)
        if comps is None:
            return None                        # not a well-formed path: outside the precise clauses
        sv = spec_value(e)
        if sv is None or sv is MISSING:
            return sv
        t = spec_set(t, comps, sv)
        if t is MISSING:
            return MISSING
    return t


def copy_tree(t):
    if is_level(t):
        return ("D", {k: copy_tree(e) for k, e in t[1].items()})
    if is_list(t):
        return ("L", [copy_tree(e) for e in t[1]])
    return t


def spec_set(t, comps, val):
    """the tree after assigning val at comps (missing levels reached by a dot are created);
    MISSING when the tree has no such place"""
    if not comps or any(n in RESERVED or n.startswith("__") for n, idx in comps if not idx):
        return MISSING
    root = copy_tree(t)
    cur = root
    for name, idx in comps[:-1]:
        if not is_level(cur):
            return MISSING
        if name not in cur[1]:
            if idx:
                return MISSING
            cur[1][name] = ("D", {})
        level, cur = cur, cur[1][name]
        for ix in idx:
            i = index_value(level, ix)
            if i is MISSING or not is_list(cur) or not (-len(cur[1]) <= i < len(cur[1])):
                return MISSING
            cur = cur[1][i]
    name, idx = comps[-1]
    if not is_level(cur):
        return MISSING
    if not idx:
        cur[1][name] = val
        return root
    if len(idx) != 1 or name not in cur[1]:
        return MISSING
    lst = cur[1][name]
    i = index_value(cur, idx[0])
    if i is MISSING or not is_list(lst) or not (-len(lst[1]) <= i < len(lst[1])):
        return MISSING
    lst[1][i] = val
    return root


def spec_del(t, comps):
    """the tree without the entry at comps (final component a plain name)"""
    root = copy_tree(t)
    parent = spec_get(root, comps[:-1]) if len(comps) > 1 else root
    name, idx = comps[-1]
    if idx or not is_level(parent) or name not in parent[1]:
        return MISSING
    del parent[1][name]
    return root


def strip_empty(t):
    if is_level(t):
        kids = {k: strip_empty(e) for k, e in t[1].items()}
        return ("D", {k: e for k, e in kids.items() if e != ("D", {})})
    if is_list(t):
        return ("L", [strip_empty(e) for e in t[1]])
    return t


def spec_leaves(t, prefix=""):
    """leaf paths: a non-empty level is descended by '.', a non-empty list of mappings by name[i]"""
    out = []
    for k, v in t[1].items():
        if is_level(v) and v[1]:
            out += spec_leaves(v, prefix + k + ".")
        elif is_list(v) and v[1] and all(is_level(e) for e in v[1]):
            for i, e in enumerate(v[1]):
                out += spec_leaves(e, prefix + k + "[%d]." % i)
        else:
            out.append((prefix + k, v))
    return out


def path_id(comps, tree):
    """a literal path as text with plain non-negative indices"""
    out, t = [], tree
    for name, idx in comps:
        seg = name
        t = t[1].get(name) if is_level(t) else None
        for i in idx:
            if is_list(t) and -len(t[1]) <= i < len(t[1]):
                i, t = i % len(t[1]), t[1][i]
            else:
                t = None
            seg += "[%d]" % i
        out.append(seg)
    return ".".join(out)


def raw_keys_ok(t):
    if is_level(t):
        return all(RE_IDENT.match(k) and raw_keys_ok(e) for k, e in t[1].items())
    if is_list(t):
        return all(raw_keys_ok(e) for e in t[1])
    return t is None or isinstance(t, int)


def reserved_keys(t):
    if is_level(t):
        bad = [k for k in t[1] if k in RESERVED or k.startswith("__")]
        for e in t[1].values():
            bad += reserved_keys(e)
        return bad
    if is_list(t):
        return [k for e in t[1] for k in reserved_keys(e)]
    return []


def mutable_ids(o, base, acc):
    if isinstance(o, base):
        acc.add(id(o))
        for e in dict.values(o):
            mutable_ids(e, base, acc)
    elif isinstance(o, list):
        acc.add(id(o))
        for e in o:
            mutable_ids(e, base, acc)
    return acc


def elim_dotdot(key):
    """the text the `while '..' in mine` loop of _resolve leaves (scope filter only; mirrors the Lean
    hypothesis `reducesToDotName`)"""
    mine = key
    while ".." in mine:
        front, back = mine.split("..", 1)
        trunc = front[:max(0, front.rfind("."))]
        mine = trunc + ("." if (trunc and back) else "") + back
    return mine


def reduces_to_dot_name(key):
    """the known finding's class: the key reduces to one leading dot and a single component ('.c', 'a...c')"""
    m = elim_dotdot(key)
    return len(m) > 1 and m[0] == "." and "." not in m[1:]


def value_keys(v):
    if isinstance(v, dict):
        for fld in ("d", "t"):
            for k, e in v.get(fld, {}).items():
                if fld == "d":
                    yield k
                yield from value_keys(e)
        for e in v.get("l", []):
            yield from value_keys(e)


def in_scope(case):
    """no key of the case (operation keys, plain-dict item keys) is in the known finding's class"""
    if case.get("stream") == "heap":
        return True
    for op, s, key, val in case["ops"]:
        if isinstance(key, str) and reduces_to_dot_name(key):
            return False
        if any(reduces_to_dot_name(k) for k in value_keys(val)):
            return False
    return True


KNOWN_CASE = {"stream": "known", "ops": [["set", 0, "a", 2], ["get", 0, ".a", 0]]}

LOOKUPS = {"get", "getd", "getattr", "in", "hasattr", "keys", "items", "chk", "dir"}


class Runner:
    """runs one case on the real code; produces the output line and the oracle verdict"""

    def __init__(self):
        self.m = mod()
        self.dotdict = self.m.dotdict
        self.base = self.m.dotdict_base
        self.black = _attr_blacklist()
        self.verdict = None

    def root_class(self, case):
        """the class of the two dotdicts of a case: dotdict itself, or (case["root"] == "sub") a user subclass
        of it -- the property is about dotdict and what derives from it (apidict does): a level is a level
        whatever dotdict class holds it"""
        if case.get("root") != "sub":
            return self.dotdict
        if getattr(self, "_sub", None) is None:
            self._sub = type("subdict", (self.dotdict,), {"__slots__": ()})
        return self._sub

    # -- eval spy ---------------------------------------------------------------------------------
    def spy(self, expr, g=None, l=None):
        f = sys._getframe(1)
        final = f.f_code.co_name == "__setitem__" and "indx" in f.f_locals
        ok = _RECOGNISED.get(expr)
        if ok is None:
            ok = _RECOGNISED[expr] = ExprRecogniser(expr, self.black).whole()
        ok = ok or (final and bool(RE_FINAL_IDX.match(expr)))
        if not ok:
            raise OutOfModel(expr)
        res = eval(expr, g, l)
        if final and (isinstance(res, bool) or not isinstance(res, int)):
            raise OutOfModel(expr)         # only an int index is modelled for `name[expr] = value`
        return res

    def fail(self, i, op, why):
        if self.verdict is None:
            self.verdict = "op %d %s: %s%s" % (i, "/".join(str(x) for x in op[:3]), why,
                                               " [the dotdicts of this case are instances of a dotdict subclass]"
                                               if getattr(self, "sub_root", False) else "")

    # -- one operation on the real object -----------------------------------------------------------
    def apply(self, slots, op, s, key, val):
        d = slots[s]
        dd, base = self.dotdict, self.base
        if op == "get":
            return show(d[key], base)
        if op == "getd":
            r = d.get(key)
            return "N" if r is None else show(r, base)
        if op == "getattr":
            return show(getattr(d, key), base)
        if op == "hasattr":
            return "T" if hasattr(d, key) else "F"
        if op == "in":
            return "T" if key in d else "F"
        if op == "set":
            d[key] = build(val, dd)
            return "ok"
        if op == "setattr":
            setattr(d, key, build(val, dd))
            return "ok"
        if op == "del":
            del d[key]
            return "ok"
        if op == "delattr":
            delattr(d, key)
            return "ok"
        if op == "pop":
            return show(d.pop(key), base)
        if op == "popn":
            r = d.pop(key, None)
            return "N" if r is None else show(r, base)
        if op == "popd":
            return show(d.pop(key, build(val, dd)), base)
        if op == "setdefault":
            return show(d.setdefault(key, build(val, dd)), base)
        if op == "update":
            d.update(build(val, dd))
            return "ok"
        if op == "keys":
            return ",".join(d.keys())
        if op == "items":
            return ",".join(k + "=" + show(v, base) for k, v in d.items())
        if op == "chk":
            good = True
            for k, v in list(d.items()):
                try:
                    same = show(d[k], base) == show(v, base)
                    member = k in d
                    good = good and same and member
                except OutOfModel:
                    raise
                except Exception:
                    good = False
            return "T" if good else "F"
        if op == "dir":
            return ",".join(a for a in dir(d) if not a.startswith("__"))
        if op == "copy":
            slots[1 - s] = copy.copy(d)
            return "ok"
        if op == "deepcopy":
            slots[1 - s] = copy.deepcopy(d)
            return "ok"
        raise RuntimeError("unknown op " + op)

    # -- side-effect free probes used by the oracle ---------------------------------------------
    def probe(self, d, key):
        """(lookup outcome, membership outcome): ('ok', value) / ('err', class)"""
        try:
            lk = ("ok", d[key])
        except OutOfModel:
            return None
        except Exception as exc:
            lk = ("err", type(exc).__name__)
        try:
            mb = ("ok", key in d)
        except OutOfModel:
            return None
        except Exception as exc:
            mb = ("err", type(exc).__name__)
        return lk, mb

    def run(self, case):
        self.sub_root = case.get("root") == "sub"
        had = "eval" in self.m.__dict__
        self.m.eval = self.spy
        try:
            return self._run(case)
        finally:
            if not had:
                del self.m.eval

    def _run(self, case):
        base = self.base
        slots = [self.root_class(case)(), self.root_class(case)()]
        out = []
        for i, op4 in enumerate(case["ops"]):
            op, s, key, val = op4
            before = [plain(x, base) for x in slots]
            oom = False
            try:
                res = self.apply(slots, op, s, key, val)
                raised = None
            except OutOfModel:
                res, raised, oom = "oom", "oom", True
            except Exception as exc:
                raised = type(exc)
                res = ERRS.get(type(exc), "!other:" + type(exc).__name__)
            out.append(res + "~" + show(slots[0], base) + "~" + show(slots[1], base))
            if oom:
                # the model is silent from here on, the property is not: judge what the code really does
                # with this operation (same operations replayed with the builtin eval)
                self.judge_unmodelled(case, i)
                break
            after = [plain(x, base) for x in slots]
            self.judge(i, op4, slots, before, after, res, raised)
        return "|".join(out)

    def judge_unmodelled(self, case, i):
        base = self.base
        saved = self.m.__dict__.pop("eval", None)
        try:
            warnings.simplefilter("ignore", SyntaxWarning)
            slots = [self.root_class(case)(), self.root_class(case)()]
            for op4 in case["ops"][:i]:
                try:
                    self.apply(slots, *op4)
                except Exception:
                    pass
            op4 = case["ops"][i]
            before = [plain(x, base) for x in slots]
            try:
                res, raised = self.apply(slots, *op4), None
            except Exception as exc:
                raised = type(exc)
                res = ERRS.get(type(exc), "!other:" + type(exc).__name__)
            after = [plain(x, base) for x in slots]
            self.judge(i, op4, slots, before, after, res, raised)
        finally:
            if saved is not None:
                self.m.eval = saved

    # -- the property, clause by clause ---------------------------------------------------------
    def judge(self, i, op4, slots, before, after, res, raised):
        op, s, key, val = op4
        base = self.base
        d = slots[s]
        o = 1 - s
        fail = lambda why: self.fail(i, op4, why)
        # copies are structurally independent: an operation on one slot never shows in the other,
        # and the two slots share no mapping or list object
        if op not in ("copy", "deepcopy") and after[o] != before[o]:
            fail("changed the other dotdict: %r -> %r" % (before[o], after[o]))
        if op in ("copy", "deepcopy"):
            if raised is None:
                if after[o] != before[s]:
                    fail("the copy differs from the original")
                if after[s] != before[s]:
                    fail("copying changed the original")
                if mutable_ids(slots[0], base, set()) & mutable_ids(slots[1], base, set()):
                    fail("the copy shares a mapping or list with the original")
            elif not reserved_keys(before[s]) and raw_keys_ok(before[s]):
                fail("copy of a well-formed dotdict refused: " + res)
            return
        # reserved method names are refused as keys
        bad = reserved_keys(after[s])
        if bad and not reserved_keys(before[s]):
            fail("reserved name %r became a key" % bad[0])
        # lookups do not change anything
        if op in LOOKUPS and after[s] != before[s]:
            fail("a lookup changed the tree")
        # membership agrees with lookup (on the key of this operation)
        comps = parse_key(key) if isinstance(key, str) else None
        if op not in ("keys", "items", "chk", "dir", "update"):
            pr = self.probe(d, key)
            if pr is not None:
                lk, mb = pr
                if lk[0] == "ok" and mb != ("ok", True):
                    fail("lookup succeeds but membership says %r" % (mb,))
                if lk[0] == "err" and mb == ("ok", True):
                    fail("membership is True but lookup raises %s" % lk[1])
                if lk[0] == "err" and mb[0] == "err" and mb[1] != lk[1]:
                    fail("membership raises %s, lookup raises %s" % (mb[1], lk[1]))
                if lk[0] == "err" and mb == ("ok", False) and lk[1] != "KeyError":
                    fail("membership is False but lookup raises %s" % lk[1])
                # lookup succeeds exactly when the tree contains the path, and returns what is stored
                if comps is not None:
                    want = spec_get(after[s], comps)
                    if want is MISSING and lk[0] == "ok":
                        fail("lookup of an absent path succeeded")
                    if want is not MISSING and lk[0] != "ok":
                        fail("lookup of a present path raised %s" % lk[1])
                    if want is not MISSING and lk[0] == "ok" and plain(lk[1], base) != want:
                        fail("lookup returned %r, the tree holds %r" % (plain(lk[1], base), want))
        # key iteration lists exactly the leaf paths, and every listed key looks up to the listed value.
        # The listed keys come from the dotdict itself: they are looked up with the builtin eval (whatever
        # they look like they must work), and compared with the leaf paths as *paths* (name, indices), not
        # as text (a list of ten or more mappings is listed with right-aligned indices: 'rows[ 3].v')
        if raw_keys_ok(after[s]):
            saved = self.m.__dict__.pop("eval", None)
            try:
                listed = [(k, plain(v, base)) for k, v in d.items()]
                if [k for k, _ in listed] != list(d.keys()) or [k for k, _ in listed] != list(iter(d)):
                    fail("keys()/iter() differ from items()")
                paths = []
                for k, v in listed:
                    try:
                        if plain(d[k], base) != v or k not in d:
                            fail("listed key %r does not look up to the listed value" % k)
                    except Exception as exc:
                        fail("lookup of the listed key %r raised %s" % (k, type(exc).__name__))
                    kc = parse_key(k)
                    if kc is None or not literal(kc):
                        fail("listed key %r is not a dotted path" % k)
                    else:
                        paths.append((path_id(kc, after[s]), repr(v)))
                want = [(path_id(parse_key(k), after[s]), repr(v)) for k, v in spec_leaves(after[s])]
                if sorted(paths) != sorted(want) and self.verdict is None:
                    fail("iteration lists %r, the leaf paths are %r" % (listed, spec_leaves(after[s])))
            finally:
                if saved is not None:
                    self.m.eval = saved
        if comps is None:
            # not a well-formed dotted path: only the generic clauses above apply
            return
        b = before[s]
        had = spec_get(b, comps)
        if op in ("get", "getd", "getattr", "in", "hasattr"):
            if had is MISSING:
                if raised is None and not (op == "getd" and res == "N") and res != "F":
                    fail("%s of an absent path gave %s" % (op, res))
            else:
                want = "T" if op in ("in", "hasattr") else show_plain(had)
                if raised is not None or res != want:
                    fail("%s of a present path gave %s, the tree holds %s" % (op, res, show_plain(had)))
            return
        if op in ("set", "setattr"):
            sv = spec_value(val)
            if sv is None:
                return
            want = MISSING if sv is MISSING else spec_set(b, comps, sv)
            reserved = any(n in RESERVED or n.startswith("__") for n, idx in comps if not idx)
            if raised is None:
                if want is MISSING:
                    fail("assignment succeeded but the tree has no such place" +
                         (" (reserved name)" if reserved else ""))
                elif after[s] != want:
                    fail("after the assignment the tree is %r, expected %r" % (after[s], want))
            else:
                if want is not MISSING:
                    fail("assignment to a valid place refused with " + res)
                elif strip_empty(after[s]) != strip_empty(b):
                    fail("a refused assignment changed the tree")
            return
        if op == "del":
            if raised is None:
                if had is MISSING:
                    fail("deleted an absent path")
                elif is_level(had) and had[1]:
                    fail("deleted a non-empty level")
                else:
                    want = spec_del(b, comps)
                    if want is MISSING or after[s] != want:
                        fail("after del the tree is %r, expected %r" % (after[s], want))
            else:
                if after[s] != b:
                    fail("a refused del changed the tree")
                if had is not MISSING and not (is_level(had) and had[1]) and not comps[-1][1] and literal(comps):
                    fail("del of a leaf refused with " + res)
                if is_level(had) and had[1] and raised is not KeyError and literal(comps):
                    fail("del of a non-empty level raised %s, not KeyError" % res)
            return
        if op in ("pop", "popn", "popd"):
            indexed = any(idx for _, idx in comps)
            took = raised is None and after[s] != b
            if raised is not None or not took:
                if after[s] != b:
                    fail("a refused pop changed the tree")
                if had is not MISSING and not indexed:
                    fail("pop of a present path gave " + res)
                # the tree is one of nested mappings: a pop by dotted path is the pop of the level that holds
                # the last component.  When that level exists and the component is absent, a pop WITH a default
                # finds nothing to remove and returns the default, at any depth (as `in` and get(path, default)
                # treat the path: simply absent)
                if had is MISSING and not indexed and comps and op in ("popn", "popd"):
                    level = b if len(comps) == 1 else spec_get(b, comps[:-1])
                    if is_level(level):
                        dflt = "N" if op == "popn" else show_plain(spec_value(val))
                        if raised is not None:
                            fail("pop with a default of an absent entry of an existing level raised %s" % res)
                        elif res != dflt:
                            fail("pop with a default of an absent entry gave %s, not the default %s" % (res, dflt))
                return
            want = spec_del(b, comps)
            if had is MISSING or want is MISSING or after[s] != want:
                fail("after pop the tree is %r, expected %r" % (after[s], want))
            elif res != show_plain(had):
                fail("pop returned %s, the tree held %r" % (res, had))
            return
        if op == "setdefault":
            sv = spec_value(val)
            if had is not MISSING:
                if raised is not None or after[s] != b or res != show_plain(had):
                    fail("setdefault on a present path gave %s" % res)
                return
            if sv is None:
                return
            want = MISSING if sv is MISSING else spec_set(b, comps, sv)
            if raised is None:
                if want is MISSING or after[s] != want:
                    fail("after setdefault the tree is %r, expected %r" % (after[s], want))
                elif res != show_plain(sv):
                    fail("setdefault returned %s, stored %r" % (res, sv))
            elif want is not MISSING:
                fail("setdefault to a valid place refused with " + res)
            elif strip_empty(after[s]) != strip_empty(b):
                fail("a refused setdefault changed the tree")
            return


def show_plain(t):
    if is_level(t):
        return "<" + ",".join(k + "=" + show_plain(e) for k, e in t[1].items()) + ">"
    if is_list(t):
        return "(" + ";".join(show_plain(e) for e in t[1]) + ")"
    return "N" if t is None else "i%d" % t


# ------------------------------------------------------------------------------------------------
# generators
# ------------------------------------------------------------------------------------------------
NAMES = ["a", "b", "c", "x", "l", "m"]
ODD = ["copy", "get", "keys", "items", "update", "pop", "set", "values", "__a", "_p", "a1"]


def dd(**kw):
    return {"t": kw}


def lst(*xs):
    return {"l": list(xs)}


def pd(**kw):
    return {"d": kw}


VALUES = [1, 2, -3, 0, pd(b=2), {"d": {"b.c": 3}}, {"d": {"b.c": 3, "b.d": 4, "e": 5}}, pd(),
          lst(1, dd(x=1), lst(dd(w=3))), lst(dd(x=1), dd(y=dd(z=2))), lst(dd(x=1), dd()), lst(), lst(1, 2),
          dd(x=1), dd(), {"d": {"b": {"d": {"c.d": 6}}}}, {"d": {"l": lst(dd(x=7))}},
          {"d": {"a..b": 1}}, {"d": {"copy": 1}}, {"d": {"b.copy": 1}}, {"d": {"a": 1, "a.b": 2}},
          None, {"d": {"b": None, "c.d": None}}, lst(None, dd(x=None)), dd(x=None),
          lst(*[dd(v=i) for i in range(11)]), lst(*[dd(v=i) for i in range(12)] + [dd()])]

# a list of more than ten mappings: key iteration right-aligns the indices ('rows[ 3].v')
PRELUDE_L = [["set", 0, "rows", lst(*[dd(v=i) if i != 4 else dd(v=4, w=dd(z=None)) for i in range(11)])],
             ["set", 0, "n", None], ["set", 0, "a.b", None]]

KEYS_L = ["rows[3].v", "rows[ 3].v", "rows[10].v", "rows[ 10].v", "rows[-1].v", "rows[11].v", "rows[ 4].w.z", "rows[4].w",
          "rows[ 3]", "rows[  3].v", "rows[03].v", "rows[ 3 ].v", "rows[ -1].v", "rows[- 1].v", "rows[3].q", "n", "a.b",
          "a.x..b", "n.x", "a.b.c", "rows[ 4].w.z.q", "rows", "a"]

KEYS1 = ["a.zz", "a.c.zz", "a.c.d..zz", ".a.c.zz", "a.c.zz..d", "q..a.c.zz", "zz", "a", "a.b", "a.b.c", "a.c.d", "b", ".a", "..a", "...a", ".a.b", "a..b", "a.b..c", "a.x..b", "a.b.c...x",
         "a...a.b", "a.....a.b", "a...b", "a.b...a", "a.", "a..", "a.b..", "a.b...", "a.b.", ".", "..", "", "a.b.c.d....x",
         "l", "l[0]", "l[1]", "l[2]", "l[3]", "l[-1]", "l[-4]", "l[1].x", "l[1].y.z", "l[1].y", "l[2][0]", "l[2][0].w",
         "l[-1][0].w", "l[0].x", "l.x", "l[1][0]", "l[1].", "l[1]..l[0]", "l[1].q..x", "l[1].y.z...x", ".l[0]", "..l[1].x",
         "l[1].x.y", "a[0]", "a.b[0]", "zz[0]", "zz[0].x", "l[2][0].w..w", "l[2].x",
         "copy", "a.copy", "copy.a", "a.copy.b", "__a", "a.__b", "__a.b", "get", "keys.x", "_p", "a.b.c.d", "x.y.z",
         "l[1].copy", "l[1].copy.x", "a.b.x", "c", "a.c"]

PRELUDE = [["set", 0, "a.b", 1], ["set", 0, "a.c.d", 2],
           ["set", 0, "l", lst(1, dd(x=1, y=dd(z=2)), lst(dd(w=3)))]]

# a tree whose values can serve as indices: index expressions that refer to peer values
PRELUDE_X = [["set", 0, "a", lst(dd(b=1, n=2), dd(b=11), dd(b=22, m=lst(dd(w=5), dd(w=6))))],
             ["set", 0, "sel", pd(idx=1, two=2)], ["set", 0, "c", 1], ["set", 0, "l", lst(7, 8, 9)]]

KEYS_X = ["a[a[0].b-1].b", "a[a[0].b].b", "a[a[0].n].b", "a[a[sel.idx-1].n].b", "sel.idx...a[a[0].b].b",
          "a[sel.idx].b", "a[sel.idx+1].b", "a[sel.two-sel.idx].b", "a[-sel.idx].b", "a[c].b", "a[c+1].b", "a[c-1].n",
          "a[c]", "a[c+1]", "l[c]", "l[c+c]", "l[-c]", "l[a[0].n]", "l[sel.idx]", "l[a[0].n].x", "a[a[0].n].m[c].w",
          "a[a[0].n].m[a[0].b].w", "a[a[0].n].m[sel.idx-1].w", "a[a[a[0].b-1].n].b", "q.r...a[a[0].b].n",
          "a[a[0].zz].b", "a[zz].b", "a[a[5].b].b", "a[sel].b", "a[l].b", "a[c+l].b", "a[l+l].b", "a[-l].b", "a[a[0]].b",
          "a[a[0].n+7].b", "a[sel.idx].zz", "a[sel.idx].b.x", "c[sel.idx].b", "sel[c].b", "a[sel.idx].q.r",
          "a[a[0].n].m[9].w", "a[a[0].b.x].b", "a[sel.idx.real].b", "a[a[0].copy].b", "a[a[0].b-1].b..n",
          "x.a[sel.idx].b", "sel.a[c].b", "a[c].b..n", "a[c-c].n"]

TAIL = [["items", 0, "", 0], ["chk", 0, "", 0], ["items", 1, "", 0], ["chk", 1, "", 0]]

KEYOPS = ["get", "getd", "in", "del", "pop", "popn", "getattr", "hasattr", "delattr"]
VALOPS = ["set", "setdefault", "setattr", "popd"]


def decorate(rng, comps):
    """a key text for the component list with '..' detours, leading dots and back-tracking past the root"""
    out = ""
    if rng.random() < 0.15:
        out += "." * rng.choice([1, 1, 2, 3])
    if rng.random() < 0.1:
        junk = [rng.choice(NAMES) for _ in range(rng.randint(1, 3))]
        out += ".".join(junk) + "." * (len(junk) + rng.choice([1, 1, 2, 3]))
    for i, c in enumerate(comps):
        if i:
            out += "."
        if rng.random() < 0.18:
            junk = [rng.choice(NAMES + ["q", "l[0]"]) for _ in range(rng.randint(1, 2))]
            if i == 0 and rng.random() < 0.5:
                pass
            else:
                out += ".".join(junk) + "." * (len(junk) + 1)
        out += c
    if rng.random() < 0.06:
        out += rng.choice([".", "..", "...", "." + rng.choice(NAMES) + ".."])
    return out


XIDX = ["c", "c+1", "c-1", "-c", "sel.idx", "sel.idx+1", "sel.two-1", "a[0].b", "a[0].n", "a[0].b-1", "a[sel.idx-1].n",
        "a[0].n-a[0].b", "zz", "sel", "a[0].zz", "a[9].b", "l", "c+l", "x", "b.c", "a[c].b-11"]


def rand_comp(rng, listy, xprob=0.0):
    r = rng.random()
    if r < 0.06:
        return rng.choice(ODD)
    if rng.random() < xprob:
        return rng.choice(["a", "a", "l", "m"]) + "[%s]" % rng.choice(XIDX)
    name = rng.choice(NAMES)
    if (name in ("l", "m") and rng.random() < listy) or rng.random() < 0.04:
        name += ("[ %d]" if rng.random() < 0.05 else "[%d]") % rng.choice([0, 0, 1, 1, 2, -1, 3, -3, 10])
        if rng.random() < 0.12:
            name += "[%d]" % rng.choice([0, 1, -1])
    return name


def rand_key(rng, used, xprob=0.0):
    while True:
        key, comps = rand_key_any(rng, used, xprob)
        if not reduces_to_dot_name(key):      # the known finding's class is out of scope
            return key, comps


def rand_key_any(rng, used, xprob=0.0):
    if xprob and rng.random() < 0.5:
        comps = [rand_comp(rng, 0.6, xprob)] + [rng.choice(["b", "n", "m[c].w", "m[0].w", "x", "b"])
                                                 for _ in range(rng.choice([0, 1, 1, 1, 2]))]
        return decorate(rng, comps), comps
    if used and rng.random() < 0.6:
        comps = list(rng.choice(used))
        r = rng.random()
        if r < 0.15 and len(comps) > 1:
            comps = comps[:-1]
        elif r < 0.35:
            comps = comps + [rand_comp(rng, 0.5)]
        elif r < 0.45:
            comps[-1] = rand_comp(rng, 0.5)
    else:
        comps = [rand_comp(rng, 0.6) for _ in range(rng.choice([1, 1, 2, 2, 2, 3, 3, 4, 5]))]
    return decorate(rng, comps), comps


def rand_tree(rng, depth):
    n = rng.randint(0, 3)
    return {"t": {rng.choice(["x", "y", "z", "w"]): (rand_tree(rng, depth - 1) if depth > 0 and rng.random() < 0.3
                                                     else rng.choice([None] + list(range(10)))) for _ in range(n)}}


def rand_value(rng):
    r = rng.random()
    if r < 0.03:
        # more than ten mappings in a list: two-digit, right-aligned indices in the listed keys
        return {"l": [rand_tree(rng, 0) if rng.random() < 0.7 else {"t": {"v": i}} for i in range(rng.randint(11, 13))]}
    if r < 0.4:
        return rng.choice([0, 1, 2, 5, -1, 7, None, None])
    if r < 0.55:
        return rng.choice(VALUES)
    if r < 0.75:
        items = {}
        for _ in range(rng.randint(0, 3)):
            k, _c = rand_key(rng, [])
            items[k] = rand_value(rng) if rng.random() < 0.3 else rng.randint(0, 9)
        return {"d": items}
    if r < 0.93:
        kind = rng.random()
        n = rng.randint(0, 4)
        if kind < 0.6:
            return {"l": [rand_tree(rng, 1) for _ in range(n)]}
        return {"l": [rng.choice([rng.randint(0, 9), rand_tree(rng, 1), {"l": [rand_tree(rng, 0)]}]) for _ in range(n)]}
    return rand_tree(rng, 2)


def attr_ok(key):
    from cpppo.dotdict import dotdict
    try:
        return not hasattr(dotdict, key)
    except Exception:
        return False


def fix_attr(op4):
    """getattr/hasattr on the name of a real attribute never reaches the mapping: use item access"""
    op, s, key, val = op4
    if op in ("getattr", "hasattr") and not attr_ok(key):
        return ["get" if op == "getattr" else "in", s, key, val]
    return op4


def rand_case(rng, stream):
    ops, used = [], []
    n = rng.randint(2, 12)
    copied = False
    xprob = 0.0
    if stream == "expr":                      # index expressions over a tree that has values to refer to
        ops = [list(o) for o in PRELUDE_X]
        n = rng.randint(1, 7)
        xprob = 0.7
    for _ in range(n):
        s = rng.choice([0, 1]) if copied else 0
        r = rng.random()
        if stream == "copy" and not copied and len(ops) >= 2 and r < 0.4:
            ops.append([rng.choice(["copy", "copy", "deepcopy"]), 0, "", 0])
            copied = True
            continue
        if stream == "malformed" and r < 0.6:
            toks = ["a", "b", "l", ".", ".", ".", "[", "]", "[", "]", "0", "1", "-", "+", "copy", "x"]
            key = "".join(rng.choice(toks) for _ in range(rng.randint(1, 8)))
            while reduces_to_dot_name(key):
                key = "".join(rng.choice(toks) for _ in range(rng.randint(1, 8)))
            op = rng.choice(["get", "in", "set", "set", "del", "pop", "setdefault", "getd"])
            ops.append([op, s, key, rng.choice([1, 2, lst(1, dd(x=1)), pd(b=1)]) if op in ("set", "setdefault") else 0])
            continue
        key, comps = rand_key(rng, used, xprob)
        if r < (0.25 if xprob else 0.42) or not ops:
            op = rng.choice(["set", "set", "set", "setattr", "setdefault"])
            ops.append([op, s, key, rand_value(rng)])
            used.append(comps)
        elif r < 0.47:
            v = rand_value(rng)
            while v is None or isinstance(v, int) or "l" in v:
                v = rand_value(rng)
            ops.append(["update", s, "", v])
        elif r < 0.5:
            ops.append([rng.choice(["keys", "items", "dir", "chk"]), s, "", 0])
        elif r < 0.53 and stream != "malformed":
            ops.append([rng.choice(["copy", "deepcopy"]), s, "", 0])
            copied = True
        else:
            op = rng.choice(KEYOPS + ["get", "get", "in", "del", "pop", "popd"])
            ops.append([op, s, key, rng.randint(0, 9) if op == "popd" else 0])
    return {"stream": stream, "ops": [fix_attr(o) for o in ops] + TAIL}


def dict_paths(v, prefix=()):
    """every path (sequence of ('k', name) / ('i', index) steps) from a dotdict literal to a mapping in it"""
    out = []
    if isinstance(v, dict) and "t" in v:
        out.append(list(prefix))
        for k, e in v["t"].items():
            out += dict_paths(e, prefix + (("k", k),))
    elif isinstance(v, dict) and "l" in v:
        for i, e in enumerate(v["l"]):
            out += dict_paths(e, prefix + (("i", i),))
    return out


def rand_heap_tree(rng, depth):
    def val(d):
        r = rng.random()
        if d <= 0 or r < 0.35:
            return rng.randint(0, 9)
        if r < 0.6:
            return {"t": {k: val(d - 1) for k in rng.sample(["x", "y", "z", "w", "a", "b"], rng.randint(0, 3))}}
        return {"l": [val(d - 1) for _ in range(rng.randint(0, 3))]}
    return {"t": {k: val(depth) for k in rng.sample(["a", "b", "c", "l", "m"], rng.randint(1, 4))}}


def heap_case(rng):
    tree = rand_heap_tree(rng, 3)
    paths = dict_paths(tree)
    listy = [p for p in paths if any(kind == "i" for kind, _ in p)]
    steps = [list(st) for st in rng.choice(listy if listy and rng.random() < 0.7 else paths)]
    return {"stream": "heap", "tree": tree, "steps": steps,
            "k": rng.choice(["x", "y", "q", "a", "n"]), "v": rng.randint(10, 99)}


def steps_key(steps, k):
    """the dotted key that addresses `k` in the mapping at `steps`"""
    text = ""
    for kind, x in steps:
        if kind == "k":
            text += ("." if text else "") + x
        else:
            text += "[%d]" % x
    return text + ("." if text else "") + k


class C16(Suite):
    id = "C16"
    props_module = "Cpppo.Props.C16"
    rule = ("exhaustive: a fixed three-assignment tree (levels, a list holding an int, a mapping and a nested list) "
            "followed by every operation kind x every key of a %d-key grid ('..' detours, leading/trailing dots, "
            "indices in and out of range, negative, nested, reserved names, absent names), and every value of a %d-value "
            "grid assigned at each of 16 keys then looked up; seeded random sequences of 2-12 operations over two slots "
            "(keys derived from earlier keys with '..' detours, plain-dict / list / dotdict values, copy and deepcopy), "
            "a copy-focused stream and a malformed-key stream (random strings over names, dots, brackets, digits); "
            "a grid over a list of eleven mappings and stored None values (right-aligned listed keys such as rows[ 3].v, "
            "setdefault/get/in on paths that hold None), None among the random values and lists of 11-13 mappings; "
            "an index-expression grid and stream (keys such as a[a[0].b-1].b, a[sel.idx+1].b over a tree whose values serve "
            "as indices; present, absent, mistyped and out-of-range references); "
            "a quarter of the random cases and half of the mutating grid cases run on a user SUBCLASS of dotdict as root "
            "(levels auto-created below it are plain dotdicts); a heap stream (random nested dotdict/list trees, copy.copy, one assignment through the copy at a random "
            "mapping: how original and copy read afterwards, against the object-identity model); "
            "non-trivial = at least one assignment succeeded and a later operation on a multi-component, indexed or "
            "'..' key returned without exception; distinct by operation sequence") % (len(KEYS1), len(VALUES))
    assumptions = [
        "index expressions are integer literals or the documented expressions over peer values (names, ref[expr], ref.attr, "
        "unary minus, + and -); any other text reaching eval ends the case on both sides (oom)",
        "a component whose index expression contains a dot must be followed by '.' and another component (the code splits "
        "at dots textually: d['l[a.b]'] raises ValueError); del/pop are not required to address through index expressions "
        "(documented as not implemented)",
        "values stored are ints, lists and dotdicts (plain dicts inside lists are not converted by the code and are not generated)",
        "values stored are ints, None, lists and dotdicts",
        "getattr/hasattr are exercised on keys that are not attributes of the class (the others never reach __getattr__)",
        "each operation is given freshly built values; objects returned by the API are not re-inserted (no aliasing made by the caller)",
        "KNOWN FINDING: keys that reduce to one leading dot and a single component ('.c', '...c', 'a...c') are resolved to that "
        "name twice by _resolve; generated cases exclude that class (decidable predicate reduces_to_dot_name = the Lean "
        "hypothesis reducesToDotName), the listed input is replayed on every run",
    ]
    trusted_extra = ["the eval spy installed as cpppo.dotdict.eval (module global shadowing the builtin) only observes the text"]

    def __init__(self):
        self._verdicts = {}

    # -- cases ------------------------------------------------------------------------------------
    def cases(self, tier, rng):
        n = 0
        for c in self.all_cases(tier, rng):
            if not in_scope(c):
                continue
            n += 1
            if c.get("stream") == "heap":
                yield c
            elif c.get("stream", "").endswith("grid"):
                yield c
                # the same grid on a dotdict SUBCLASS root (levels created below it are plain dotdicts)
                if any(op in ("del", "pop", "set", "setdefault", "copy", "deepcopy") for op, *_ in c["ops"][3:]) and n % 2 == 0:
                    yield {**c, "root": "sub"}
            else:
                yield ({**c, "root": "sub"} if n % 4 == 0 else c)

    def all_cases(self, tier, rng):
        for key in KEYS1:
            for op in KEYOPS:
                yield {"stream": "grid", "ops": PRELUDE + [fix_attr([op, 0, key, 0])] + TAIL}
            for op in VALOPS:
                for val in ((7,) if op == "popd" else (7, pd(q=8))):
                    yield {"stream": "grid", "ops": PRELUDE + [[op, 0, key, val], ["get", 0, key, 0]] + TAIL}
        for key in ["a", "a.b", "q.r", "l[1]", "l[1].y", "l[0]", "a.x..b", ".q", "a.b.c", "l[2][0].v", "copy", "a.copy",
                    "copy.a", "q.", "l[3]", "a.b.c.d"]:
            for val in VALUES:
                yield {"stream": "grid", "ops": PRELUDE + [["set", 0, key, val], ["get", 0, key, 0], ["in", 0, key, 0]] + TAIL}
                yield {"stream": "grid", "ops": [["set", 0, key, val], ["get", 0, key, 0],
                                                 ["copy", 0, "", 0], ["set", 1, "l[1].x", 9], ["set", 1, key + ".n", 1]] + TAIL}
        # index expressions that refer to peer values (documented: d['a[a[0].b-1].b'])
        for key in KEYS_X:
            for op in KEYOPS:
                yield {"stream": "xgrid", "ops": PRELUDE_X + [fix_attr([op, 0, key, 0])] + TAIL}
            for op in ("set", "setdefault"):
                for val in (77, pd(q=8)):
                    yield {"stream": "xgrid", "ops": PRELUDE_X + [[op, 0, key, val], ["get", 0, key, 0], ["in", 0, key, 0]] + TAIL}
        # more than ten mappings in a list, and stored None values
        for key in KEYS_L:
            for op in KEYOPS:
                yield {"stream": "lgrid", "ops": PRELUDE_L + [fix_attr([op, 0, key, 0])] + TAIL}
            for op in ("set", "setdefault", "setattr"):
                for val in (7, None, pd(q=8)):
                    yield {"stream": "lgrid", "ops": PRELUDE_L + [[op, 0, key, val], ["get", 0, key, 0], ["in", 0, key, 0]] + TAIL}
        # copy independence through every kind of path
        for cp in ("copy", "deepcopy"):
            for key in KEYS1:
                for op in ("set", "del", "pop"):
                    for slot in (0, 1):
                        yield {"stream": "copygrid", "ops": PRELUDE + [[cp, 0, "", 0], [op, slot, key, 5]] + TAIL}
        for _ in range(1500 if tier == "quick" else 20000):
            yield heap_case(rng)
        nrand = 20000 if tier == "quick" else 330000
        for i in range(nrand):
            stream = ("rand", "rand", "expr", "copy", "malformed", "rand", "expr", "rand", "copy", "malformed")[i % 10]
            yield rand_case(rng, stream)

    def model_line(self, c):
        if c.get("stream") == "heap":
            steps = ",".join(kind + str(x) for kind, x in c["steps"]) or "-"
            return "ddh 1 %s %s %s %d" % (wire(c["tree"]), steps, c["k"], c["v"])
        # flags: _resolve as it is (0), reserved names refused for intermediate levels (1)
        toks = []
        for op, s, key, val in c["ops"]:
            v = wire(val).replace(" ", "@") if op in ("set", "setattr", "setdefault", "update", "popd") else ""
            toks.append("%s/%d/%s/%s" % (op, s, key.replace(" ", "@"), v))
        return "dd 01 " + " ".join(toks)

    def impl_heap(self, c):
        """copy.copy( d ), then one assignment through the copy: how both read afterwards"""
        m = mod()
        d = build(c["tree"], m.dotdict)
        before = show(d, m.dotdict_base)
        cp = copy.copy(d)
        try:
            cp[steps_key(c["steps"], c["k"])] = c["v"]
        except Exception as exc:
            return ERRS.get(type(exc), "!other:" + type(exc).__name__)
        out = show(d, m.dotdict_base) + "~" + show(cp, m.dotdict_base)
        verdict = None
        if show(d, m.dotdict_base) != before:
            verdict = "an assignment through the copy changed the original: %s -> %s" % (before, show(d, m.dotdict_base))
        elif mutable_ids(d, m.dotdict_base, set()) & mutable_ids(cp, m.dotdict_base, set()):
            verdict = "the copy shares a mapping or list with the original"
        elif plain(cp[steps_key(c["steps"], c["k"])], m.dotdict_base) != c["v"]:
            verdict = "the assigned value is not found in the copy"
        self._verdicts[json.dumps(c, sort_keys=True)] = verdict
        return out

    def impl(self, c):
        if c.get("stream") == "heap":
            return self.impl_heap(c)
        r = Runner()
        out = r.run(c)
        self._verdicts[json.dumps(c, sort_keys=True)] = r.verdict
        return out

    def oracle(self, c, out):
        if out.startswith("harness-exception"):
            return out
        k = json.dumps(c, sort_keys=True)
        if k not in self._verdicts:
            self.impl(c)
        return self._verdicts.get(k)

    def nontrivial(self, c, out):
        if c.get("stream") == "heap":
            return json.dumps(c, sort_keys=True) if any(kind == "i" for kind, _ in c["steps"]) and "~" in out else None
        parts = out.split("|")
        setok = False
        for (op, s, key, val), p in zip(c["ops"], parts):
            res = p.split("~", 1)[0]
            if op in ("set", "setattr", "setdefault", "update") and not res.startswith("!") and res != "oom":
                setok = True
            elif setok and isinstance(key, str) and ("." in key or "[" in key) and \
                    not res.startswith("!") and res not in ("oom", "N", "F"):
                return json.dumps(c["ops"], sort_keys=True)
        return None

    def classify(self, c, out):
        if c.get("root") == "sub":
            return "subclass:" + self.classify({k: v for k, v in c.items() if k != "root"}, out)
        if c.get("stream") == "heap":
            return "heap:" + ("list" if any(kind == "i" for kind, _ in c["steps"]) else "levels")
        flags = ""
        res = [p.split("~", 1)[0] for p in out.split("|")]
        if any(r.startswith("!") for r in res):
            flags += "e"
        if "oom" in res:
            flags += "o"
        keys = [k for _, _, k, _ in c["ops"]]
        if any(".." in k for k in keys):
            flags += "u"
        if any("[" in k for k in keys):
            flags += "i"
        if any(op in ("copy", "deepcopy") for op, *_ in c["ops"]):
            flags += "c"
        return c.get("stream", "?") + ":" + (flags or "-")

    def shrink(self, c):
        for v in self.shrink_all(c):
            if in_scope(v):
                yield v

    def shrink_all(self, c):
        if c.get("stream") == "heap":
            return
        ops = c["ops"]
        body = [o for o in ops if o not in TAIL]
        for i in range(len(body)):
            yield {**c, "ops": body[:i] + body[i + 1:]}
        if len(body) != len(ops):
            yield {**c, "ops": body}
        for i, (op, s, key, val) in enumerate(body):
            if val is not None and not isinstance(val, int):
                for sub in ([1] + (list(val.get("l", [])) if "l" in val else [])):
                    yield {**c, "ops": body[:i] + [[op, s, key, sub]] + body[i + 1:]}
                for fld in ("d", "t"):
                    if fld in val and len(val[fld]) > 0:
                        for k in val[fld]:
                            rest = {kk: vv for kk, vv in val[fld].items() if kk != k}
                            yield {**c, "ops": body[:i] + [[op, s, key, {fld: rest}]] + body[i + 1:]}
                if "l" in val and len(val["l"]) > 1:
                    for j in range(len(val["l"])):
                        yield {**c, "ops": body[:i] + [[op, s, key, {"l": val["l"][:j] + val["l"][j + 1:]}]] + body[i + 1:]}
            if isinstance(key, str) and "." in key:
                parts = key.split(".")
                for j in range(len(parts)):
                    k2 = ".".join(parts[:j] + parts[j + 1:])
                    if k2 != key:
                        yield {**c, "ops": body[:i] + [[op, s, k2, val]] + body[i + 1:]}
