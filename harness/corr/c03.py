"""C03: tags behave as typed arrays -- real Logix objects vs Cpppo.Logix.exec (Lean)."""
import json

from framework import Suite
from corr import logix_common as lc
from corr import logix_gen as lg


def rand_history(rng, tags, nreq, multi=True, invalid=0.15, class_level=False):
    reqs = []
    for _ in range(nreq):
        reqs.append(rand_req(rng, tags, multi=multi, invalid=invalid, class_level=class_level))
    return reqs


def rand_req(rng, tags, multi=True, invalid=0.15, budget=None, class_level=False):
    t = rng.choice(tags)
    ln, ty = t["len"], t["type"]
    r = rng.random()
    bad = rng.random() < invalid
    if multi and r < 0.08:
        n = rng.randint(1, 6)
        return {"op": "mu", "path": [["c", 2], ["i", 1]],
                "reqs": [rand_req(rng, tags, multi=False, invalid=invalid, class_level=class_level) for _ in range(n)]}
    if r >= 0.97 and class_level:
        # the class-level instance 0 of a class in use: its static attributes 1 (Revision) and 4 (Optional Attributes)
        c = rng.choice([2, 2] + [x["addr"][0] for x in tags if x.get("addr")])
        p = [["c", c], ["i", 0], ["a", rng.choice(lg.CLASS_ATTRS)]]
        k = rng.random()
        if k < 0.6:
            return {"op": "gs", "path": p}
        if k < 0.8:
            return {"op": "rt", "path": p, "n": 1}
        return {"op": "ss", "path": p, "data": [rng.randrange(256) for _ in range(3 if bad else 2)]}
    if r < 0.14 and t.get("addr"):
        c, i, a = t["addr"]
        p = [["c", c], ["i", i], ["a", a]]
        k = rng.random()
        if k < 0.5:
            return {"op": "gs", "path": p}
        if k < 0.9 and ty in lc.SIZES:
            # a wrong size: a byte more or less, or a whole element more or less
            n = lc.SIZES[ty] * ln + (rng.choice([-1, 1, -lc.SIZES[ty], lc.SIZES[ty], -lc.SIZES[ty] * (ln - 1)]) if bad else 0)
            return {"op": "ss", "path": p, "data": [rng.randrange(256) for _ in range(max(n, 1))]}
        return {"op": "ga", "path": [["c", c], ["i", i]]}
    idx = rng.choice([0, 0, ln - 1, rng.randrange(ln)])
    n = rng.choice([1, ln - idx, rng.randint(1, ln - idx)])
    if bad:
        k = rng.random()
        if k < 0.3:
            idx = rng.choice([ln, ln + 1, ln + 7])
        elif k < 0.6:
            n = rng.choice([0, ln - idx + 1, ln + 1])
        elif k < 0.7:
            return {"op": "rt", "path": [["s", "nosuch"]], "n": 1}
    path = lg.tag_path(rng, t, elem=(idx if (idx or rng.random() < 0.5) else None))
    siz = lc.SIZES.get(ty, 80)
    if r < 0.45:
        return {"op": "rt", "path": path, "n": n}
    if r < 0.6:
        off = rng.choice([0, 0, siz * rng.randint(0, max(n - 1, 0))])
        if bad and rng.random() < 0.3:
            off += 1
        return {"op": "rf", "path": path, "n": n, "off": off}
    reqty = rng.choice(lg.ALLOWED[ty]) if not (bad and rng.random() < 0.3) else rng.choice(lg.ALL_TYPES)
    if r < 0.85:
        nd = n if rng.random() < 0.85 else rng.randint(1, max(n, 1))
        if bad and rng.random() < 0.2:
            nd = n + 1
        vals = [fit_val(rng, ty, reqty, bad) for _ in range(max(nd, 1))]
        return {"op": "wt", "path": path, "ty": lc.TYPES[reqty], "n": n, "vals": vals}
    k0 = rng.randint(0, max(n - 1, 0))
    nd = rng.randint(1, max(n - k0, 1))
    vals = [fit_val(rng, ty, reqty, bad) for _ in range(nd)]
    return {"op": "wf", "path": path, "ty": lc.TYPES[reqty], "n": n, "off": k0 * siz, "vals": vals}


def fit_val(rng, tagty, reqty, bad=False):
    """a value of request type reqty, mostly representable in tagty"""
    for _ in range(20):
        v = lg.rand_val(rng, reqty)
        if bad or lg.ArraySpec.enc(tagty, v, reqty) is not None:
            return v
    return lg.ArraySpec.zero(reqty)


class C03(Suite):
    id = "C03"
    props_module = "Cpppo.Props.C03"
    rule = ("random device configurations (1-5 tags, all 13 element types, scalar and arrays, auto-allocated and "
            "@class/instance/attribute-bound incl. aliases) x random histories of 1-40 requests (Read/Write Tag "
            "[Fragmented], Get/Set Attribute Single, Get Attributes All, Multiple Service Packets), symbolic "
            "(random letter case, multi-segment) and numeric paths; every request is encoded, parsed by the real "
            "parser and executed; reply bytes and the bytes of every attribute are compared after every request. "
            "non-trivial = history containing a successful write followed by a read of the same tag; distinct by case")
    assumptions = ["tag-holding objects only (Logix Message Router and classes derived from it by setup_tag); "
                   "UDT/STRUCT tags, forced attribute errors, Get Attribute List and the built-in Identity/TCPIP/"
                   "Connection Manager objects are outside the model",
                   "float NaN payloads are not generated (Python float conversion may quieten them)"]

    check_errors = False

    def cases(self, tier, rng):
        # every element type, scalar and array, created by the simulator's own command-line handling
        for ty in lg.ALL_TYPES:
            tags = [{"name": "S", "type": ty, "len": 1, "addr": None}, {"name": "V", "type": ty, "len": 3, "addr": None}]
            reqs = []
            for name, ln in (("S", 1), ("V", 3)):
                reqs.append({"op": "rt", "path": [["s", name]], "n": ln})
                for _ in range(4):
                    reqs.append({"op": "wt", "path": [["s", name]], "ty": lc.TYPES[ty], "n": ln,
                                 "vals": [lg.rand_val(rng, ty) for _ in range(ln)]})
                    reqs.append({"op": "rt", "path": [["s", name]], "n": ln})
            yield {"budget": 488, "tags": tags, "reqs": reqs, "via_main": True}
        # tags of one type and length at different Attributes of one Instance, configured through main(): separate arrays
        for ty, ln in (("DINT", 4), ("INT", 1), ("REAL", 3)):
            tags = [{"name": "A", "type": ty, "len": ln, "addr": [0x99, 1, 1]}, {"name": "B", "type": ty, "len": ln, "addr": [0x99, 1, 2]},
                    {"name": "C", "type": ty, "len": ln, "addr": [0x99, 2, 1]}]
            reqs = []
            for j, t in enumerate(tags):
                reqs.append({"op": "wt", "path": [["s", t["name"]]], "ty": lc.TYPES[ty], "n": ln,
                             "vals": [lg.rand_val(rng, ty) for _ in range(ln)]})
            reqs += [{"op": "rt", "path": [["s", t["name"]]], "n": ln} for t in tags]
            yield {"budget": 488, "tags": tags, "reqs": reqs, "via_main": True}
        # more than ten tags: every one is its own array (write all, then read all)
        for k in range(4 if tier == "quick" else 40):
            tags = lg.many_tags(rng)
            reqs = [{"op": "wt", "path": [["s", t["name"]]], "ty": lc.TYPES[t["type"]], "n": t["len"],
                     "vals": [lg.rand_val(rng, t["type"]) for _ in range(t["len"])]} for t in tags]
            reqs += [{"op": "rt", "path": [["s", t["name"]]], "n": t["len"]} for t in tags]
            c = {"budget": 488, "tags": tags, "reqs": reqs}
            if k % 2:
                c["via_main"] = True
            yield c
        n = 250 if tier == "quick" else 3000
        for k in range(n):
            tags = lg.rand_tags(rng, big=(tier == "thorough"))
            c = {"budget": rng.choice([488, 488, 488, 100, 24, 1000]), "tags": tags,
                 "reqs": rand_history(rng, tags, rng.randint(1, 40), class_level=True)}
            if k % 10 == 0:
                # every 10th device is created by the simulator's own command-line tag handling (main.py)
                c["via_main"] = True
                for t in tags:
                    if rng.random() < 0.5:
                        t["len"] = 1      # scalars matter there (main.py picks the initial value's Python type)
                # names configured at one explicit address are one Attribute: they must agree in type and length
                first = {}
                for t in tags:
                    if t.get("addr"):
                        o = first.setdefault(tuple(t["addr"]), t)
                        t["type"], t["len"] = o["type"], o["len"]
            yield c

    def model_line(self, c):
        return lc.model_line(c)

    def impl(self, c):
        return lc.run_case(c)

    def oracle(self, c, out):
        return lg.oracle_history(c, out, check_errors=self.check_errors)

    def known_key(self, c):
        return json.dumps({k: c.get(k) for k in ("budget", "tags", "reqs", "via_main")}, sort_keys=True)

    def nontrivial(self, c, out):
        wrote = set()
        ok = False
        steps = out.split(";") if out not in ("-", "") else []
        for r, s in zip(c["reqs"], steps):
            rep = s.split("@")[0]
            if r["op"] in ("wt", "wf") and rep[4:6] == "00":
                wrote.add(json.dumps(r["path"][:1]))
            if r["op"] in ("rt", "rf") and json.dumps(r["path"][:1]) in wrote:
                ok = True
        return self.known_key(c) if ok else None

    def classify(self, c, out):
        ops = sorted({r["op"] for r in c["reqs"]})
        return "+".join(ops)

    def shrink(self, c):
        rs = c["reqs"]
        for i in range(len(rs)):
            yield dict(c, reqs=rs[:i] + rs[i + 1:])
        for i, r in enumerate(rs):
            if r["op"] == "mu":
                for j in range(len(r["reqs"])):
                    m = dict(r, reqs=r["reqs"][:j] + r["reqs"][j + 1:])
                    if m["reqs"]:
                        yield {"budget": c["budget"], "tags": c["tags"], "reqs": rs[:i] + [m] + rs[i + 1:]}
        if len(c["tags"]) > 1:
            used = json.dumps(rs)
            for i, t in enumerate(c["tags"]):
                if json.dumps(t["name"])[1:-1].lower() not in used.lower():
                    yield {"budget": c["budget"], "tags": c["tags"][:i] + c["tags"][i + 1:], "reqs": rs}
