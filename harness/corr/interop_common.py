"""
C14 plumbing: a persistent Lean driver, the real simulator behind either `logix.process` (in-process,
frame by frame) or a TCP socket (`cpppo.server.enip.main` in a thread on an ephemeral 127.0.0.1 port),
a capturing TCP relay for pylogix, and a small stand-alone reply-frame parser for the oracle.
"""
import logging
import os
import socket
import struct
import subprocess
import threading
import time

from corr import logix_common as lc

HERE = os.path.dirname(os.path.abspath(__file__))
DRIVER = os.path.join(os.path.dirname(os.path.dirname(HERE)), "lean", ".lake", "build", "bin", "cpppo_model")


# ------------------------------------------------------------------------------------------------
# persistent driver (the driver answers line by line and flushes)
# ------------------------------------------------------------------------------------------------
class Drv:
    def __init__(self):
        self.p = None

    def ask(self, line):
        if self.p is None or self.p.poll() is not None:
            self.p = subprocess.Popen([DRIVER], stdin=subprocess.PIPE, stdout=subprocess.PIPE, text=True, bufsize=1)
        self.p.stdin.write(line + "\n")
        self.p.stdin.flush()
        out = self.p.stdout.readline()
        if not out:
            raise RuntimeError("driver died on: " + line[:200])
        return out.rstrip("\n")

    def close(self):
        if self.p is not None:
            try:
                self.p.stdin.close()
                self.p.wait(timeout=5)
            except Exception:
                self.p.kill()
            self.p = None


DRV = Drv()


# ------------------------------------------------------------------------------------------------
# stand-alone frame parsing (oracle side; no cpppo, no Lean)
# ------------------------------------------------------------------------------------------------
def parse_frame(b):
    if len(b) < 24:
        return None
    cmd, ln, ses, sts = struct.unpack_from("<HHII", b, 0)
    ctx = b[12:20]
    opt = struct.unpack_from("<I", b, 20)[0]
    if len(b) != 24 + ln:
        return None
    return {"cmd": cmd, "len": ln, "session": ses, "status": sts, "ctx": ctx, "options": opt, "payload": b[24:]}


def parse_items(payload):
    """SendRRData / SendUnitData payload -> (interface, timeout, [(type, data)]) or None"""
    if len(payload) < 8:
        return None
    iface, timeout, count = struct.unpack_from("<IHH", payload, 0)
    pos, items = 8, []
    for _ in range(count):
        if len(payload) < pos + 4:
            return None
        ty, ln = struct.unpack_from("<HH", payload, pos)
        pos += 4
        if len(payload) < pos + ln:
            return None
        items.append((ty, payload[pos:pos + ln]))
        pos += ln
    if pos != len(payload):
        return None
    return iface, timeout, items


def cip_of_reply(frame):
    """the CIP reply bytes carried by a SendRRData / SendUnitData reply frame (None if there are none)"""
    f = parse_frame(frame)
    if not f or f["status"] != 0 or f["cmd"] not in (0x6F, 0x70):
        return None
    it = parse_items(f["payload"])
    if not it or len(it[2]) != 2:
        return None
    (t0, d0), (t1, d1) = it[2]
    if t0 == 0 and d0 == b"" and t1 == 0xB2:
        return d1
    if t0 == 0xA1 and len(d0) == 4 and t1 == 0xB1 and len(d1) >= 2:
        return d1[2:]
    return None


def split_stream(b):
    """a captured byte stream -> complete frames (by the encapsulation length field)"""
    out = []
    while len(b) >= 24:
        ln = struct.unpack_from("<H", b, 2)[0]
        if len(b) < 24 + ln:
            break
        out.append(b[:24 + ln])
        b = b[24 + ln:]
    return out, b


# ------------------------------------------------------------------------------------------------
# the real simulator
# ------------------------------------------------------------------------------------------------
_PORT = [40000]


class Sim:
    """mode 'proc': logix.setup + logix.process per frame;  mode 'sock': enip main() thread + TCP"""

    def __init__(self, case, mode):
        import cpppo
        from cpppo.server.enip import device, logix, parser
        from cpppo.server.enip import main as enip_main_mod
        self.cpppo, self.device, self.logix, self.parser, self.main = cpppo, device, logix, parser, enip_main_mod
        logging.disable(logging.CRITICAL)
        self.mode = mode
        self.case = case
        self.sock = None
        self.thread = None
        self.control = None
        self.saved_max = logix.Logix.MAX_BYTES
        if mode == "proc":
            self.dev = lc.Device(case)          # lookup_reset, setup_reset, MAX_BYTES, logix.setup(tags=…)
            self.addrs = self.dev.addrs
            _PORT[0] += 1
            self.peer = ("127.0.0.1", _PORT[0])
            self.machine = parser.enip_machine(context="enip")
        else:
            device.lookup_reset()
            logix.setup_reset()
            logix.Logix.MAX_BYTES = case["budget"]
            for g in (enip_main_mod.tags, enip_main_mod.options, enip_main_mod.connections, enip_main_mod.srv_ctl):
                dict.clear(g)
            argv = ["--no-config", "--address", "127.0.0.1:0", "--no-udp"]
            for t in case["tags"]:
                at = ("@%d/%d/%d" % tuple(t["addr"])) if t.get("addr") else ""
                argv.append("%s%s=%s[%d]" % (t["name"], at, t["type"], t["len"]))
            self.control = cpppo.apidict(0.5, {"done": False, "latency": 0.01})
            kwargs = {"argv": argv, "server": {"control": self.control}}
            self.thread = threading.Thread(target=enip_main_mod.main, kwargs=kwargs, daemon=True)
            self.thread.start()
            t0 = time.time()
            while "address" not in self.control:
                if time.time() - t0 > 10 or not self.thread.is_alive():
                    raise RuntimeError("simulator did not start")
                time.sleep(0.002)
            self.address = tuple(self.control["address"])
            self.dev = lc.Device.__new__(lc.Device)
            self.dev.cpppo, self.dev.device, self.dev.logix, self.dev.parser = cpppo, device, logix, parser
            self.dev.saved_max = self.saved_max
            self.addrs = None
            self.peer = None

    # -- session ---------------------------------------------------------------------------------
    def connect(self, address=None):
        if self.mode == "sock":
            self.sock = socket.create_connection(address or self.address, timeout=5)
            self.sock.setsockopt(socket.IPPROTO_TCP, socket.TCP_NODELAY, 1)
            self.peer = self.sock.getsockname()

    def exchange(self, frame):
        """send one complete frame -> (kind, reply bytes): R reply, F reply then closed, C closed, D dropped"""
        if self.mode == "proc":
            return self._exchange_proc(frame)
        self.sock.sendall(frame)
        buf = b""
        try:
            while True:
                if len(buf) >= 24 and len(buf) >= 24 + struct.unpack_from("<H", buf, 2)[0]:
                    break
                chunk = self.sock.recv(65536)
                if not chunk:
                    break
                buf += chunk
        except (socket.timeout, OSError):
            pass
        frames, rest = split_stream(buf)
        if not frames:
            return ("C" if not buf else "D"), b""
        reply = frames[0]
        status = struct.unpack_from("<I", reply, 8)[0]
        return ("F" if status else "R"), reply

    def _exchange_proc(self, frame):
        cpppo, logix, parser = self.cpppo, self.logix, self.parser
        data = cpppo.dotdict()
        source = cpppo.chainable(frame)
        try:
            with self.machine as machine:
                for _m, _s in machine.run(path="request", source=source, data=data):
                    pass
            enip = data.get("request.enip")
            if enip is None or "options" not in enip or len(enip.get("input", b"")) != enip.length:
                raise AssertionError("incomplete frame")
            if logix.process(self.peer, data=data):
                rpy = parser.enip_encode(data.response.enip)
                if data.response.enip.status:
                    self.over = True        # enip_srv_tcp: eof, no clean-up call
                    return "F", bytes(rpy)
                return "R", bytes(rpy)
            self.over = True
            return "C", b""
        except Exception as exc:      # enip_srv_tcp: the session ends without a reply
            self.last_exc = exc
            self.over = True
            try:
                logix.process(self.peer, data=cpppo.dotdict())
            except Exception:
                pass
            return "D", b""

    def end_session(self):
        """EOF from the client; returns once the server has cleaned up"""
        if self.mode == "proc":
            if not getattr(self, "over", False):       # client EOF: enip_srv_tcp hands an empty request to process
                try:
                    self.logix.process(self.peer, data=self.cpppo.dotdict())
                except Exception:
                    pass
            return
        if self.sock is not None:
            try:
                self.sock.close()
            except OSError:
                pass
            self.sock = None
        self.wait_idle()

    def wait_idle(self, timeout=3.0):
        t0 = time.time()
        while time.time() - t0 < timeout:
            if not len(self.main.connections):
                return True
            time.sleep(0.002)
        return False

    # -- observation -----------------------------------------------------------------------------
    def learn_addrs(self):
        if self.addrs is None:
            self.addrs = {}
            for t in self.case["tags"]:
                self.addrs[t["name"]] = self.device.resolve_tag(t["name"])
            if any(v is None for v in self.addrs.values()):
                # tags are created by the first logix.process call; force it
                self.logix.setup(tags=self.main.tags)
                for t in self.case["tags"]:
                    self.addrs[t["name"]] = self.device.resolve_tag(t["name"])
            self.dev.addrs = self.addrs
        return self.addrs

    def tag_line(self):
        self.learn_addrs()
        return self.dev.tag_line(self.case)

    def dump(self):
        self.learn_addrs()
        return self.dev.dump()

    def nfwds(self):
        cm = self.device.lookup(0x06, 1)
        if cm is None or self.peer is None:
            return 0
        return len([k for k in cm.forwards if tuple(k[:2]) == tuple(self.peer[:2])])

    def close(self):
        try:
            if self.sock is not None:
                self.sock.close()
        except OSError:
            pass
        if self.control is not None:
            self.control["done"] = True
            self.thread.join(5)
        self.logix.Logix.MAX_BYTES = self.saved_max
        cm = self.device.lookup(0x06, 1)
        if cm is not None:
            cm.forwards.clear()


# ------------------------------------------------------------------------------------------------
# capturing relay (pylogix -> relay -> simulator)
# ------------------------------------------------------------------------------------------------
class Relay:
    def __init__(self, target):
        self.target = target
        self.cap = {"C": b"", "S": b""}
        self.order = []                 # (direction, nbytes) in arrival order
        self.lock = threading.Lock()
        self.ls = socket.socket()
        self.ls.bind(("127.0.0.1", 0))
        self.ls.listen(1)
        self.port = self.ls.getsockname()[1]
        self.up = None
        self.down = None
        self.killed = False
        self.server_closed = False
        self.threads = []
        self.t = threading.Thread(target=self._accept, daemon=True)
        self.t.start()

    def _accept(self):
        try:
            c, _ = self.ls.accept()
        except OSError:
            return
        s = socket.create_connection(self.target, timeout=5)
        s.settimeout(None)
        self.up = s
        self.down = c
        self.upstream_peer = s.getsockname()
        for a, b, tag in ((c, s, "C"), (s, c, "S")):
            th = threading.Thread(target=self._pump, args=(a, b, tag), daemon=True)
            th.start()
            self.threads.append(th)

    def _pump(self, a, b, tag):
        try:
            while True:
                d = a.recv(65536)
                if not d:
                    break
                with self.lock:
                    self.cap[tag] += d
                    self.order.append((tag, len(d)))
                b.sendall(d)
        except OSError:
            pass
        if tag == "S":
            self.server_closed = True
        try:
            b.shutdown(socket.SHUT_WR)
        except OSError:
            pass

    def kill(self):
        """cut both connections (a client looping forever on an unexpected reply gets a socket error)"""
        self.killed = True
        self.server_closed = True
        for sk in (self.down, self.up):
            try:
                if sk is not None:
                    sk.shutdown(socket.SHUT_RDWR)
            except OSError:
                pass

    def close(self):
        try:
            self.ls.close()
        except OSError:
            pass
        for th in self.threads:
            th.join(2)
        try:
            if self.up is not None:
                self.up.close()
        except OSError:
            pass

    def frames(self):
        with self.lock:
            c, rc = split_stream(self.cap["C"])
            s, rs = split_stream(self.cap["S"])
        return c, s, rc, rs
