"""C20: server/tnetstrings.py dump/parse and server/tnet.py tnet_machine/tnet_from  vs  Cpppo.Tnet (Lean).

Cases (JSON):
  {"op": "rt", "v": <val>, "tail": <hex>, "enc": <codec>} dump(v, encoding=E); parse(dump + tail, encoding=E)
  {"op": "parse", "data": <hex>, "enc": <codec>}          parse(arbitrary bytes, encoding=E)
  {"op": "stream", "chunks": [<hex>...], "vals": [<val>...] | null, "tail": <hex>,
   "ignore": <hex>, "seps": [<hex>...] | absent}          tnet_from(ignore=...) fed the chunks by a scripted recv,
                                                          then EOF; seps[i] = separators in front of message i
<codec> is utf8 | latin1 | ascii | utf16 (absent = utf8), the `encoding=` option given to BOTH dump and parse.
<val> is a tagged list: ["i", "<decimal>"], ["f", "<float.hex()|nan|inf|-inf>"], ["b", bool], ["n"],
  ["y", "<hex>"], ["t", [code points]], ["L", [<val>...]], ["D", [[[key code points], <val>]...]]
"""
import itertools
import json

from framework import Suite

PROTO = b"0123456789:,#~$]}!^"

# --------------------------------------------------------------------------------------------------
# values
# --------------------------------------------------------------------------------------------------


def hx(b):
    return b.hex() if b else "-"


def unhx(s):
    return b"" if s == "-" else bytes.fromhex(s)


def cps_tok(cps):
    return ".".join(str(c) for c in cps) if cps else "-"


def to_py(v):
    """JSON value -> the Python object handed to the real dump()"""
    k = v[0]
    if k == "i":
        return int(v[1])
    if k == "f":
        return float(v[1]) if v[1] in ("nan", "inf", "-inf") else float.fromhex(v[1])
    if k == "b":
        return bool(v[1])
    if k == "n":
        return None
    if k == "y":
        return unhx(v[1])
    if k == "t":
        return "".join(chr(c) for c in v[1])
    if k == "L":
        return [to_py(x) for x in v[1]]
    if k == "D":
        return {"".join(chr(c) for c in key): to_py(x) for key, x in v[1]}
    raise ValueError(k)


def float_json(x):
    r = repr(x)
    return ["f", r if r in ("nan", "inf", "-inf") else x.hex()]


def enc_json(v):
    """JSON value -> wire tokens (what an equal value of the same types looks like on the wire)"""
    k = v[0]
    if k == "i":
        return ["i" + str(int(v[1]))]
    if k == "f":
        return ["f" + hx(str(to_py(v)).encode("ascii"))]
    if k == "b":
        return ["b1" if v[1] else "b0"]
    if k == "n":
        return ["n"]
    if k == "y":
        return ["y" + (v[1] or "-")]
    if k == "t":
        return ["t" + cps_tok(v[1])]
    if k == "L":
        return ["L%d" % len(v[1])] + [t for x in v[1] for t in enc_json(x)]
    if k == "D":
        out = ["D%d" % len(v[1])]
        for key, x in v[1]:
            out.append("k" + cps_tok(key))
            out.extend(enc_json(x))
        return out
    raise ValueError(k)


def enc_py(x):
    """a Python object produced by the real code -> wire tokens; exact types, no coercion"""
    t = type(x)
    if t is bool:
        return ["b1" if x else "b0"]
    if t is int:
        return ["i" + str(x)]
    if t is float:
        return ["f" + hx(str(x).encode("ascii"))]
    if x is None:
        return ["n"]
    if t is bytes:
        return ["y" + hx(x)]
    if t is str:
        return ["t" + cps_tok([ord(c) for c in x])]
    if t is list:
        return ["L%d" % len(x)] + [tk for e in x for tk in enc_py(e)]
    if t is dict:
        out = ["D%d" % len(x)]
        for key, e in x.items():
            assert type(key) is str, "non-str key %r" % (key,)
            out.append("k" + cps_tok([ord(c) for c in key]))
            out.extend(enc_py(e))
        return out
    raise TypeError("unexpected result type %s" % t.__name__)


def read_tokens(toks, i=0):
    """wire tokens -> (JSON value, next index); the inverse of enc_json (floats stay as their text)"""
    t = toks[i]
    k, body = t[0], t[1:]
    if k == "i":
        return ["i", str(int(body))], i + 1
    if k == "f":
        return ["ftext", body], i + 1
    if k == "b":
        return ["b", body == "1"], i + 1
    if k == "n":
        return ["n"], i + 1
    if k == "y":
        return ["y", "" if body == "-" else body], i + 1
    if k == "t":
        return ["t", [] if body == "-" else [int(c) for c in body.split(".")]], i + 1
    if k == "L":
        items, i = [], i + 1
        for _ in range(int(body)):
            v, i = read_tokens(toks, i)
            items.append(v)
        return ["L", items], i
    if k == "D":
        items, i = [], i + 1
        for _ in range(int(body)):
            key = toks[i][1:]
            v, i = read_tokens(toks, i + 1)
            items.append([[] if key == "-" else [int(c) for c in key.split(".")], v])
        return ["D", items], i
    raise ValueError(t)


def canon(v):
    """equality of values as Python sees it, plus exact types: dict items are unordered"""
    k = v[0]
    if k == "f":
        return ["ftext", hx(str(to_py(v)).encode("ascii"))]
    if k == "y":
        return ["y", v[1] if v[1] != "-" else ""]
    if k == "L":
        return ["L", [canon(x) for x in v[1]]]
    if k == "D":
        return ["D", sorted(([key, canon(x)] for key, x in v[1]), key=lambda kv: kv[0])]
    if k == "i":
        return ["i", str(int(v[1]))]
    return v


def same_value(tokens, v):
    try:
        got, n = read_tokens(tokens)
    except (ValueError, IndexError):
        return False
    return n == len(tokens) and canon(got) == canon(v)


CODECS = {"utf8": "utf-8", "latin1": "latin-1", "ascii": "ascii", "utf16": "utf-16"}


def enc_of(c):
    return c.get("enc") or "utf8"


def cp_limit(enc):
    return {"latin1": 256, "ascii": 128}.get(enc)


def is_scalar(c):
    return 0 <= c < 0xD800 or 0xE000 <= c < 0x110000


def in_scope(v, enc="utf8"):
    """what dump() documents as serialisable: text the codec can encode (Unicode scalar values; below
    256 / 128 for latin-1 / ascii), ASCII dictionary keys"""
    k = v[0]
    if k == "t":
        lim = cp_limit(enc)
        return all(is_scalar(c) and (lim is None or c < lim) for c in v[1])
    if k == "L":
        return all(in_scope(x, enc) for x in v[1])
    if k == "D":
        return all(all(c < 128 for c in key) and in_scope(x, enc) for key, x in v[1])
    return True


def depth(v):
    if v[0] == "L":
        return 1 + max([depth(x) for x in v[1]] or [0])
    if v[0] == "D":
        return 1 + max([depth(x) for _, x in v[1]] or [0])
    return 0


def plen(v):
    return len(v[1]) // 2 if v[0] == "y" else len(v[1])


def ptrunc(v, n):
    return [v[0], v[1][:2 * n]] if v[0] == "y" else [v[0], v[1][:n]]


def supported_by_stream(v):
    return v[0] in ("i", "y", "t", "n")


REJECT = (AssertionError, ValueError)      # UnicodeError is a ValueError


# --------------------------------------------------------------------------------------------------
# the real code
# --------------------------------------------------------------------------------------------------
def real_parse_line(data, enc="utf8"):
    from cpppo.server import tnetstrings
    try:
        value, rest = tnetstrings.parse(data, encoding=CODECS[enc])
    except REJECT:
        return "reject"
    return " ".join(enc_py(value)) + " / " + hx(rest)


def real_stream(chunks, ignore=b""):
    """tnet_from() over a scripted network.recv: the chunks, then EOF"""
    import cpppo
    from cpppo.server import tnet
    from cpppo.automata import NonTerminal
    pending = list(chunks)

    def scripted_recv(conn, timeout=None, maxlen=None):
        return pending.pop(0) if pending else b""

    saved = tnet.network.recv
    tnet.network.recv = scripted_recv
    out = []
    try:
        source = cpppo.chainable()
        try:
            for msg in tnet.tnet_from(None, ("verif", 0), source=source, ignore=ignore or None):
                out.append(" ".join(enc_py(msg)) + "@%d" % source.sent)
            out.append("end@%d" % source.sent)
        except REJECT + (NonTerminal,):
            out.append("reject")
    finally:
        tnet.network.recv = saved
    return " ".join(out)


class FloatSpy:
    """records what tnetstrings.parse hands to float(): the only way to see whether a payload is the
    canonical str(float) text (the model's float is that token)."""

    def __init__(self):
        self.seen = []

    def __call__(self, payload):
        self.seen.append(payload)
        return float(payload)


def noncanonical_float(data, enc="utf8"):
    """True when real parse(data) converts a '^' payload that is not str() of the resulting float"""
    from cpppo.server import tnetstrings
    spy = FloatSpy()
    tnetstrings.float = spy
    try:
        try:
            tnetstrings.parse(data, encoding=CODECS[enc])
        except Exception:
            pass
    finally:
        del tnetstrings.float
    for p in spy.seen:
        try:
            if str(float(p)).encode("ascii") != p:
                return True
        except ValueError:
            pass
    return False


# --------------------------------------------------------------------------------------------------
# generators
# --------------------------------------------------------------------------------------------------
EDGE_LENS = [0, 0, 1, 1, 2, 3, 8, 9, 10, 11, 12, 20, 98, 99, 100, 101, 102, 250]
BIG_LENS = [999, 1000, 1001, 1234, 9999, 10000, 10001]
FLOATS = [0.0, -0.0, 0.5, 1.5, -2.25, 0.1, 1 / 3, 1e16, 1e22, 1e-7, 1.5e-7, 5e-324, 1.7976931348623157e308,
          123456789012345678.0, float("inf"), float("-inf"), float("nan"), 2.0 ** 53, 3.141592653589793]
INTS = [0, 1, -1, 7, 9, 10, -10, 99, 100, 255, 256, -32768, 65535, 2 ** 31, -2 ** 63, 2 ** 64, 10 ** 30, -(10 ** 30) + 1]
TEXT_ALPHA = [0x61, 0x3A, 0x31, 0x2C, 0x23, 0x7E, 0x5D, 0x20, 0x00, 0x7F, 0x80, 0xE9, 0x7FF, 0x800, 0x20AC, 0xD7FF,
              0xE000, 0xFFFD, 0xFFFF, 0x10000, 0x1F600, 0x10FFFF, 0x3C0, 0xFEFF, 0xFFFE]
KEY_ALPHA = [0x61, 0x62, 0x3A, 0x31, 0x2C, 0x7E, 0x20, 0x7F, 0x00, 0x5F]


def gen_bytes(rng, big=False):
    n = rng.choice(BIG_LENS if big else EDGE_LENS)
    mode = rng.random()
    if mode < 0.55:
        return bytes(rng.choice(PROTO) for _ in range(n))
    if mode < 0.8:
        return bytes(rng.randrange(256) for _ in range(n))
    # something that looks like tnetstrings itself
    from cpppo.server import tnetstrings
    inner = tnetstrings.dump(bytes(rng.choice(PROTO) for _ in range(rng.choice([0, 1, 9, 10])))) * max(1, n // 6)
    return inner[:n] if n else b""


def gen_text(rng, big=False, bad=False):
    n = rng.choice(BIG_LENS if big else EDGE_LENS)
    cps = [rng.choice(TEXT_ALPHA) if rng.random() < 0.8 else rng.randrange(0x110000) for _ in range(n)]
    cps = [c if is_scalar(c) else 0x41 for c in cps]
    if rng.random() < 0.12:
        # text that BEGINS with U+FEFF (a byte order mark to codecs that strip one) is ordinary text here
        cps = [0xFEFF] + cps[1:]
    if bad and cps:
        cps[rng.randrange(len(cps))] = rng.choice([0xD800, 0xDBFF, 0xDC00, 0xDFFF])
    return cps


def gen_key(rng, bad=False):
    n = rng.choice([0, 1, 1, 2, 3, 5, 10, 11])
    cps = [rng.choice(KEY_ALPHA) if rng.random() < 0.7 else rng.randrange(128) for _ in range(n)]
    if bad:
        cps.append(rng.choice([0x80, 0xE9, 0x20AC]))
    return cps


def gen_leaf(rng, big=False, bad=False):
    k = rng.choice("iifbnyyytt")
    if k == "i":
        return ["i", str(rng.choice(INTS) if rng.random() < 0.6 else rng.randint(-10 ** 12, 10 ** 12))]
    if k == "f":
        x = rng.choice(FLOATS) if rng.random() < 0.6 else rng.uniform(-1e6, 1e6) * 10 ** rng.randint(-30, 30)
        return float_json(x)
    if k == "b":
        return ["b", rng.random() < 0.5]
    if k == "n":
        return ["n"]
    if k == "y":
        return ["y", gen_bytes(rng, big).hex()]
    return ["t", gen_text(rng, big, bad and rng.random() < 0.5)]


def gen_val(rng, d, big=False, bad=False, budget=None):
    """a random value of nesting depth <= d; `budget` caps the number of nodes (wide AND deep explodes)"""
    if budget is None:
        budget = [rng.choice([40, 120, 400]) if not big else 1500]
    budget[0] -= 1
    if d <= 0 or budget[0] <= 0 or rng.random() < 0.35:
        return gen_leaf(rng, big and rng.random() < 0.3, bad)
    width = rng.choice([0, 1, 1, 2, 2, 3, 4, 9, 10, 11]) if not big else rng.choice([0, 30, 100, 334])
    if rng.random() < 0.5:
        return ["L", [gen_val(rng, d - 1, False, bad, budget) for _ in range(width)]]
    items, seen = [], set()
    for _ in range(width):
        key = gen_key(rng, bad and rng.random() < 0.3)
        while tuple(key) in seen:
            key = key + [rng.choice(KEY_ALPHA)]
        seen.add(tuple(key))
        items.append([key, gen_val(rng, d - 1, False, bad, budget)])
    return ["D", items]


LATIN_ALPHA = [0x61, 0x3A, 0x31, 0x2C, 0x7E, 0x20, 0x00, 0x7F, 0x80, 0xA0, 0xE9, 0xFC, 0xDF, 0xFF, 0xC3, 0xA9]
ASCII_ALPHA = [0x61, 0x3A, 0x31, 0x2C, 0x7E, 0x20, 0x00, 0x7F, 0x5D, 0x24]


def fit_val(v, enc, rng, bad=False):
    """bring the text of a value into the range of the codec (a few stay outside when `bad`: dump must raise)"""
    lim = cp_limit(enc)
    if lim is None:
        return v
    k = v[0]
    if k == "t":
        alpha = LATIN_ALPHA if enc == "latin1" else ASCII_ALPHA
        return ["t", [c if c < lim or (bad and rng.random() < 0.3) else alpha[c % len(alpha)] for c in v[1]]]
    if k == "L":
        return ["L", [fit_val(x, enc, rng, bad) for x in v[1]]]
    if k == "D":
        return ["D", [[key, fit_val(x, enc, rng, bad)] for key, x in v[1]]]
    return v


IGNORES = [b"", b"", b"", b"\n", b"\n", b"\r\n", b" \n", b"\x00", b"\n\x00\t"]
RAW_IGNORES = IGNORES + [b"1", b":", b",\n", b"0\n"]


def gen_seps(rng, ignore):
    if not ignore:
        return b""
    return bytes(rng.choice(ignore) for _ in range(rng.choice([0, 0, 1, 1, 1, 2, 2, 3, 5])))


def small_values():
    """exhaustive small scope"""
    leaves = ([["i", s] for s in ("0", "-1", "7", "10", "-10", "123456789")]
              + [float_json(x) for x in (0.5, -0.0, 1e22, float("nan"), float("inf"))]
              + [["b", True], ["b", False], ["n"]]
              + [["y", b.hex()] for b in (b"", b"0", b":", b",", b"~", b"]", b"12", b"3:a,", b"0:~", b"10:", b"\x00\xff")]
              + [["t", cps] for cps in ([], [0x61], [0xE9], [0x20AC], [0x1F600], [0x31, 0x3A], [0x61, 0x3C0, 0x2C],
                                          [0xFEFF], [0xFEFF, 0x61])])
    for v in leaves:
        yield v
    yield ["L", []]
    yield ["D", []]
    keys = [[], [0x61], [0x31, 0x3A]]
    for a in leaves:
        yield ["L", [a]]
        for k in keys:
            yield ["D", [[k, a]]]
    sub = leaves[::3]
    for a, b in itertools.product(sub, sub):
        yield ["L", [a, b]]
        yield ["D", [[[0x61], a], [[0x62, 0x2C], b]]]
    for a in sub:
        yield ["L", [["L", [a]], ["D", [[[0x6B], ["L", [a, a]]]]]]]
        yield ["D", [[[0x78], ["D", [[[0x79], ["L", [a]]]]]]]]


ENC_MIX = ["utf8"] * 5 + ["latin1"] * 2 + ["utf16"] * 2 + ["ascii"]
TAILS = [b"", b"", b"0", b"5", b":", b",", b"~", b"12", b"7:", b"3:ab", b"3:abc,", b"\n", b"x", b"00", b"9:abc"]
STREAM_TAILS = [b"", b"", b"0", b"5", b"12", b"7:", b"3:ab", b"12:0123456789", b"1"]
MUT_ALPHA = b"0123456789:,#~$]}!^? -+_ax\x00\xc3\xa9\xff"


def mutate(rng, data):
    data = bytearray(data)
    for _ in range(rng.choice([1, 1, 1, 2, 3])):
        how = rng.random()
        pos = rng.randrange(len(data) + 1)
        if how < 0.3 and data:
            data[min(pos, len(data) - 1)] = rng.choice(MUT_ALPHA)
        elif how < 0.55 and data:
            del data[min(pos, len(data) - 1)]
        elif how < 0.8:
            data.insert(pos, rng.choice(MUT_ALPHA))
        elif data:
            # bump the first digit run found at or after pos
            for i in list(range(pos, len(data))) + list(range(0, pos)):
                if 0x30 <= data[i] <= 0x39:
                    data[i] = 0x30 + (data[i] - 0x30 + rng.choice([1, 9])) % 10
                    break
    return bytes(data)


def chunkings(rng, data, tier, every=True):
    """(label, chunks) for the stream: whole, every two-way split, bytewise, random k-way"""
    n = len(data)
    yield "whole", [data] if data else []
    if n >= 2:
        cuts = range(1, n)
        if not every or n > (40 if tier == "quick" else 80):
            cuts = sorted(set(rng.randrange(1, n) for _ in range(6 if tier == "quick" else 24)))
        for c in cuts:
            yield "2way", [data[:c], data[c:]]
        if n <= (200 if tier == "quick" else 1200):
            yield "bytewise", [data[i:i + 1] for i in range(n)]
        for _ in range(2):
            k = rng.randint(2, min(8, n - 1)) if n > 2 else 1
            pts = sorted(set(rng.randrange(1, n) for _ in range(k)))
            yield "kway", [data[a:b] for a, b in zip([0] + pts, pts + [n])]


class C20(Suite):
    id = "C20"
    props_module = "Cpppo.Props.C20"
    rule = ("rt: exhaustive small values (leaves, 1-2 element and 2-3 level containers) x tails, plus seeded random "
            "values (depth <= 6 quick / 8 thorough, payload lengths around 0/9/10/99/100/999/1000/9999/10000, payload "
            "bytes drawn from the protocol's own delimiters, multi-byte and boundary code points, wide containers); "
            "stream: 1-3 dumped messages + tail through tnet_from under every two-way split, bytewise and random "
            "k-way chunkings; malformed: all short strings over a protocol alphabet and mutated dumps for parse and "
            "for the stream.  Non-trivial = rt of a non-empty container or of a payload containing protocol bytes "
            "or multi-byte text; a stream case with >= 2 chunks or a non-empty tail; an accepted raw parse.  "
            "Distinct by model line.")
    assumptions = [
        "text consists of Unicode scalar values and dictionary keys are ASCII str (dump's documented restriction; "
        "anything else makes dump raise, which both sides report as reject)",
        "float(str(x)) == x and str(float(str(x))) == str(x) for every float (CPython shortest-repr guarantee; "
        "sampled on every float case, NaN compared by its text)",
        "nesting depth below the interpreter's recursion limit; int text below sys.get_int_max_str_digits()",
        "tnet_from is run with ignore=None, timeout=None, latency=None; recv never returns None",
        "raw '^' payloads that float() accepts but that are not str(float) text (e.g. '1_0', ' 1', '5') are outside "
        "the model's token abstraction and are not generated",
    ]
    trusted_extra = ["Python str(float)/float(str) round trip (the model's float is the opaque str() token)"]

    # ---------------------------------------------------------------------------------------- cases
    def cases(self, tier, rng):
        quick = tier == "quick"
        from cpppo.server import tnetstrings
        # --- rt: exhaustive small scope x tails
        for i, v in enumerate(small_values()):
            tails = TAILS if (i % 7 == 0 or not quick) else [TAILS[i % len(TAILS)], b""]
            for t in dict.fromkeys(tails):
                yield {"op": "rt", "v": v, "tail": hx(t), "enc": "utf8"}
            # the same values through the other codecs (text brought into the codec's range)
            for enc in ("latin1", "utf16", "ascii"):
                if enc == "ascii" and i % 3:
                    continue
                yield {"op": "rt", "v": fit_val(v, enc, rng), "tail": hx(TAILS[(i + len(enc)) % len(TAILS)]), "enc": enc}
        # --- rt: random
        for i in range(6000 if quick else 60000):
            d = rng.choice([0, 1, 1, 2, 2, 3, 4, 6 if quick else 8])
            bad = rng.random() < 0.05
            v = gen_val(rng, d, big=rng.random() < 0.04, bad=bad)
            enc = rng.choice(ENC_MIX)
            v = fit_val(v, enc, rng, bad)
            tail = rng.choice(TAILS) if rng.random() < 0.7 else mutate(rng, tnetstrings.dump(to_py(gen_leaf(rng))))
            yield {"op": "rt", "v": v, "tail": hx(tail), "enc": enc}
        # deep nesting
        for dp in ([30, 120] if quick else [30, 60, 120, 200]):
            v = ["i", "5"]
            for j in range(dp):
                v = ["L", [v]] if j % 2 else ["D", [[[0x6B], v]]]
            yield {"op": "rt", "v": v, "tail": "-", "enc": "utf8"}
        # --- stream: structured messages
        nstream = 400 if quick else 1400
        for i in range(nstream):
            vals = []
            for _ in range(rng.choice([1, 1, 2, 2, 3])):
                v = gen_leaf(rng, big=(not quick and rng.random() < 0.03))
                while not supported_by_stream(v) and rng.random() < 0.93:
                    v = gen_leaf(rng)
                if v[0] in ("y", "t") and plen(v) > (60 if quick else 400) and rng.random() < 0.8:
                    v = ptrunc(v, rng.choice([0, 1, 9, 10, 11, 24]))
                vals.append(v)
            ignore = rng.choice(IGNORES)
            seps = [gen_seps(rng, ignore) for _ in vals]
            tail = gen_seps(rng, ignore) + rng.choice(STREAM_TAILS)
            data = b"".join(sp + tnetstrings.dump(to_py(v)) for sp, v in zip(seps, vals)) + tail
            for label, chunks in chunkings(rng, data, tier, every=(i % 2 == 0)):
                yield {"op": "stream", "chunks": [c.hex() for c in chunks], "vals": vals, "tail": hx(tail),
                       "ignore": hx(ignore), "seps": [hx(sp) for sp in seps]}
        # every small-scope leaf of a supported type as one streamed message (whole and bytewise), then a second one
        for v in small_values():
            if v[0] in ("L", "D"):
                break
            if not supported_by_stream(v):
                continue
            data = tnetstrings.dump(to_py(v))
            for chunks in ([data], [data[j:j + 1] for j in range(len(data))], [data + data[:2]]):
                yield {"op": "stream", "chunks": [c.hex() for c in chunks], "vals": [v], "tail": hx(b"".join(chunks)[len(data):]),
                       "ignore": "-", "seps": ["-"]}
        # the empty stream
        yield {"op": "stream", "chunks": [], "vals": [], "tail": "-", "ignore": "-", "seps": []}
        # --- malformed: exhaustive short strings
        alpha = b"01:,#~a -" if quick else b"012:,#~$a -_]"
        for n in range(0, 5 if quick else 6):
            for tup in itertools.product(alpha, repeat=n):
                yield {"op": "parse", "data": hx(bytes(tup)), "enc": "utf8"}
        salpha = b"01:,#~a\n" if quick else b"012:,#~$a ]\n"
        for n in range(0, 4 if quick else 5):
            for tup in itertools.product(salpha, repeat=n):
                b = bytes(tup)
                for ignore in ((b"", b"\n") if b"\n" in b else (b"",)):
                    yield {"op": "stream", "chunks": [b.hex()] if b else [], "vals": None, "tail": "-",
                           "ignore": hx(ignore)}
                    if ignore and len(b) >= 2:
                        # every two-way split: a separator may begin a block
                        for cut in range(1, len(b)):
                            yield {"op": "stream", "chunks": [b[:cut].hex(), b[cut:].hex()], "vals": None,
                                   "tail": "-", "ignore": hx(ignore)}
        # --- malformed: mutated dumps, raw parse and raw stream
        for i in range(10000 if quick else 80000):
            enc = rng.choice(ENC_MIX)
            v = fit_val(gen_val(rng, rng.choice([0, 0, 1, 2, 3])), enc, rng)
            if not in_scope(v, enc):
                continue
            data = mutate(rng, tnetstrings.dump(to_py(v), encoding=CODECS[enc]) + rng.choice(TAILS))
            if b"^" in data and noncanonical_float(data, enc):
                continue
            yield {"op": "parse", "data": hx(data), "enc": enc}
        for i in range(1200 if quick else 4500):
            vals = [gen_leaf(rng) for _ in range(rng.choice([1, 2, 3]))]
            vals = [ptrunc(v, rng.choice([0, 2, 10, 30])) if v[0] in ("y", "t") else v for v in vals]
            ignore = rng.choice(RAW_IGNORES)
            data = b"".join(gen_seps(rng, ignore) + tnetstrings.dump(to_py(v)) for v in vals) + gen_seps(rng, ignore)
            data = mutate(rng, data) if rng.random() < 0.85 else data
            allc = list(chunkings(rng, data, "quick", every=False))
            two = [x for x in allc if x[0] == "2way"]
            for label, chunks in [x for x in allc if x[0] != "2way"] + two[:2 if quick else 4]:
                yield {"op": "stream", "chunks": [c.hex() for c in chunks], "vals": None, "tail": "-",
                       "ignore": hx(ignore)}

    # ------------------------------------------------------------------------------------- protocol
    def model_line(self, c):
        if c["op"] == "rt":
            return "tn.rt " + enc_of(c) + " " + c["tail"] + " " + " ".join(enc_json(c["v"]))
        if c["op"] == "parse":
            return "tn.parse " + enc_of(c) + " " + c["data"]
        return "tn.stream " + c.get("ignore", "-") + " " + (",".join(c["chunks"]) if c["chunks"] else "-")

    def impl(self, c):
        from cpppo.server import tnetstrings
        if c["op"] == "rt":
            try:
                d = tnetstrings.dump(to_py(c["v"]), encoding=CODECS[enc_of(c)])
            except REJECT:
                return "reject"
            assert type(d) is bytes
            return hx(d) + " " + real_parse_line(d + unhx(c["tail"]), enc_of(c))
        if c["op"] == "parse":
            return real_parse_line(unhx(c["data"]), enc_of(c))
        return real_stream([bytes.fromhex(h) for h in c["chunks"]], unhx(c.get("ignore", "-")))

    # --------------------------------------------------------------------------------------- oracle
    _whole = {}

    def oracle(self, c, out):
        if out.startswith("harness-exception"):
            return out
        if c["op"] == "rt":
            v, enc = c["v"], enc_of(c)
            ok = in_scope(v, enc)
            if out == "reject":
                return None if not ok else "dump(encoding=%s) raised on a value of the supported types" % CODECS[enc]
            dumped, _, parsed = out.partition(" ")
            val, sep, rest = parsed.rpartition(" / ")
            if not sep or rest != c["tail"] or not same_value(val.split(" "), v):
                if not ok:
                    return None
                return "parse(dump(v, encoding=%s)+tail, encoding=%s) is not (v, tail): got %s" % (
                    CODECS[enc], CODECS[enc], parsed[:200])
            if v[0] == "f" and ok:
                x = to_py(v)
                if repr(float(str(x))) != repr(x):
                    return "float(str(x)) != x"
            return None
        if c["op"] == "parse":
            if out == "reject":
                return None
            # an accepted value of the supported types must itself survive dump/parse (same codec)
            from cpppo.server import tnetstrings
            codec = CODECS[enc_of(c)]
            value, _rest = tnetstrings.parse(unhx(c["data"]), encoding=codec)
            try:
                again, rest2 = tnetstrings.parse(tnetstrings.dump(value, encoding=codec), encoding=codec)
            except REJECT as exc:
                return "a parsed value does not survive dump/parse: %s" % type(exc).__name__
            if rest2 != b"" or enc_py(again) != enc_py(value):
                return "a parsed value does not survive dump/parse"
            return None
        # stream
        chunks = [bytes.fromhex(h) for h in c["chunks"]]
        data = b"".join(chunks)
        ignore = unhx(c.get("ignore", "-"))
        if len(chunks) > 1:
            key = (ignore, data)
            whole = self._whole.get(key)
            if whole is None:
                if len(self._whole) > 20000:
                    self._whole.clear()
                whole = self._whole[key] = real_stream([data], ignore)
            if whole != out:
                return "chunking changes the outcome%s: whole=%s chunked=%s" % (
                    " (ignore=%r)" % ignore if ignore else "", whole[:120], out[:120])
        if c["vals"] is not None:
            # the stream is seps[0] dump(v0) seps[1] dump(v1) ... tail, the separators being symbols the
            # caller asked tnet_from to ignore between messages: every message of a supported type must be
            # delivered, with sent exactly at its end
            from cpppo.server import tnetstrings
            got = out.split(" ")
            items, cur = [], []
            for tok in got:
                cur.append(tok)
                if "@" in tok or tok == "reject":
                    items.append(" ".join(cur))
                    cur = []
            seps = [unhx(h) for h in c.get("seps") or ["-"] * len(c["vals"])]
            if any(0x30 <= b <= 0x39 for b in ignore):
                return None                          # ignorable digits: the length prefix itself is ambiguous
            pos = 0
            for i, v in enumerate(c["vals"]):
                if not supported_by_stream(v) or not in_scope(v):
                    return None                      # the property says nothing from here on
                pos += len(seps[i]) + len(tnetstrings.dump(to_py(v)))
                if not data.startswith(tnetstrings.dump(to_py(v)), pos - len(tnetstrings.dump(to_py(v)))):
                    return None                      # (a shrunk or hand-written case that is not of this shape)
                want = " ".join(enc_json(v)) + "@%d" % pos
                if i >= len(items) or items[i] != want:
                    return "message %d%s: want %s got %s" % (
                        i, " (ignore=%r)" % ignore if ignore else "", want[:120],
                        (items[i] if i < len(items) else "nothing")[:120])
        return None

    # ------------------------------------------------------------------------------------- evidence
    def nontrivial(self, c, out):
        if c["op"] == "rt":
            v = c["v"]
            if out == "reject":
                return None
            interesting = (v[0] in ("L", "D") and v[1]) or \
                (v[0] == "y" and any(b in PROTO for b in unhx(v[1]))) or \
                (v[0] == "t" and any(cp > 127 or cp in PROTO for cp in v[1]))
            return self.model_line(c) if interesting else None
        if c["op"] == "parse":
            return None if out == "reject" else self.model_line(c)
        if len(c["chunks"]) >= 2 or (c["vals"] is not None and c["tail"] != "-"):
            return self.model_line(c)
        return None

    def classify(self, c, out):
        if c["op"] == "rt":
            if out == "reject":
                return "rt:reject(out-of-scope)"
            v = c["v"]
            kind = {"i": "int", "f": "float", "b": "bool", "n": "null", "y": "bytes", "t": "text",
                    "L": "list", "D": "dict"}[v[0]]
            if enc_of(c) != "utf8":
                below_dict = v[0] == "D" or (v[0] == "L" and any(x[0] == "D" for x in v[1]))
                return "rt:%s:%s" % (enc_of(c), "dict" if below_dict else kind)
            if v[0] in ("L", "D"):
                d = depth(v)
                return "rt:%s:depth%s" % (kind, d if d < 4 else ("4-8" if d <= 8 else ">8"))
            if v[0] in ("y", "t"):
                n = len(unhx(v[1])) if v[0] == "y" else len(v[1])
                return "rt:%s:len%s" % (kind, "0" if n == 0 else "<10" if n < 10 else "<100" if n < 100
                                        else "<1000" if n < 1000 else ">=1000")
            return "rt:" + kind
        if c["op"] == "parse":
            return "parse:%s%s" % ("" if enc_of(c) == "utf8" else enc_of(c) + ":", "reject" if out == "reject" else "accept")
        n = len(c["chunks"])
        data_len = sum(len(h) // 2 for h in c["chunks"])
        shape = "whole" if n <= 1 else "2way" if n == 2 else "bytewise" if n == data_len else "kway"
        kind = "raw" if c["vals"] is None else "msgs"
        if c.get("ignore", "-") != "-":
            kind += "+ignore"
        return "stream:%s:%s:%s" % (kind, shape, "reject" if out.endswith("reject") else "end")

    def shrink(self, c):
        if c["op"] == "rt":
            v = c["v"]
            if c["tail"] != "-":
                yield {**c, "tail": "-"}
            for w in shrink_val(v):
                yield {**c, "v": w}
        elif c["op"] == "parse":
            d = unhx(c["data"])
            for i in range(len(d)):
                yield {**c, "data": hx(d[:i] + d[i + 1:])}
        else:
            ch = c["chunks"]
            if c["vals"] is not None:
                from cpppo.server import tnetstrings
                ign = c.get("ignore", "-")
                seps0 = c.get("seps") or ["-"] * len(c["vals"])

                def rebuild(vals, seps, tail, cut=None):
                    data = b"".join(unhx(sp) + tnetstrings.dump(to_py(v)) for sp, v in zip(seps, vals)) + unhx(tail)
                    chunks = [data] if data else []
                    if cut is not None and 0 < cut < len(data):
                        chunks = [data[:cut], data[cut:]]
                    return {"op": "stream", "chunks": [x.hex() for x in chunks], "vals": vals, "tail": tail,
                            "ignore": ign, "seps": seps}
                vals = c["vals"]
                cut = len(bytes.fromhex(ch[0])) if len(ch) >= 2 else None
                if len(ch) > 2:
                    yield rebuild(vals, seps0, c["tail"], cut)
                if len(ch) == 2:
                    yield rebuild(vals, seps0, c["tail"])
                if c["tail"] != "-":
                    yield rebuild(vals, seps0, "-", cut)
                for i in range(len(vals)):
                    if len(vals) > 1:
                        drop = len(unhx(seps0[i]) + tnetstrings.dump(to_py(vals[i])))
                        yield rebuild(vals[:i] + vals[i + 1:], seps0[:i] + seps0[i + 1:], c["tail"],
                                      None if cut is None else (cut - drop if i == 0 else cut))
                    if seps0[i] != "-":
                        sp = unhx(seps0[i])
                        yield rebuild(vals, seps0[:i] + [hx(sp[1:])] + seps0[i + 1:], c["tail"], cut)
                    for w in shrink_val(vals[i]):
                        yield rebuild(vals[:i] + [w] + vals[i + 1:], seps0, c["tail"], cut)
            if c["vals"] is None:
                data = b"".join(bytes.fromhex(h) for h in ch)
                for i in range(len(data)):
                    e = data[:i] + data[i + 1:]
                    yield {**c, "chunks": [e.hex()] if e else []}
            for i in range(len(ch) - 1):
                yield {**c, "chunks": ch[:i] + [ch[i] + ch[i + 1]] + ch[i + 2:]}


def shrink_val(v):
    k = v[0]
    if k == "L":
        for i in range(len(v[1])):
            yield ["L", v[1][:i] + v[1][i + 1:]]
            yield v[1][i]
        for i, x in enumerate(v[1]):
            for w in shrink_val(x):
                yield ["L", v[1][:i] + [w] + v[1][i + 1:]]
    elif k == "D":
        for i in range(len(v[1])):
            yield ["D", v[1][:i] + v[1][i + 1:]]
            yield v[1][i][1]
        for i, (key, x) in enumerate(v[1]):
            for w in shrink_val(x):
                yield ["D", v[1][:i] + [[key, w]] + v[1][i + 1:]]
    elif k == "y":
        b = unhx(v[1])
        if len(b) > 1:
            yield ["y", b[:len(b) // 2].hex()]
        for i in range(min(len(b), 12)):
            yield ["y", (b[:i] + b[i + 1:]).hex()]
    elif k == "t":
        if len(v[1]) > 1:
            yield ["t", v[1][:len(v[1]) // 2]]
        for i in range(min(len(v[1]), 12)):
            yield ["t", v[1][:i] + v[1][i + 1:]]
    elif k == "i" and v[1] not in ("0",):
        n = int(v[1])
        yield ["i", str(abs(n) // 10 * (1 if n > 0 else -1))]
