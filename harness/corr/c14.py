"""
C14: independent Logix clients interoperate with the simulator.

Two kinds of case, both against the REAL simulator (in-process `logix.process` frame by frame, or
`cpppo.server.enip.main` in a thread behind a TCP socket on an ephemeral 127.0.0.1 port):

 ref   a session script (Register, Forward Open, requests over the three transports, Forward Close,
       Unregister).  Every request frame is produced by the LEAN reference encoder (`c14.enc`), sent to
       the real server, and the real reply is decoded by the LEAN reference decoder (`c14.dec`).
       impl line  = real reply bytes | Lean-decoded real reply @ bytes of every tag # forwards of the peer
       model line = `c14.run`: reference encoder -> server model -> reference decoder on the same script
                    (with the session handle / connection ids the real server drew at random).
 plx   pylogix (independent implementation) drives Read / Write / multi-read / multi-write through a
       capturing TCP relay.  impl line = what its API returned @ bytes of every tag, plus: the captured
       client frames are replayed through the Lean server model (`c14.srv`) and must be answered with
       exactly the captured server bytes, and every captured reply must be accepted by the Lean decoder.
       model line = `c14.plx`: the generic client model (probe, Read Tag, Read Tag Fragmented while 0x06,
       Write Tag / Write Tag Fragmented chunks, Multiple Service Packet) over `Cpppo.Logix.exec`.

Oracle (independent of Lean): the Python `ArraySpec` array model + a stand-alone frame parser.
"""
import json
import re
import struct
import threading

from framework import Suite
from corr import logix_common as lc
from corr import logix_gen as lg
from corr import c03
from corr import interop_common as ic

PLX_TYPES = ["BOOL", "SINT", "INT", "DINT", "LINT", "USINT", "UINT", "UDINT", "ULINT", "REAL", "LREAL", "SSTRING"]
PLX_FMT = {"BOOL": "<?", "SINT": "<b", "INT": "<h", "DINT": "<i", "LINT": "<q", "USINT": "<B", "UINT": "<H",
           "UDINT": "<I", "ULINT": "<Q", "REAL": "<f", "LREAL": "<d"}
PLX_NAMES = ["A", "b", "Tag_1", "SCADA", "parts", "x.y", "Cfg.Sub.Val", "T9", "zz", "Mixed_Case"]
REF_OPS = ("rt", "rf", "wt", "wf", "mu")


# ------------------------------------------------------------------------------------------------
# rendering of a script step for the driver
# ------------------------------------------------------------------------------------------------
def ports_line(ports):
    return ",".join("%d.%d" % (p, l) for p, l in ports) if ports else "-"


def render_msg(step, conn, seq):
    m = step["m"]
    if m == "reg":
        return "reg~%d~%d" % (step.get("ver", 1), step.get("opts", 0))
    if m == "unreg":
        return "unreg"
    if m == "req":
        t = step["t"]
        if t[0] == "d":
            ts = "d"
        elif t[0] == "w":
            ts = "w:%d:%d:%s" % (t[1], t[2], ports_line(t[3]))
        else:
            cid = t[1] if len(t) > 1 and t[1] is not None else (conn or 0)
            ts = "c:%d:%d" % (cid, seq)
        return "req~%s~%d~%s" % (ts, step["timeout"], lc.req_line(step["req"]))
    if m == "fo":
        nums = [1 if step["large"] else 0, step["prio"], step["ticks"], step["otId"], step["toId"], step["serial"],
                step["vendor"], step["oserial"], step["mult"], step["otRpi"], step["otNcp"], step["toRpi"],
                step["toNcp"], step["tct"]]
        return "fo~%d~%s~%s~%s" % (step["timeout"], ":".join(map(str, nums)), ports_line(step["ports"]),
                                   lc.path_line(step["target"]))
    if m == "fc":
        nums = [step["prio"], step["ticks"], step["serial"], step["vendor"], step["oserial"]]
        return "fc~%d~%s~%s~%s" % (step["timeout"], ":".join(map(str, nums)), ports_line(step["ports"]),
                                   lc.path_line(step["target"]))
    raise ValueError(m)


def fo_ids(reply):
    """(otId, toId) of a successful Forward Open reply frame, else (0, 0)"""
    cip = ic.cip_of_reply(reply)
    if cip and len(cip) >= 12 and cip[0] in (0xD4, 0xDB) and cip[2] == 0:
        return struct.unpack_from("<II", cip, 4)
    return 0, 0


# ------------------------------------------------------------------------------------------------
# ref cases: run
# ------------------------------------------------------------------------------------------------
def run_ref(case):
    sim = ic.Sim(case, case.get("mode", "proc"))
    outs, resolved = [], []
    try:
        sim.connect()
        sess, conn, seq = 0, None, 0
        for step in case["steps"]:
            session = step.get("session", sess)
            ctx = step["ctx"]
            if step["m"] == "req" and step["t"][0] == "c":
                seq = (seq + 1) % 65536
            msg = render_msg(step, conn, seq)
            frame = ic.DRV.ask("c14.enc %d %s %s" % (session, ctx, msg))
            if frame in ("X", "bad-op"):
                outs.append("E|X@%s#%d" % (sim.dump(), sim.nfwds()))
                resolved.append("0:0:0:%d:%s:%s" % (session, ctx, msg))
                continue
            kind, reply = sim.exchange(bytes.fromhex(frame))
            dec = ic.DRV.ask("c14.dec " + lc.hexs(reply)) if reply else "-"
            rs = ro = rt = 0
            if step["m"] == "reg" and reply:
                rs = struct.unpack_from("<I", reply, 4)[0]
                sess = rs
            if step["m"] == "fo" and reply:
                ro, rt = fo_ids(reply)
                if ro or rt:
                    conn = ro
            outs.append("%s%s|%s@%s#%d" % (kind, lc.hexs(reply) if kind in "RF" else "", dec, sim.dump(), sim.nfwds()))
            resolved.append("%d:%d:%d:%d:%s:%s" % (rs, ro, rt, session, ctx, msg))
            if kind != "R":
                break
        sim.end_session()
        outs.append("end@%s#%d" % (sim.dump(), sim.nfwds()))
        case["tagline"] = sim.tag_line()
        case["addrs"] = {k: list(v) for k, v in sim.addrs.items()}
        case["resolved"] = resolved
        return ";".join(outs)
    finally:
        sim.close()


# ------------------------------------------------------------------------------------------------
# plx cases: run
# ------------------------------------------------------------------------------------------------
def plx_tagname(t, elem):
    return t if elem is None else "%s[%d]" % (t, elem)


def plx_path(name, elem):
    p = [["s", part] for part in name.split(".")]
    if elem is not None:
        p.append(["e", elem])
    return p


def plx_encode(tyname, vals):
    """the bytes pylogix puts on the wire for these values (= the CIP encoding of the tag's type)"""
    if tyname == "SSTRING":
        return b"".join(bytes([len(v)]) + v.encode("ascii") for v in vals)
    if tyname == "BOOL":
        return bytes(1 if v else 0 for v in vals)
    return b"".join(struct.pack(PLX_FMT[tyname], v) for v in vals)


def plx_chunks(connsize, base, tyname, vals):
    """pylogix's _convert_write_data: values per request"""
    size = 1 if tyname in ("SSTRING", "BOOL") else lc.SIZES[tyname]
    space = connsize - 110 - (len(base) + len(base) % 2)
    limit = int(space / size)
    return [vals[x:x + limit] for x in range(0, len(vals), limit)]


def canon_val(tyname, v):
    if v is None:
        return None
    if tyname == "BOOL":
        return "b1" if v else "b0"
    if tyname == "REAL":
        return "f%d" % struct.unpack("<I", struct.pack("<f", v))[0]
    if tyname == "LREAL":
        return "d%d" % struct.unpack("<Q", struct.pack("<d", v))[0]
    if tyname == "SSTRING":
        b = v.encode("latin-1") if isinstance(v, str) else bytes(v)
        return "s" + (b.hex() if b else "-")
    return "i%d" % v


STATUS_BY_TEXT = None


def status_code(text):
    global STATUS_BY_TEXT
    if STATUS_BY_TEXT is None:
        from pylogix.lgx_response import cip_error_codes
        STATUS_BY_TEXT = {v: k for k, v in cip_error_codes.items()}
    if text in STATUS_BY_TEXT:
        return STATUS_BY_TEXT[text]
    m = re.match(r"Unknown error (\d+)$", str(text))
    if m:
        return int(m.group(1))
    return "?" + str(text)[:40]


def op_line(case, op):
    """the generic client operation for the Lean client model"""
    k = op["op"]
    if k == "r":
        return "r|%s|%d" % (lc.path_line(plx_path(op["tag"], op["elem"])), op["n"])
    if k == "w":
        ty = op["ty"]
        chunks = plx_chunks(case["eff_connsize"], op["tag"], ty, op["vals"])
        return "w|%s|%d|%d|%s" % (lc.path_line(plx_path(op["tag"], op["elem"])), lc.TYPES[ty], len(op["vals"]),
                                  ",".join(lc.hexs(plx_encode(ty, c)) for c in chunks))
    if k == "mr":
        return "mr|" + "&".join(lc.path_line(plx_path(t, e)) for t, e in op["items"])
    if k == "mw":
        return "mw|" + "&".join("%s=%d=%s" % (lc.path_line(plx_path(t, e)), lc.TYPES[ty], lc.hexs(plx_encode(ty, [v])))
                                for t, e, ty, v in op["items"])
    raise ValueError(k)


def tag_type(case, name):
    for t in case["tags"]:
        if t["name"].lower() == name.lower():
            return t["type"]
    return None


def plx_op(case, comm, op):
    k = op["op"]
    res = []
    if k == "r":
        r = comm.Read(plx_tagname(op["tag"], op["elem"]), op["n"])
        st = status_code(r.Status)
        ty = tag_type(case, op["tag"])
        if st == 0 and r.Value is not None:
            vals = r.Value if isinstance(r.Value, list) else [r.Value]
            res.append("0:%d:%s" % (lc.TYPES[ty], ",".join(canon_val(ty, v) for v in vals)))
        else:
            res.append("%s:-:-" % st)
    elif k == "w":
        vals = op["vals"]
        r = comm.Write(plx_tagname(op["tag"], op["elem"]), vals if len(vals) > 1 else vals[0])
        res.append("%s:-:-" % status_code(r.Status))
    elif k == "mr":
        rs = comm.Read([plx_tagname(t, e) for t, e in op["items"]])
        for (t, e), r in zip(op["items"], rs):
            st = status_code(r.Status)
            ty = tag_type(case, t)
            if st == 0 and r.Value is not None and ty:
                res.append("0:%d:%s" % (lc.TYPES[ty], canon_val(ty, r.Value)))
            else:
                res.append("%s:-:-" % st)
        if len(rs) != len(op["items"]):
            res.append("count=%d" % len(rs))
    elif k == "mw":
        rs = comm.Write([(plx_tagname(t, e), v) for t, e, _ty, v in op["items"]])
        for r in rs:
            res.append("%s:-:-" % status_code(r.Status))
        if len(rs) != len(op["items"]):
            res.append("count=%d" % len(rs))
    return res


def run_plx(case):
    from pylogix import PLC
    sim = ic.Sim(case, "sock")
    relay = ic.Relay(sim.address)
    outs = []
    try:
        comm = PLC()
        comm.IPAddress = "127.0.0.1"
        comm.Port = relay.port
        comm.SocketTimeout = 2
        if case.get("connsize") is not None:
            comm.ConnectionSize = case["connsize"]
        ok = comm.conn.connect()
        if not ok[0]:
            return "connect-failed:%s" % (ok[1],)
        case["eff_connsize"] = comm.ConnectionSize
        sim.peer = relay.upstream_peer
        case["tagline"] = sim.tag_line()
        case["addrs"] = {k_: list(v) for k_, v in sim.addrs.items()}
        for op in case["ops"]:
            if relay.server_closed:          # the simulator hung up in mid-session: nothing more can be observed
                outs.append("server-closed-the-session")
                break
            k = op["op"]
            res = []
            watchdog = threading.Timer(8.0, relay.kill)      # pylogix can loop forever on a short bundle reply
            watchdog.daemon = True
            watchdog.start()
            try:
                res = plx_op(case, comm, op)
            except Exception as exc:         # pylogix itself gave up on what it received
                case["tagline"] = sim.tag_line()
                case["addrs"] = {k_: list(v) for k_, v in sim.addrs.items()}
                outs.append("client-exception:%s:%s" % (type(exc).__name__, str(exc)[:80].replace(";", ",").replace(" ", "_")))
                break
            finally:
                watchdog.cancel()
            if relay.killed:
                outs.append("client-stalled")
                break
            outs.append("&".join(res) + "@" + sim.dump())
        try:
            comm.Close()
        except Exception:
            pass
        sim.wait_idle()
        nf = sim.nfwds()
        case["tagline"] = sim.tag_line()
        case["addrs"] = {k: list(v) for k, v in sim.addrs.items()}
        # wire level: replay what pylogix sent through the Lean server model, decode what the server answered
        cfr, sfr, rc, rs_ = relay.frames()
        wire = check_wire(case, cfr, sfr, rc, rs_)
        case["frames"] = [f.hex() for f in cfr]
        outs.append("closed#%d" % nf)
        outs.append(wire)
        return ";".join(outs)
    finally:
        relay.close()
        sim.close()


def check_wire(case, cfr, sfr, rc, rs_):
    if rc or rs_:
        return "wire=partial-frame"
    # every client frame but the final Unregister has exactly one reply
    steps, k = [], 0
    for f in cfr:
        cmd = struct.unpack_from("<H", f, 0)[0]
        if cmd == 0x66:
            steps.append((f, None))
            continue
        if k >= len(sfr):
            return "wire=missing-reply@%d" % len(steps)
        steps.append((f, sfr[k]))
        k += 1
    if k != len(sfr):
        return "wire=extra-replies"
    items = []
    for f, rep in steps:
        rs = ro = rt = 0
        cmd = struct.unpack_from("<H", f, 0)[0]
        if rep is not None and cmd == 0x65:
            rs = struct.unpack_from("<I", rep, 4)[0]
        if rep is not None and cmd == 0x6F:
            ro, rt = fo_ids(rep)
        items.append("%d:%d:%d:%s" % (rs, ro, rt, f.hex()))
    out = ic.DRV.ask("c14.srv 1 %d %s %s" % (case["budget"], case["tagline"], ";".join(items)))
    got = out.split(";")
    n_req = 0
    for i, ((f, rep), g) in enumerate(zip(steps, got)):
        head = g.split("@")[0]
        if rep is None:
            if head != "C":
                return "wire=model-says-%s-for-unregister" % head[:1]
            continue
        if head != "R" + rep.hex():
            return "wire=diff@%d:client=%s:server=%s:model=%s" % (i, f.hex(), rep.hex(), head)
        dec = ic.DRV.ask("c14.dec " + rep.hex())
        if dec == "X" or dec.endswith("[X]"):
            return "wire=undecodable@%d:%s" % (i, rep.hex())
        n_req += 1
    if len(got) != len(steps):
        return "wire=model-steps-%d-of-%d" % (len(got), len(steps))
    case["wire_frames"] = n_req
    return "wire=ok"


# ------------------------------------------------------------------------------------------------
# oracles (array model; independent of Lean)
# ------------------------------------------------------------------------------------------------
def oracle_ref(case, out):
    steps = out.split(";")
    why = lg.alias_violation(case, case["addrs"])
    if why:
        return why
    spec = lg.ArraySpec(case, case["addrs"])
    open_conns = {}          # otId -> serial
    script = case["steps"]
    if steps[-1].split("@")[0] != "end":
        return "no end-of-session record"
    body = steps[:-1]
    if len(body) > len(script):
        return "more answers than steps"
    ended = False
    for k, (step, rec) in enumerate(zip(script, body)):
        head, rest = rec.split("@")
        dump, nf = rest.split("#")
        wire = head.split("|")[0]
        kind, rep = wire[0], (bytes.fromhex(wire[1:]) if len(wire) > 1 and wire[1:] != "-" else b"")
        m = step["m"]
        if kind == "E":
            continue
        why = None
        if m == "unreg":
            if kind != "C":
                why = "Unregister Session answered / not closed cleanly (%s)" % kind
            ended = True
        elif kind != "R":
            # a request of the quantified domain must be answered inside the session
            if m == "req" and step["t"][0] == "c" and len(step["t"]) > 1 and step["t"][1] is not None:
                ended = True     # unspecified: request on a connection id that was never opened
            else:
                why = "%s step ended the session (outcome %s, encapsulation status %s)" % (
                    m, kind, struct.unpack_from("<I", rep, 8)[0] if len(rep) >= 12 else "-")
        else:
            f = ic.parse_frame(rep)
            if f is None:
                why = "reply is not a complete encapsulation frame"
            elif f["ctx"] != bytes.fromhex(step["ctx"]):
                why = "sender context not echoed"
            elif m == "reg":
                if f["cmd"] != 0x65 or f["session"] == 0 or f["payload"] != struct.pack("<HH", step.get("ver", 1), step.get("opts", 0)):
                    why = "bad Register Session reply"
            else:
                cip = ic.cip_of_reply(rep)
                if cip is None:
                    why = "reply carries no CIP message"
                elif m == "req" and step["t"][0] == "c" and not connected_echo(rep, resolved_seq(case, k)):
                    why = "connected reply does not echo the request's sequence count in a connected data item"
                elif m == "req":
                    bogus = step["t"][0] == "c" and len(step["t"]) > 1 and step["t"][1] is not None
                    if not bogus:
                        why = oracle_cip(spec, step["req"], cip)
                elif m == "fo":
                    why = oracle_fo(step, cip, open_conns)
                elif m == "fc":
                    why = oracle_fc(step, cip, open_conns)
        if why:
            return "step #%d (%s): %s" % (k, m, why)
        d = lg.parse_dump(dump)
        for addr, arr in spec.arr.items():
            if d.get(addr) != b"".join(arr):
                return "step #%d (%s): tag at %s holds %s but the array model says %s" % (
                    k, m, addr, d.get(addr).hex() if d.get(addr) is not None else None, b"".join(arr).hex())
        if int(nf) != len(open_conns) and not ended:
            return "step #%d (%s): %s forwards for the peer, %d connections open" % (k, m, nf, len(open_conns))
        if ended:
            break
    # Unregister / a failure status end the session without the clean-up a client EOF triggers: only claim an
    # empty table when the client closed every connection it opened, or simply hung up
    if steps[-1].split("#")[1] != "0" and (not ended or not open_conns):
        return "forwards left behind after the session ended"
    return None


def resolved_seq(case, k):
    """the sequence count the k-th step was sent with (from the resolved script)"""
    m = re.search(r"req~c:\d+:(\d+)~", case["resolved"][k])
    return int(m.group(1)) if m else None


def connected_echo(rep, seq):
    f = ic.parse_frame(rep)
    it = ic.parse_items(f["payload"]) if f else None
    if not it or len(it[2]) != 2:
        return False
    (t0, d0), (t1, d1) = it[2]
    return t0 == 0xA1 and len(d0) == 4 and t1 == 0xB1 and len(d1) >= 2 and struct.unpack_from("<H", d1, 0)[0] == seq


def oracle_cip(spec, r, cip):
    rep = lg.parse_reply(cip)
    if rep is None:
        return "short CIP reply"
    if r["op"] == "mu":
        if rep["status"] != 0:
            return "bundle status %#x" % rep["status"]
        parts, offs = lg.split_multiple(rep["body"])
        if len(parts) != len(r["reqs"]):
            return "bundle carries %d replies for %d requests" % (len(parts), len(r["reqs"]))
        exp = 2 + 2 * len(parts)
        for o, p_ in zip(offs, parts):
            if o != exp:
                return "bundle offset %d != %d" % (o, exp)
            exp += len(p_)
        for m, p_ in zip(r["reqs"], parts):
            why = lg.oracle_step(spec, m, lg.parse_reply(p_), True)
            if why:
                return "member %s: %s" % (m["op"], why)
        return None
    svc = {"rt": 0xCC, "rf": 0xD2, "wt": 0xCD, "wf": 0xD3}[r["op"]]
    if rep["svc"] != svc:
        return "reply service %#x for request %s" % (rep["svc"], r["op"])
    return lg.oracle_step(spec, r, rep, True)


def ncp_fields(ncp, large):
    # the service code (Forward Open / Large Forward Open) selects the layout
    sh = 16 if large else 0
    return (ncp & (0xFFFF if large else 0x1FF)), (ncp >> (13 + sh)) & 3


def oracle_fo(step, cip, open_conns):
    svc = 0x5B if step["large"] else 0x54
    if cip[0] != svc | 0x80 or len(cip) < 4 or cip[1] != 0:
        return "bad Forward Open reply header"
    st, extn = cip[2], cip[3]
    osz, oty = ncp_fields(step["otNcp"], step["large"])
    tsz, _ = ncp_fields(step["toNcp"], step["large"])
    valid = osz > 0 and tsz > 0
    if not valid:
        return None if st != 0 else "Forward Open with a zero connection size accepted"
    if st != 0:
        if oty != 2 and step["otId"] in open_conns:
            return None      # re-open of an id chosen by the originator with other parameters may be refused
        return "valid Forward Open refused with status %#x" % st
    body = cip[4 + 2 * extn:]
    if len(body) != 26:
        return "Forward Open success reply has %d bytes after the status" % len(body)
    ot, to, serial, vendor, oserial, otapi, toapi = struct.unpack_from("<IIHHIII", body, 0)
    if (serial, vendor, oserial) != (step["serial"], step["vendor"], step["oserial"]):
        return "Forward Open reply does not echo serial/vendor/originator"
    if (otapi, toapi) != (step["otRpi"], step["toRpi"]):
        return "actual packet intervals differ from the requested ones"
    if oty != 2 and ot != step["otId"]:
        return "O->T connection id not echoed for a non point-to-point connection"
    _, tty = ncp_fields(step["toNcp"], step["large"])
    if tty != 1 and to != step["toId"]:
        return "T->O connection id chosen by the originator not echoed"
    open_conns[ot] = serial
    step["_ot"] = ot
    return None


def oracle_fc(step, cip, open_conns):
    if cip[0] != 0xCE or len(cip) < 4 or cip[1] != 0:
        return "bad Forward Close reply header"
    if cip[2] != 0:
        return "Forward Close refused with status %#x" % cip[2]
    serial, vendor, oserial = struct.unpack_from("<HHI", cip, 4)
    if (serial, vendor, oserial) != (step["serial"], step["vendor"], step["oserial"]):
        return "Forward Close reply does not echo serial/vendor/originator"
    for k in [k for k, v in open_conns.items() if v == step["serial"]]:
        del open_conns[k]
    return None


def spec_read(spec, name, elem, n):
    """(status, [element bytes]) the array model prescribes for Read(tag[elem], n)"""
    addr = spec.sym.get(name.lower())
    if addr is None:
        return 5, None
    arr = spec.arr[addr]
    e = elem or 0
    if n < 1 or e >= len(arr) or e + n > len(arr):
        return 0xFF, None
    return 0, arr[e:e + n]


def oracle_plx(case, out):
    if out.startswith("connect-failed"):
        return "pylogix could not register / open a connection: " + out
    recs = out.split(";")
    for i, r_ in enumerate(recs):
        if r_.startswith("client-exception"):
            return "the client could not digest the reply to operation #%d: %s" % (i, r_)
    if "client-stalled" in recs:
        return "the client made no progress on operation #%d (an unexpected reply made it loop)" % recs.index("client-stalled")
    if "server-closed-the-session" in recs:
        return "the simulator closed the session after operation #%d (%s)" % (
            recs.index("server-closed-the-session") - 1, case["ops"][max(recs.index("server-closed-the-session") - 1, 0)]["op"])
    if len(recs) != len(case["ops"]) + 2:
        return "%d records for %d operations" % (len(recs), len(case["ops"]))
    why = lg.alias_violation(case, case["addrs"])
    if why:
        return why
    spec = lg.ArraySpec(case, case["addrs"])
    for k, (op, rec) in enumerate(zip(case["ops"], recs)):
        res, dump = rec.split("@")
        res = res.split("&")
        kind = op["op"]
        why = None
        if kind == "r":
            st, vals = spec_read(spec, op["tag"], op["elem"], op["n"])
            ty = tag_type(case, op["tag"])
            if st == 0:
                got = res[0].split(":")
                if got[0] != "0":
                    why = "valid read failed with status %s" % got[0]
                else:
                    gv = [canon_bytes(ty, x) for x in got[2].split(",")]
                    if gv != vals:
                        why = "read returned %s… but the array model holds %s…" % (
                            [g.hex() for g in gv][:4], [v.hex() for v in vals][:4])
            elif res[0] != "%d:-:-" % st:
                why = "expected status %#x, client reports %s" % (st, res[0])
        elif kind == "w":
            st, cur = spec_read(spec, op["tag"], op["elem"], len(op["vals"]))
            if st == 0:
                if res[0] != "0:-:-":
                    why = "valid write failed: %s" % res[0]
                else:
                    addr = spec.sym[op["tag"].lower()]
                    ty = spec.ty[addr]
                    for j, v in enumerate(op["vals"]):
                        spec.arr[addr][(op["elem"] or 0) + j] = plx_encode_elem(ty, v)
            elif res[0] != "%d:-:-" % st:
                why = "expected status %#x, client reports %s" % (st, res[0])
        elif kind == "mr":
            if len(res) != len(op["items"]):
                why = "%d results for %d tags" % (len(res), len(op["items"]))
            else:
                for (t, e), r in zip(op["items"], res):
                    st, vals = spec_read(spec, t, e, 1)
                    if st == 0:
                        got = r.split(":")
                        if got[0] != "0" or canon_bytes(tag_type(case, t), got[2]) != vals[0]:
                            why = "multi-read of %s[%s] gave %s, the array model holds %s" % (t, e, r, vals[0].hex())
                    elif r != "%d:-:-" % st:
                        why = "multi-read of %s[%s]: expected status %#x, client reports %s" % (t, e, st, r)
        elif kind == "mw":
            if len(res) != len(op["items"]):
                why = "%d results for %d tags" % (len(res), len(op["items"]))
            else:
                for (t, e, ty, v), r in zip(op["items"], res):
                    st, _ = spec_read(spec, t, e, 1)
                    if st == 0:
                        if r != "0:-:-":
                            why = "valid multi-write of %s failed: %s" % (t, r)
                        else:
                            addr = spec.sym[t.lower()]
                            spec.arr[addr][e or 0] = plx_encode_elem(spec.ty[addr], v)
                    elif r != "%d:-:-" % st:
                        why = "multi-write of %s[%s]: expected status %#x, client reports %s" % (t, e, st, r)
        if why:
            return "operation #%d (%s): %s" % (k, kind, why)
        d = lg.parse_dump(dump)
        for addr, arr in spec.arr.items():
            if d.get(addr) != b"".join(arr):
                return "operation #%d (%s): tag at %s holds %s but the array model says %s" % (
                    k, kind, addr, d.get(addr).hex() if d.get(addr) is not None else None, b"".join(arr).hex())
    if recs[-2] != "closed#0":
        return "session not closed cleanly: " + recs[-2]
    if recs[-1] != "wire=ok":
        return None          # a wire-level difference is a model/code disagreement, reported by the correspondence
    return None


def plx_encode_elem(ty, v):
    """what the tag holds after a client wrote python value v (stored in the tag's type)"""
    if ty == "BOOL":
        return b"\xff" if v else b"\x00"
    return plx_encode(ty, [v])


def canon_bytes(ty, s):
    """canonical value text -> element bytes as the tag's type stores them"""
    if s.startswith("b"):
        return b"\xff" if s == "b1" else b"\x00"
    if s.startswith("f"):
        return struct.pack("<I", int(s[1:]))
    if s.startswith("d"):
        return struct.pack("<Q", int(s[1:]))
    if s.startswith("s"):
        b = b"" if s[1:] == "-" else bytes.fromhex(s[1:])
        return bytes([len(b)]) + b
    return plx_encode(ty, [int(s[1:])])


# ------------------------------------------------------------------------------------------------
# generators
# ------------------------------------------------------------------------------------------------
def rctx(rng):
    return bytes(rng.randrange(256) for _ in range(8)).hex()


def ref_req(rng, tags, invalid=0.15):
    for _ in range(50):
        r = c03.rand_req(rng, tags, multi=True, invalid=invalid)
        if r["op"] in REF_OPS and (r["op"] != "mu" or all(m["op"] in REF_OPS for m in r["reqs"])):
            return r
    return {"op": "rt", "path": [["s", tags[0]["name"]]], "n": 1}


def rand_transport(rng, r, connected_ok):
    k = rng.random()
    if connected_ok and k < 0.5:
        return ["c"]
    if r["op"] == "rf" and rng.random() < 0.9:
        k = 0.9          # a bare 0x52 cannot be sent (the reference encoder refuses it: outcome E)
    if k < 0.75 and r["op"] != "rf" or (r["op"] == "rf" and rng.random() < 0.05):
        return ["d"]
    ports = rng.choice([[[1, 0]], [[1, 0]], [], [[1, rng.randrange(256)]], [[rng.randint(1, 14), rng.randrange(256)], [2, 1]]])
    return ["w", rng.choice([5, 10, rng.randrange(256)]), rng.choice([157, 255, rng.randrange(256)]), ports]


def rand_ncp(rng, large, bad=False):
    size = rng.choice([504, 500, 1, 511]) if not large else rng.choice([4002, 4000, 65535, 512])
    if bad:
        size = 0
    typ = rng.choice([2, 2, 2, 2, 1, 0, 3])
    var = rng.randrange(2)
    prio = rng.randrange(4)
    red = rng.randrange(2)
    rsv = rng.randrange(2) if rng.random() < 0.2 else 0
    hi = (var << 9) | (prio << 10) | (rsv << 12) | (typ << 13) | (red << 15)
    return (hi << 16 | size) if large else (hi | size)


def rand_fo(rng, tags, bad=0.05):
    large = rng.random() < 0.4
    tgt = [["c", 2], ["i", 1]]
    k = rng.random()
    addrd = [t for t in tags if t.get("addr")]
    if k < 0.12 and addrd:
        a = rng.choice(addrd)["addr"]
        tgt = [["c", a[0]], ["i", a[1]]]
    elif k < 0.17:
        tgt = [["c", 0x77], ["i", 1]]           # no such object
    elif k < 0.22:
        tgt = [["s", rng.choice(tags)["name"]]]
    step = {"m": "fo", "ctx": rctx(rng), "timeout": rng.choice([0, 5]), "large": large,
            "prio": rng.choice([10, rng.randrange(256)]), "ticks": rng.choice([14, rng.randrange(256)]),
            "otId": rng.choice([0x20000002, rng.randrange(2 ** 32)]), "toId": rng.randrange(2 ** 32),
            "serial": rng.randrange(65536), "vendor": rng.choice([0x1337, rng.randrange(65536)]),
            "oserial": rng.choice([42, rng.randrange(2 ** 32)]), "mult": rng.randrange(8),
            "otRpi": rng.choice([0x00201234, rng.randrange(2 ** 32)]), "otNcp": rand_ncp(rng, large, rng.random() < bad),
            "toRpi": rng.choice([0x00204001, rng.randrange(2 ** 32)]), "toNcp": rand_ncp(rng, large, rng.random() < bad),
            "tct": rng.choice([0xA3, rng.randrange(256)]),
            "ports": rng.choice([[[1, 0]], [[1, 0]], [], [[1, rng.randrange(256)], [2, 3]]]), "target": tgt}
    return step


def fc_of(rng, fo, wrong=False):
    return {"m": "fc", "ctx": rctx(rng), "timeout": fo["timeout"], "prio": fo["prio"], "ticks": fo["ticks"],
            "serial": (fo["serial"] + 1) % 65536 if wrong else fo["serial"], "vendor": fo["vendor"],
            "oserial": fo["oserial"], "ports": fo["ports"], "target": fo["target"]}


def fo_usable(fo, tags):
    """does the connection path designate an object that serves tag requests?"""
    t = fo["target"]
    osz, _ = ncp_fields(fo["otNcp"], fo["large"])
    tsz, _ = ncp_fields(fo["toNcp"], fo["large"])
    return osz > 0 and tsz > 0


def ref_case(rng, tier, mode):
    tags = lg.rand_tags(rng, max_tags=4, max_len=rng.choice([13, 40, 300]), big=(tier == "thorough"))
    if rng.random() < 0.06:
        tags = lg.many_tags(rng, types=("DINT", "INT")) + tags      # auto-allocated ids beyond 10
    steps = [{"m": "reg", "ctx": rctx(rng)}]
    n = rng.randint(1, 14)
    fo = None
    while len(steps) < n + 1:
        k = rng.random()
        if fo is None and k < 0.25:
            fo = rand_fo(rng, tags)
            steps.append(fo)
            if not fo_usable(fo, tags):
                fo = None
        elif fo is not None and k < 0.12:
            steps.append(fc_of(rng, fo, wrong=rng.random() < 0.1))
            fo = None
        else:
            r = ref_req(rng, tags)
            t = rand_transport(rng, r, fo is not None)
            if rng.random() < 0.02 and r["op"] in ("rt", "rf"):
                t = ["c", rng.randrange(2 ** 32)]            # a connection id nobody opened
            st = {"m": "req", "ctx": rctx(rng), "t": t, "timeout": rng.choice([0, 5, rng.randrange(65536)]), "req": r}
            if rng.random() < 0.03:
                st["session"] = rng.randrange(2 ** 32)       # the server does not validate the session handle
            steps.append(st)
    if fo is not None and rng.random() < 0.6:
        steps.append(fc_of(rng, fo))
    if rng.random() < 0.5:
        steps.append({"m": "unreg", "ctx": rctx(rng)})
    return {"kind": "ref", "mode": mode, "budget": rng.choice([488, 488, 488, 100, 24, 1000]), "tags": tags, "steps": steps}


def exhaustive_ref(rng):
    """small scope: one device, every service x every transport x a grid of element / count / offset values"""
    tags = [{"name": "A", "type": "INT", "len": 3, "addr": None}, {"name": "d", "type": "DINT", "len": 1, "addr": None},
            {"name": "S", "type": "SSTRING", "len": 2, "addr": None},
            {"name": "X", "type": "REAL", "len": 2, "addr": [0x93, 1, 3]}]
    vals = {"INT": [1, -2, 32767], "DINT": [7], "SSTRING": ["ab", ""], "REAL": [{"f32": 0x3f800000}, {"f32": 0xc0490fdb}]}
    for transport in ("d", "w", "c"):
        for t in tags:
            ln, ty = t["len"], t["type"]
            steps = [{"m": "reg", "ctx": "0102030405060708"}]
            if transport == "c":
                steps.append({"m": "fo", "ctx": "1112131415161718", "timeout": 0, "large": False, "prio": 10, "ticks": 14,
                              "otId": 0x20000002, "toId": 77, "serial": 9, "vendor": 0x1337, "oserial": 42, "mult": 3,
                              "otRpi": 0x201234, "otNcp": 0x43f8, "toRpi": 0x204001, "toNcp": 0x43f8, "tct": 0xA3,
                              "ports": [[1, 0]], "target": [["c", 2], ["i", 1]]})
            reqs = []
            for e in (None, 0, ln - 1, ln):
                for n in (0, 1, ln, ln + 1):
                    p = [["s", t["name"]]] + ([["e", e]] if e is not None else [])
                    reqs.append({"op": "rt", "path": p, "n": n})
                    reqs.append({"op": "rf", "path": p, "n": n, "off": 0})
                    w = (vals[ty] * 3)[:max(n, 1)]
                    reqs.append({"op": "wt", "path": p, "ty": lc.TYPES[ty], "n": n, "vals": w})
                    reqs.append({"op": "wf", "path": p, "ty": lc.TYPES[ty], "n": n, "off": 0, "vals": w[:1]})
            reqs.append({"op": "rt", "path": [["s", "nosuch"]], "n": 1})
            reqs.append({"op": "wt", "path": [["s", t["name"]]], "ty": lc.TYPES["LINT"], "n": 1, "vals": [5]})
            reqs.append({"op": "mu", "path": [["c", 2], ["i", 1]], "reqs": reqs[:6] + [reqs[-2]]})
            for r in reqs:
                if transport == "d" and r["op"] == "rf":
                    tr = ["w", 5, 157, [[1, 0]]]
                else:
                    tr = {"d": ["d"], "w": ["w", 5, 157, [[1, 0]]], "c": ["c"]}[transport]
                steps.append({"m": "req", "ctx": rctx(rng), "t": tr, "timeout": 5, "req": r})
            if transport == "c":
                steps.append(fc_of(rng, steps[1]))
            steps.append({"m": "unreg", "ctx": "0000000000000000"})
            yield {"kind": "ref", "mode": "proc", "budget": 488, "tags": tags, "steps": steps}


def plx_val(rng, ty):
    if ty == "BOOL":
        return rng.random() < 0.5
    if ty == "REAL":
        b = rng.choice([0, 0x80000000, 0x3f800000, 0xbf800000, 0x40490fdb, 0x7f7fffff, 0x00800000, 1, 0x4b000001])
        return struct.unpack("<f", struct.pack("<I", b))[0]
    if ty == "LREAL":
        b = rng.choice([0, 1 << 63, 0x3ff0000000000000, 0x400921fb54442d18, 0x7fefffffffffffff, 1, 0x3fd5555555555555])
        return struct.unpack("<d", struct.pack("<Q", b))[0]
    if ty == "SSTRING":
        return "".join(rng.choice("abcXYZ09 _:,") for _ in range(rng.choice([0, 1, 2, 3, 5, 8, 13])))
    v = lg.rand_val(rng, ty)
    return v


def plx_case(rng, tier):
    n = rng.randint(1, 4)
    names = rng.sample(PLX_NAMES, n)
    tags = []
    for nm in names:
        ty = rng.choice(PLX_TYPES)
        ln = rng.choice([1, 1, 2, 3, 8, 13, 40, 130, 300, 1000 if ty != "SSTRING" else 10])
        if ty == "SSTRING":
            ln = min(ln, 10)
        addr = [rng.choice([0x93, 300]), rng.choice([1, 2]), rng.randint(1, 6)] if rng.random() < 0.25 else None
        if addr and any(t.get("addr") == addr for t in tags):
            addr = None
        tags.append({"name": nm, "type": ty, "len": ln, "addr": addr})
    if rng.random() < 0.06:
        tags = lg.many_tags(rng, types=("DINT", "INT")) + tags      # auto-allocated ids beyond 10
    ops = []
    case_budget = rng.choice([488, 488, 100, 1000, 40])
    for _ in range(rng.randint(1, 8 if tier == "quick" else 14)):
        t = rng.choice(tags)
        ln, ty, nm = t["len"], t["type"], t["name"]
        if rng.random() < 0.3:
            nm = "".join(ch.upper() if rng.random() < 0.5 else ch.lower() for ch in nm)
        k = rng.random()
        bad = rng.random() < 0.15
        e = rng.choice([None, 0, ln - 1, rng.randrange(ln)])
        room = ln - (e or 0)
        if k < 0.4:
            cnt = rng.choice([1, room, rng.randint(1, room)])
            if ty == "SSTRING":
                # a string element counts as 80 bytes in the simulator's fragment arithmetic while a client counts the
                # bytes it received: string arrays are only read within one reply (see notes/C14.md, known finding)
                cnt = min(cnt, max((case_budget + 79) // 80, 1))
            if bad:
                kk = rng.random()
                if kk < 0.4:
                    e = rng.choice([ln, ln + 3])
                elif kk < 0.8:
                    cnt = room + rng.choice([1, 5])
                else:
                    nm = "nosuch"
            ops.append({"op": "r", "tag": nm, "elem": e, "n": cnt})
        elif k < 0.75:
            cnt = rng.choice([1, room, rng.randint(1, room)])
            if ty == "SSTRING":
                cnt = min(cnt, 3)
            if bad:
                kk = rng.random()
                if kk < 0.4:
                    e = rng.choice([ln, ln + 3])
                elif kk < 0.8:
                    cnt = room + 1
                else:
                    nm = "nosuch"
            ops.append({"op": "w", "tag": nm, "elem": e, "ty": ty, "vals": [plx_val(rng, ty) for _ in range(cnt)]})
        elif k < 0.9:
            items = []
            for _ in range(rng.randint(2, 7)):
                tt = rng.choice([x for x in tags if x["type"] != "SSTRING"] or tags)
                if tt["type"] == "SSTRING":
                    continue
                kk = rng.random()
                ee = rng.choice([None, 0, tt["len"] - 1, rng.randrange(tt["len"])])
                if kk < 0.1:
                    items.append(["nosuch", None])
                elif kk < 0.2:
                    items.append([tt["name"], tt["len"] + rng.choice([0, 2])])
                else:
                    items.append([tt["name"], ee])
            if len(items) >= 2:
                ops.append({"op": "mr", "items": items})
        else:
            items = []
            for _ in range(rng.randint(2, 5)):
                tt = rng.choice([x for x in tags if x["type"] != "SSTRING"] or tags)
                if tt["type"] == "SSTRING":
                    continue
                ee = rng.choice([None, 0, tt["len"] - 1, rng.randrange(tt["len"])])
                if rng.random() < 0.1:
                    ee = tt["len"]
                items.append([tt["name"], ee, tt["type"], plx_val(rng, tt["type"])])
            if len(items) >= 2:
                ops.append({"op": "mw", "items": items})
    if not ops:
        ops.append({"op": "r", "tag": tags[0]["name"], "elem": None, "n": 1})
    return {"kind": "plx", "budget": case_budget, "tags": tags, "ops": ops,
            "connsize": rng.choice([504, 4000, None, 250, 508])}


# ------------------------------------------------------------------------------------------------
class C14(Suite):
    id = "C14"
    props_module = "Cpppo.Props.C14"
    rule = ("ref: random devices (1-4 tags, all 13 element types, auto / @class/instance/attribute bound) x random "
            "session scripts (Register, [Large] Forward Open with random parameters, Read/Write Tag [Fragmented] and "
            "Multiple Service Packets over bare SendRRData / Unconnected Send / SendUnitData, Forward Close, "
            "Unregister; ~15% invalid requests, bad connection ids, zero-size connections) + an exhaustive small-scope "
            "grid (4 services x 3 transports x element/count grid); frames from the Lean reference encoder, real "
            "replies through the Lean reference decoder, in-process and over TCP. plx: pylogix over TCP through a "
            "capturing relay: random Read/Write/multi-read/multi-write histories incl. arrays larger than one reply, "
            "out-of-range and unknown tags, 5 connection sizes; its frames replayed through the Lean server model. "
            "non-trivial = a successful write followed by a read of the same tag (ref), or a fragmented transfer / "
            "bundle / error status observed through pylogix (plx); distinct by case")
    assumptions = ["one TCP session per case; the session handle and the connection ids the simulator draws at random "
                   "are read off its replies and given to the model",
                   "pylogix: tag types both sides support (no STRING 0xD0: pylogix writes it with a 1-byte length and "
                   "does not skip cpppo's pad byte; SSTRING ASCII only; no strings in multi-reads); no NaN",
                   "frames outside the modelled grammar (List* commands, built-in Identity/TCPIP objects, STRUCT data, "
                   "truncated / garbage frames) are not generated: C01/C02/C08 cover them"]
    trusted_extra = ["pylogix 1.1.6 as an independent source of request bytes and reply interpretation (not as oracle)",
                     "the OS socket layer on 127.0.0.1 and CPython threads (the simulator runs in a thread)"]

    def cases(self, tier, rng):
        for c in exhaustive_ref(rng):
            yield c
        n_proc, n_sock, n_plx = (180, 40, 90) if tier == "quick" else (3000, 700, 1500)
        for k in range(max(n_proc, n_sock, n_plx)):
            if k < n_proc:
                yield ref_case(rng, tier, "proc")
            if k < n_sock:
                yield ref_case(rng, tier, "sock")
            if k < n_plx:
                yield plx_case(rng, tier)

    def impl(self, c):
        return run_ref(c) if c["kind"] == "ref" else run_plx(c)

    def model_line(self, c):
        if "tagline" not in c or ("resolved" not in c and c["kind"] == "ref"):
            try:
                out = self.impl(c)
            except Exception as exc:
                out = "exception:" + type(exc).__name__
            if "tagline" not in c or ("resolved" not in c and c["kind"] == "ref"):
                return "c14-setup-failed " + out[:80].replace(" ", "_")
        if c["kind"] == "ref":
            return "c14.run 1 %d %s %s" % (c["budget"], c["tagline"], ";".join(c["resolved"]) if c["resolved"] else "-")
        return "c14.plx %d %s %s" % (c["budget"], c["tagline"], ";".join(op_line(c, op) for op in c["ops"]))

    def oracle(self, c, out):
        if out.startswith("harness-exception"):
            return out
        try:
            return oracle_ref(c, out) if c["kind"] == "ref" else oracle_plx(c, out)
        except Exception as exc:        # malformed output line: report, do not die
            return "oracle could not read the output (%s: %s): %s" % (type(exc).__name__, exc, out[:120])

    def known_key(self, c):
        keys = ("kind", "mode", "budget", "tags", "steps", "ops", "connsize")
        return json.dumps({k: c[k] for k in keys if k in c}, sort_keys=True)

    def nontrivial(self, c, out):
        if c["kind"] == "ref":
            wrote, ok = set(), False
            for st, rec in zip(c["steps"], out.split(";")):
                if st["m"] != "req" or not rec.startswith("R"):
                    continue
                reqs = st["req"]["reqs"] if st["req"]["op"] == "mu" else [st["req"]]
                cip = ic.cip_of_reply(bytes.fromhex(rec.split("|")[0][1:])) or b""
                good = len(cip) >= 3 and cip[2] == 0
                for r in reqs:
                    key = json.dumps(r["path"][:1]).lower()
                    if r["op"] in ("wt", "wf") and good:
                        wrote.add(key)
                    if r["op"] in ("rt", "rf") and key in wrote:
                        ok = True
            return self.known_key(c) if ok else None
        interesting = (";wire=ok" in out) and (c.get("wire_frames", 0) > len(c["ops"]) + 4 or ":-:-" in out)
        return self.known_key(c) if interesting else None

    def classify(self, c, out):
        if c["kind"] == "plx":
            return "plx:" + "+".join(sorted({o["op"] for o in c["ops"]}))
        ts = sorted({s["t"][0] for s in c["steps"] if s["m"] == "req"})
        conn = "+conn" if any(s["m"] == "fo" for s in c["steps"]) else ""
        ended = [r[0] for r in out.split(";")[:-1] if r and r[0] in "FCD"]
        return "ref:%s:%s%s%s" % (c["mode"], "".join(ts) or "-", conn, (":" + ended[0]) if ended else "")

    def shrink(self, c):
        base = {k: v for k, v in c.items() if k in ("kind", "mode", "budget", "tags", "steps", "ops", "connsize")}
        if c["kind"] == "ref":
            st = c["steps"]
            for i in range(len(st) - 1, 0, -1):
                yield dict(base, steps=st[:i] + st[i + 1:])
            for i, s in enumerate(st):
                if s["m"] == "req" and s["req"]["op"] == "mu" and len(s["req"]["reqs"]) > 1:
                    for j in range(len(s["req"]["reqs"])):
                        r2 = dict(s["req"], reqs=s["req"]["reqs"][:j] + s["req"]["reqs"][j + 1:])
                        yield dict(base, steps=st[:i] + [dict(s, req=r2)] + st[i + 1:])
            if c.get("mode") == "sock":
                yield dict(base, mode="proc")
        else:
            ops = c["ops"]
            for i in range(len(ops) - 1, -1, -1):
                if len(ops) > 1:
                    yield dict(base, ops=ops[:i] + ops[i + 1:])
            for i, o in enumerate(ops):
                if o["op"] in ("mr", "mw") and len(o["items"]) > 2:
                    for j in range(len(o["items"])):
                        yield dict(base, ops=ops[:i] + [dict(o, items=o["items"][:j] + o["items"][j + 1:])] + ops[i + 1:])
        if len(c["tags"]) > 1:
            used = json.dumps(base.get("steps") or base.get("ops")).lower()
            for i, t in enumerate(c["tags"]):
                if json.dumps(t["name"])[1:-1].lower() not in used:
                    yield dict(base, tags=c["tags"][:i] + c["tags"][i + 1:])

    def teardown(self):
        ic.DRV.close()
