"""
C08 generators: every kind of valid message (built with a field map so that every length / count / offset /
size field at every nesting level can be made inconsistent on purpose), byte-level mutators, streams.
"""
import struct

from corr import logix_common as lc
from corr import logix_gen as lg
from corr import c08_wire as w
from corr.c03 import rand_req

# Valid messages of the kinds the tag grammar does not cover (captured packets of the repo's own test-suite,
# server/enip_test.py: used as a source of bytes only)
OTHER_VALID = {
    "register": w.enc_frame(0x65, b"\x01\x00\x00\x00"),
    "unregister": w.enc_frame(0x66, b""),
    "list_services": bytes.fromhex("04000000000000000000000046756e737475666600000000"),
    "list_services_cpf": bytes.fromhex("04001900dca5ea4e0000000000000000000000000000000001000001130001002000"
                                       "436f6d6d756e69636174696f6e7300"),
    "list_identity": w.enc_frame(0x63, b""),
    "list_interfaces": w.enc_frame(0x64, b""),
    "legacy": w.enc_frame(0x01, b""),
    "fwd_open": bytes.fromhex("6f00400005000d0000000000d09200005080ff0700000000000000002000020000000000b2003000"
                              "54022006240107f9110000801000fe8011004d000f7f3d1e0000000000127a00f44300127a00f443"
                              "a303010020022401"),
    "fwd_open2": bytes.fromhex("6f0042000100000000000000c20a0000a0de790300000000000000001400020000000000b2003200"
                               "540220062401079b050000800400008005004d0037585a380100000000093d00024300093d000243"
                               "a304010120a624012c01"),
    "fwd_close": bytes.fromhex("6f0028006716c54800000000000000000000000000000000000000000800020000000000b2001800"
                               "4e022006240107f901004d000f7f3d1e0300010020022401"),
    "send_unit": bytes.fromhex("7000230001000000000000000000000000000000000000000000000001000200a10004001600ee8d"
                               "b1000f000100000001000000000006004a0a03"),
    "unc_snd_err": bytes.fromhex("6f0014001400000000000000300000000000000000000000000000000000020000000000b2000400"
                                 "d2000800"),
    "gaa_unknown66": bytes.fromhex("6f001600011e021100000000010000000000000000000000000000000500020000000000b2000600"
                                   "010220662401"),
    "gaa_identity": bytes.fromhex("6f002400011e021100000000020000000000000000000000000000000500020000000000b2001400"
                                  "52022006240101fa060001022001240101000100"),
    "gal_identity": w.enc_send(w.enc_unconnected(bytes.fromhex("030220012401020001000200"))),
    "gas_tcpip": w.enc_send(w.enc_unconnected(bytes.fromhex("0e0320f524013005"))),
}


class Builder:
    """bytes + a map of the numeric fields: (name, offset, size)"""

    def __init__(self):
        self.b = bytearray()
        self.fields = []

    def num(self, name, size, v):
        self.fields.append((name, len(self.b), size))
        self.b += (v % (1 << (8 * size))).to_bytes(size, "little")
        return self

    def raw(self, name, data):
        if data:
            self.fields.append((name + "[]", len(self.b), len(data)))
        self.b += data
        return self

    def sub(self, prefix, other):
        base = len(self.b)
        for n, o, s in other.fields:
            self.fields.append((prefix + n, base + o, s))
        self.b += other.b
        return self


def b_epath(path, wide=False, padded=False, name="path"):
    segs = Builder()
    for k, v in path:
        if k == "s":
            s = v.encode("latin-1")
            segs.num("seg.type", 1, 0x91).num("sym.len", 1, len(s)).raw("sym", s)
            if len(s) % 2:
                segs.num("sym.pad", 1, 0)
        elif k == "o":
            segs.num("seg.type", 1, 1).num("seg.link", 1, v)
        else:
            base = {"c": 0x20, "i": 0x24, "a": 0x30, "e": 0x28, "x": 0x2c}[k]
            if v <= 0xff and not wide:
                segs.num("seg.type", 1, base).num("seg.val", 1, v)
            elif v <= 0xffff:
                segs.num("seg.type", 1, base + 1).num("seg.pad", 1, 0).num("seg.val", 2, v)
            else:
                segs.num("seg.type", 1, base + 2).num("seg.pad", 1, 0).num("seg.val", 4, v)
    out = Builder().num(name + ".size", 1, len(segs.b) // 2)
    if padded:
        out.num(name + ".pad", 1, 0)
    return out.sub(name + ".", segs)


def b_request(r):
    op = r["op"]
    svc = {"rt": 0x4c, "rf": 0x52, "wt": 0x4d, "wf": 0x53, "gs": 0x0e, "ss": 0x10, "ga": 0x01, "mu": 0x0a}[op]
    b = Builder().num("svc", 1, svc).sub("", b_epath(r["path"], wide=r.get("wide", False)))
    if op in ("wt", "wf"):
        b.num("type", 2, r["ty"])
    if op in ("rt", "rf", "wt", "wf"):
        b.num("elements", 2, r["n"])
    if op in ("rf", "wf"):
        b.num("offset", 4, r["off"])
    if op in ("wt", "wf"):
        b.raw("data", lc.encode_vals(lc.CODE2NAME[r["ty"]], r["vals"]))
    if op == "ss":
        b.raw("data", bytes(r["data"]))
    if op == "mu":
        ms = [b_request(m) for m in r["reqs"]]
        b.num("mu.count", 2, len(ms))
        off = 2 + 2 * len(ms)
        for k, m in enumerate(ms):
            b.num(f"mu.off{k}", 2, off)
            off += len(m.b)
        for k, m in enumerate(ms):
            b.sub(f"m{k}.", m)
    return b


def b_frame(r, wrapped=True, route=(("o", 0),), cmd=0x6f, session=0, ctx=b"\x00" * 8, options=0, iface=0,
            timeout=5, prio=5, ticks=157):
    req = b_request(r)
    body = Builder()
    if wrapped:
        body.num("us.svc", 1, 0x52).sub("us.", b_epath([["c", 6], ["i", 1]], name="cm"))
        body.num("us.prio", 1, prio).num("us.ticks", 1, ticks).num("us.length", 2, len(req.b))
        body.sub("req.", req)
        if len(req.b) % 2:
            body.num("us.pad", 1, 0)
        body.sub("us.", b_epath([list(s) for s in route], padded=True, name="route"))
    else:
        body.sub("req.", req)
    pl = Builder().num("sd.iface", 4, iface).num("sd.timeout", 2, timeout).num("cpf.count", 2, 2)
    pl.num("cpf.item0.type", 2, 0).num("cpf.item0.len", 2, 0)
    pl.num("cpf.item1.type", 2, 0xb2).num("cpf.item1.len", 2, len(body.b)).sub("", body)
    f = Builder().num("enip.command", 2, cmd).num("enip.length", 2, len(pl.b)).num("enip.session", 4, session)
    f.num("enip.status", 4, 0).raw("enip.context", ctx).num("enip.options", 4, options).sub("", pl)
    return f


FIELD_VALUES = [0, 1, 2, 3, 0x7f, 0x80, 0xff, 0x100, 0x7fff, 0x8000, 0xffff]


def field_values(rng, v, size, exhaustive=False):
    hi = (1 << (8 * size)) - 1
    vals = {0, 1, hi, hi // 2, hi // 2 + 1}
    for d in (1, 2, 3, 4, 8):
        vals.add(v + d)
        vals.add(v - d)
    vals.add(v * 2)
    vals.add(v // 2)
    vals |= set(FIELD_VALUES)
    vals = sorted(x for x in vals if 0 <= x <= hi and x != v)
    if exhaustive:
        return vals
    if rng.random() < 0.25:
        return [rng.randint(0, hi)]
    return [rng.choice(vals)]


def set_field(b, off, size, v):
    out = bytearray(b)
    out[off:off + size] = v.to_bytes(size, "little")
    return bytes(out)


def mutate(rng, fb):
    """one random structure-aware or byte-level mutation of a built frame -> (kind, bytes)"""
    b = bytes(fb.b)
    k = rng.random()
    numeric = [f for f in fb.fields if not f[0].endswith("[]")]
    if k < 0.40 and numeric:
        name, off, size = rng.choice(numeric)
        cur = int.from_bytes(b[off:off + size], "little")
        return "field:" + generic(name), set_field(b, off, size, field_values(rng, cur, size)[0])
    if k < 0.55:
        out = bytearray(b)
        for _ in range(rng.choice([1, 1, 1, 2, 3])):
            j = rng.randrange(len(out))
            out[j] ^= 1 << rng.randrange(8)
        return "bitflip", bytes(out)
    if k < 0.65:
        j = rng.randrange(len(b))
        n = rng.choice([1, 1, 2, 3, 4, 8])
        return "delete", b[:j] + b[j + n:]
    if k < 0.75:
        j = rng.randrange(len(b) + 1)
        n = rng.choice([1, 1, 2, 3, 4, 8])
        return "insert", b[:j] + bytes(rng.randrange(256) for _ in range(n)) + b[j:]
    if k < 0.85:
        return "truncate", b[:rng.randrange(len(b))]
    if k < 0.90:
        return "append", b + bytes(rng.randrange(256) for _ in range(rng.choice([1, 2, 4, 24, 40])))
    if k < 0.95:
        # a length-preserving overwrite of a region with random bytes
        j = rng.randrange(len(b))
        n = rng.choice([1, 2, 4, 8])
        return "overwrite", b[:j] + bytes(rng.randrange(256) for _ in range(len(b[j:j + n]))) + b[j + n:]
    # fix up the encapsulation length after a deletion/insertion so that the damage reaches the inner parsers
    j = rng.randrange(24, max(len(b), 25))
    if rng.random() < 0.5:
        c = b[:j] + b[j + 1:]
    else:
        c = b[:j] + bytes([rng.randrange(256)]) + b[j:]
    if len(c) >= 24:
        c = c[:2] + struct.pack("<H", (len(c) - 24) & 0xffff) + c[4:]
    return "relen", c


def generic(name):
    """field name without member/segment numbering (histogram bucket)"""
    import re
    return re.sub(r"\d+", "", name.replace("req.", "").replace("m.", "m."))


def mutate_raw(rng, b):
    fb = Builder().raw("x", b)
    kind, out = mutate(rng, fb)
    return kind, out


def chunked(rng, stream):
    """split a byte stream into recv blocks at random points"""
    if not stream:
        return []
    r = rng.random()
    if r < 0.4:
        return [stream]
    if r < 0.5:
        return [stream[i:i + 1] for i in range(len(stream))] if len(stream) < 200 else [stream]
    cuts = sorted({rng.randrange(1, len(stream)) for _ in range(rng.randint(1, 6))}) if len(stream) > 1 else []
    out, prev = [], 0
    for c in cuts + [len(stream)]:
        out.append(stream[prev:c])
        prev = c
    return [c for c in out if c]


def rand_frame_kwargs(rng):
    kw = {}
    if rng.random() < 0.3:
        kw["session"] = rng.choice([1, 0x12345678, 0xffffffff])
    if rng.random() < 0.3:
        kw["ctx"] = bytes(rng.randrange(256) for _ in range(8))
    if rng.random() < 0.15:
        kw["options"] = rng.choice([1, 0xffffffff])
    if rng.random() < 0.2:
        kw["cmd"] = 0x70
    if rng.random() < 0.2:
        kw["iface"] = rng.choice([1, 0xffffffff])
        kw["timeout"] = rng.choice([0, 0xffff])
    if rng.random() < 0.2:
        kw["route"] = rng.choice([(), (("o", 0),), (("o", 3), ("o", 1))])
    return kw


def valid_frame(rng, tags, invalid=0.15):
    """a valid tag request frame (builder), mostly well-formed requests for existing tags"""
    r = rand_req(rng, tags, invalid=invalid)
    if rng.random() < 0.1:
        r["wide"] = True
    wrapped = rng.random() < 0.75
    if r["op"] == "rf":
        wrapped = True       # a bare Read Tag Fragmented cannot be told from an Unconnected Send (same service code)
    return b_frame(r, wrapped=wrapped, **rand_frame_kwargs(rng)), r
